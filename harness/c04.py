"""C04 - MultiplexHypergraph keeps (hyperedge, layer) records; aggregation sums layers.

Three parties answer the same history, operation by operation, query by query:
  * the REAL `hypergraphx.MultiplexHypergraph` (public API only, imported from $HGX_REPO),
  * `Oracle` below: a few lines of Python over a dict  (frozenset(nodes), layer) -> [weight, metadata]
    - the property's own words; a difference real/oracle is a VIOLATION (the failing input is the history),
  * the Lean model (`lean/Driver/C04.lean`: concrete `Store` and abstract `Spec` side by side); a difference
    real/Lean that the oracle does not see is a broken correspondence.
Listings are compared as multisets (items sorted), exceptions as `rej`, dicts by content.

The real object is driven like a user's program drives it (strengthening round): every label / layer name of every call is
a freshly constructed EQUAL object (never the object stored in the hypergraph), node sets and argument lists come as tuple,
list, set, frozenset, range, generator, iterator, dict, dict keys, numpy array, string of one-letter labels, arguments are
passed positionally / by keyword / left out, the caller overwrites its own argument containers after the call and the
containers it got back from the queries (lists, dicts, the aggregated Hypergraph), and then asks everything again.

Round d: "every MultiplexHypergraph" includes the ones that come out of OTHER parts of the library. At the start and in the
middle of 45 % of the histories the object goes through save_hypergraph / load_hypergraph (binary and text format, temporary
files), pickle, copy.deepcopy, copy.copy, expose_data_structures / populate_from_dict, or is rebuilt by the constructor from
what its getters return; the history continues on the result or on the original, both are asked every query (layers in use,
aggregate and overlap included) and whatever the caller does to the one must not show in the other. Layer names are drawn
from universes of mixed, mutually UNORDERABLE types (2019 next to 'all-time' and None, tuples, bytes, frozensets, all falsy
names, names that differ from another only by type: None / 'None', 1 / '1'), labels and names with colliding hashes
(-1 / -2, 2**61-1 / 0), equal values of other numeric types (3 / 3.0 / numpy.int64(3), 1 / True) for labels, layer names,
weights, sizes and flags; refused calls that name a never-seen layer / node / an existing record are placed inside the histories.
"""
import contextlib
import copy
import io
import json
import os
import pickle
import random
import signal
import tempfile
import zlib

import numpy as np

import hgxv

RULE = ("random histories of 1-40 public calls on one MultiplexHypergraph (3-6 nodes, 2-5 layer names, the later ones rare; 17 "
        "labelings: small / large (> 256, > 2**63) / negative ints, floats, literal and run-time strings, hash-colliding ints as "
        "node labels; strings, ints, floats, tuples and - 6 labelings - names of mutually unorderable types (int / str / None / "
        "tuple / bytes / frozenset / float, all falsy names, type twins like None and 'None') as layer names; 45 % of the histories "
        "send the object 1-3 times through save+load (binary, text), pickle, deepcopy, copy, expose/populate or a rebuild by the "
        "constructor, at position 0 or later, and continue on the result or the original (both are queried, the other one is then "
        "changed by the caller); both weightedness settings, 45 % of the unweighted histories promoted by add_edges(weights=...) and "
        "continued with real weights; 15 % built through the constructor; half of the histories carry 1-3 calls of the raw surface: set_edge_list / set_adj_dict / set_existing_layers / populate_from_dict fed with the getters' results, set_existing_layers with the "
        "layers in use plus extra names): add_node(s), add_edge (permuted node order, a pool "
        "of 3-5 node sets re-used across layers), add_edges (same node set in several layers, also twice in the same layer, "
        "wrong-length layer/weight/metadata lists), remove_edge, remove_node with both keep_edges, set_weight, all metadata "
        "setters; 10-15 % malformed calls. Every call gets fresh equal label objects, a random container type per node set / "
        "argument list, a random positional / keyword / left-out spelling of its options, and its argument containers are "
        "overwritten afterwards. After EVERY call ~45 queries (nodes, records, weights, incident/degree with and without "
        "size/order filter in all spellings, layers, metadata, aggregated_hypergraph through its public API, edge_overlap) are "
        "compared and the object's internal tables are compared before/after the queries; after half of the calls every "
        "returned list / dict / aggregate is overwritten by the harness and all queries are asked again. "
        "A history is distinct by its canonical text and non-trivial when it has >= 1 accepted removal and >= 1 insertion of "
        "a (node set, layer) key that is or was present")
ASSUMPTIONS = ["hyperedges are duplicate-free node sets over mutually comparable labels (the property's quantifier); node labels "
               "are not tuples (a pair of tuples is read by _canon_edge as a directed (source, target) pair - by design)",
               "labels / layer names reach the model as their rank; weights are multiples of 1/4 (exact in binary64)",
               "a rejected call is one that raises any exception; it must leave every query unchanged",
               "layers in use = registry of layer names seen by accepted insertions (get_existing_layers); layer names are hashable "
               "objects compared by == only - they need not be comparable with each other",
               "an object obtained by pickle / copy.deepcopy / save_hypergraph(binary=True)+load_hypergraph / populate_from_dict("
               "expose_data_structures()) is the same map with the same registry; through the text format (and through the "
               "constructor fed with the getters' results) it is what the loader's own public calls build: same nodes, records, "
               "weights, metadata plus the reserved fields 'layer' / 'weight' the format adds, registry = layers of the records; "
               "the text format is only used where JSON carries labels and names unchanged (numbers / strings / null, string keys "
               "in the hypergraph metadata, no numpy scalars)",
               "edge_overlap(e) = sum over layers of get_weight(e, layer) (also for unweighted hypergraphs)",
               "a node set may be any finite iterable of labels; argument LISTS (hyperedges, layers, weights, metadata, nodes) are "
               "sized re-iterable collections (list, tuple, numpy array; for add_nodes also set / frozenset / dict keys); the "
               "node sets of a weighted batch are hashable (the library's repeated-pair test puts them in a set)",
               "by design the library stores / returns metadata dicts (and the layer registry) by reference: an edit of such a dict by "
               "the caller may act like the public setter on that ONE node / record / hypergraph-metadata field, or not at all - "
               "nothing else may change; freshly built return values (lists, get_edges(metadata=True), degree_sequence, the "
               "aggregate and its own metadata) and the caller's argument lists are independent of the object"]
TRUSTED = ["the aggregate returned by aggregated_hypergraph() is observed through Hypergraph's public API; the model builds it "
           "with the abstract add_node/add_edge of a plain hypergraph (property C01)"]
BUDGET_S = {"quick": 55, "thorough": 840}

VAL = {5: "x", 6: 7, 7: [1, 2], 8: {"a": 1}, 9: 1.5, 10: None, 11: "", 12: -3}
HVAL = dict(VAL)
HVAL.update({0: False, 1: True, 2: "MultiplexHypergraph", 3: "Hypergraph"})
VAL_REV = {json.dumps(v, sort_keys=True): k for k, v in VAL.items()}
HVAL_REV = {json.dumps(v, sort_keys=True): k for k, v in HVAL.items()}
FIELDS = [100, 101, 102]
# node labels / layer names per rank (node labels ascending); they include the falsy labels 0 and '' and layer names equal to
# node labels; from 6 on: objects that CPython does not share (ints > 256, run-time strings, floats, tuples)
LABELINGS = [
    {"nodes": [0, 1, 2, 3, 4, 5], "layers": ["A", "B", "C", "D"]},
    {"nodes": [10, 13, 21, 22, 40, 57], "layers": ["", "work", "x"]},
    {"nodes": ["", "a", "ba", "c", "d", "zz"], "layers": ["L1", "L2", "L3", "L10", "l1"]},
    {"nodes": [3, 4, 8, 9, 11, 12], "layers": [7, 8, 9]},
    {"nodes": [0, 1, 2, 3, 4, 5], "layers": [0, 1, 2, 3]},
    {"nodes": ["a", "b", "c", "d", "e", "f"], "layers": ["a", "b", "c"]},
    {"nodes": [1000, 1001, 1002, 1003, 1004, 1005], "layers": [300, 1000, 70000]},
    {"nodes": [257, 1000, 4096, 2 ** 31, 2 ** 63, 2 ** 70 + 1], "layers": ["layer one", "layer two", "λ3"]},
    {"nodes": ["n-10", "n-11", "n-2", "node three", "zz top", "ü"], "layers": [("L", 1), ("L", 2), ("M", 0)]},
    {"nodes": [-2.5, 0.5, 1.5, 2.25, 1e18, 3e300], "layers": [-1.0, 1.5, 2.5]},
    {"nodes": [-70000, -300, -6, 300, 70000, 10 ** 20], "layers": ["a b", "a  b", "a b "]},
    # round d: "any finite set of layer names" - names of different, mutually UNORDERABLE types in one hypergraph (a layer name
    # is only ever a dict / set key), falsy names of every type, names and labels whose hashes collide
    {"nodes": [0, 1, 2, 3, 4, 5], "layers": [2019, 2020, "all-time", None]},
    {"nodes": ["a", "b", "c", "d", "e", "f"], "layers": [("x", 1), "x", 1.5, None, b"x"]},
    {"nodes": [-2, -1, 0, 1, 2 ** 61 - 1, 2 ** 61], "layers": [-1, -2, 2 ** 61 - 1, 0, "-1"]},
    {"nodes": [-2, -1, 300, 301, 2 ** 61 - 1, 2 ** 61 + 299], "layers": [None, "", 0, (), frozenset()]},
    {"nodes": [-2, -1, -0.5, 0, 1, 2 ** 53], "layers": [1, "1", 1.5, (1,), frozenset([1])]},
    {"nodes": ["0", "1", "10", "2", "None", "none"], "layers": ["None", None, "none", 0.0, "0"]},
]
assert all(sorted(lb["nodes"]) == lb["nodes"] for lb in LABELINGS)
assert all(len(set(lb["layers"])) == len(lb["layers"]) and len(set(lb["nodes"])) == 6 for lb in LABELINGS)
# what the text format can carry unchanged: JSON numbers / strings as labels, numbers / strings / null as layer names
JSON_OK = [all(type(x) in (int, float, str) for x in lb["nodes"]) and all(type(x) in (int, float, str, type(None)) for x in lb["layers"])
           for lb in LABELINGS]


def _orderable(xs):
    try:
        for a in xs:
            for b in xs:
                a < b
        return True
    except TypeError:
        return False


# extension round: expose_attributes_for_hashing sorts (node tuple, layer) keys - asked where the layer names can be ordered
LAYERS_ORDERABLE = [_orderable(lb["layers"]) for lb in LABELINGS]
LAYERS_MONOTONE = [o and sorted(lb["layers"]) == lb["layers"] for o, lb in zip(LAYERS_ORDERABLE, LABELINGS)]


def _classes(xs):
    """comparability class of every layer name: `a < b` is defined iff the classes are equal (second extension round)"""
    reps, cls = [], []
    for a in xs:
        for i, r in enumerate(reps):
            try:
                a < r
                r < a
                cls.append(i)
                break
            except TypeError:
                pass
        else:
            reps.append(a)
            cls.append(len(reps) - 1)
    return cls


LAYER_CLASSES = [_classes(lb["layers"]) for lb in LABELINGS]
assert all((len(set(c)) == 1) == o for c, o in zip(LAYER_CLASSES, LAYERS_ORDERABLE))
# reserved metadata fields written by the text format (tokens of the model): "layer" -> 200 : 300 + rank, "weight" -> 201 : 400 + quanta
F_LAYER, F_WEIGHT, T_LAYER, T_WEIGHT = 200, 201, 300, 400


# ------------------------------------------------------------------------------------------ rendering
def fnats(l):
    l = list(l)
    return ",".join(str(x) for x in l) if l else "_"


def fmeta(pairs):
    return fnats(x for p in sorted(pairs) for x in p)


def items(l):
    l = sorted(l)
    return "|".join(l) if l else "-"


def fkey(nodes, layer):
    return f"{layer};{fnats(sorted(nodes))}"


def pyw(q, flip):
    """python value of a weight of q quanta; integral values are sent as int or as float (1 vs 1.0)"""
    if q % 4:
        return q / 4
    return float(q // 4) if flip else q // 4


def wobj(w, rs):
    """the same weight as a value of another numeric type (1 as True, numpy scalars)"""
    if w is None:
        return w
    r = rs.random()
    if r < 0.08:
        return np.float64(w)
    if r < 0.11 and NP_OK[0]:
        return np.float32(w) if rs.random() < 0.5 or w != int(w) else np.int64(int(w))
    if r < 0.14 and w == 1:
        return True
    return w


def fq(w):
    """weight in quanta of 1/4"""
    try:
        q = w * 4
        if q == int(q):
            return str(int(q))
        return "frac" + repr(w)
    except Exception:
        return "weird" + repr(w)


# ------------------------------------------------------------------------------------------ the oracle
class Oracle:
    """the abstract map of the property, in model terms (nodes, layers, tokens are naturals; weights quanta)"""

    def __init__(self, weighted, hm):
        self.w = bool(weighted)
        self.N = {}                    # node -> {k: v}
        self.E = {}                    # (frozenset, layer) -> [quanta, {k: v}]
        self.reg = set()
        self.hm = dict(hm)
        self.hm[0] = 1 if weighted else 0
        self.hm[1] = 2

    # -- updates
    def _node(self, n, md=None):
        if n not in self.N or self.N[n] == {}:
            self.N[n] = dict(md or {})

    def _insert(self, nodes, layer, w, md):
        k = (frozenset(nodes), layer)
        self.reg.add(layer)
        if k in self.E:
            if self.w:
                self.E[k][0] += w
            self.E[k][1] = dict(md)
        else:
            self.E[k] = [w, dict(md)]
        for n in nodes:
            self._node(n)

    def apply(self, op):
        t = op[0]
        if t == "addnode":
            self._node(op[1], dict(op[2] or []))
        elif t == "addnodes":
            if op[2] is not None:
                d = {n: dict(md) for n, md in op[2]}
                if any(n not in d for n in op[1]):
                    return "rej"
                for n in op[1]:
                    self._node(n, d[n])
            else:
                for n in op[1]:
                    self._node(n)
        elif t == "addedge":
            w = 4 if op[3] is None else op[3]
            if not self.w and w != 4:
                return "rej"
            self._insert(op[1], op[2], w, dict(op[4] or []))
        elif t == "addedges":
            raws, ls, ws, mds = op[1:5]
            if len(ls) < len(raws) or (mds is not None and len(mds) < len(raws)):
                return "rej"
            if ws is not None:
                pairs = [(tuple(r), l) for r, l in zip(raws, ls)]
                if len(set(pairs)) != len(pairs) or len(ws) != len(raws):
                    return "rej"
                self.w = True
            for i, (r, l) in enumerate(zip(raws, ls)):
                self._insert(r, l, 4 if ws is None else ws[i], dict(mds[i]) if mds is not None else {})
        elif t == "rmedge":
            k = (frozenset(op[1]), op[2])
            if k not in self.E:
                return "rej"
            del self.E[k]
        elif t == "rmnode":
            n, keep = op[1], op[2]
            if n not in self.N:
                return "rej"
            hit = [k for k in self.E if n in k[0]]
            moved = [(k, self.E.pop(k)) for k in hit]
            if keep:
                for (e, l), (w, md) in moved:
                    if len(e) > 1:
                        self._insert(e - {n}, l, w, md)
            del self.N[n]
        elif t == "setw":
            k = (frozenset(op[1]), op[2])
            if (not self.w and op[3] != 4) or k not in self.E:
                return "rej"
            self.E[k][0] = op[3]
        elif t == "sethmeta":
            self.hm = dict(op[1])
        elif t == "setattrh":
            self.hm[op[1]] = op[2]
        elif t == "setlayermeta":
            self.hm[10 + op[1]] = op[2]
        elif t == "setdsmeta":
            self.hm[2] = op[1]
        elif t == "setattrn":
            if op[1] not in self.N:
                return "rej"
            self.N[op[1]][op[2]] = op[3]
        elif t == "delattrn":
            if op[1] not in self.N or op[2] not in self.N[op[1]]:
                return "rej"
            del self.N[op[1]][op[2]]
        elif t == "setattre":
            k = (frozenset(op[1]), op[2])
            if k not in self.E:
                return "rej"
            self.E[k][1][op[3]] = op[4]
        elif t == "delattre":
            k = (frozenset(op[1]), op[2])
            if k not in self.E or op[3] not in self.E[k][1]:
                return "rej"
            del self.E[k][1][op[3]]
        elif t == "rawecho":
            pass                       # a raw setter fed with its getter's result: nothing moves
        elif t == "setlayers":
            self.reg = {l for (_, l) in self.E} | set(op[1])
        else:
            raise AssertionError(op)
        return "ok"

    def through_text(self):
        """the map that load_hypergraph(.json) builds from what save_hypergraph wrote: a NEW object filled by public calls -
        set_hypergraph_metadata, add_node per node, add_edge per record with its weight and its metadata plus the reserved
        fields "layer" (and "weight" when weighted); so the registry is the set of layers in use. Returns (map, calls)"""
        o = Oracle(self.w, [])
        calls = [["sethmeta", sorted(self.hm.items())]]
        for n, md in self.N.items():
            calls.append(["addnode", n, sorted(md.items())])
        for (e, l), (w, md) in self.E.items():
            md2 = dict(md)
            md2[F_LAYER] = T_LAYER + l
            if self.w:
                md2[F_WEIGHT] = T_WEIGHT + w
            calls.append(["addedge", sorted(e), l, w if self.w else None, sorted(md2.items())])
        for c in calls:
            assert o.apply(c) == "ok"
        return o, calls

    def through_ctor(self):
        """the map of MultiplexHypergraph(edge_list=h.get_edges(), weighted=.., weights=.., hypergraph_metadata=..,
        node_metadata=.., edge_metadata=..) fed with (copies of) what the getters of `self` return: (map, calls)"""
        o = Oracle(self.w, sorted(self.hm.items()))
        calls = [["addnode", n, sorted(md.items())] for n, md in self.N.items()]
        keys = list(self.E)
        calls.append(["addedges", [sorted(e) for e, _ in keys], [l for _, l in keys],
                      [self.E[k][0] for k in keys] if self.w else None, [sorted(self.E[k][1].items()) for k in keys]])
        for c in calls:
            assert o.apply(c) == "ok"
        return o, calls

    # -- queries
    def _inc(self, n, f):
        if n not in self.N or f[0] == "b":
            return None
        out = []
        for (e, l) in self.E:
            if n in e and (f == "a" or (f[0] == "s" and len(e) == int(f[1:])) or (f[0] == "o" and len(e) == int(f[1:]) + 1)):
                out.append((e, l))
        return out

    def query(self, q):
        t = q[0]
        if t == "nodes":
            return items(str(n) for n in self.N)
        if t == "nodesmeta":
            return items(f"{n};{fmeta(md.items())}" for n, md in self.N.items())
        if t == "edges":
            return items(fkey(e, l) for (e, l) in self.E)
        if t == "edgesmeta":
            return items(f"{fkey(e, l)};{fmeta(v[1].items())}" for (e, l), v in self.E.items())
        if t == "weights":
            return items(f"{fkey(e, l)};{v[0]}" for (e, l), v in self.E.items())
        if t == "weight":
            k = (frozenset(q[1]), q[2])
            return str(self.E[k][0]) if k in self.E else "rej"
        if t == "emeta":
            k = (frozenset(q[1]), q[2])
            return fmeta(self.E[k][1].items()) if k in self.E else "rej"
        if t == "incident":
            r = self._inc(q[1], q[2])
            return "rej" if r is None else items(fkey(e, l) for e, l in r)
        if t == "degree":
            r = self._inc(q[1], q[2])
            return "rej" if r is None else str(len(r))
        if t == "degseq":
            if q[1][0] == "b":
                return "rej"
            return items(f"{n};{len(self._inc(n, q[1]))}" for n in self.N)
        if t == "layers":
            return items(str(l) for l in self.reg)
        if t == "inuse":
            return items(str(l) for l in {l for (_, l) in self.E})
        if t == "hmeta":
            return items(f"{k};{v}" for k, v in self.hm.items())
        if t == "layermeta":
            return str(self.hm[10 + q[1]]) if 10 + q[1] in self.hm else "rej"
        if t == "dsmeta":
            return str(self.hm[2]) if 2 in self.hm else "rej"
        if t == "weighted":
            return "1" if self.w else "0"
        # the aggregate, straight from the statement: same nodes (and metadata); the distinct node sets of all layers;
        # weight = sum of the per-layer weights when weighted, 1 when not
        if t == "aggnodes":
            return self.query(["nodesmeta"])
        if t == "aggkeys":
            return items(fnats(sorted(e)) for e in {e for (e, _) in self.E})
        if t == "aggweights":
            sets = {e for (e, _) in self.E}
            return items(f"{fnats(sorted(e))};{sum(v[0] for (e2, _), v in self.E.items() if e2 == e) if self.w else 4}" for e in sets)
        if t == "aggweighted":
            return "1" if self.w else "0"
        if t in ("overlap", "overlapin"):
            e = frozenset(q[1])
            return str(sum(v[0] for (e2, _), v in self.E.items() if e2 == e))
        if t == "hashviewt":
            # layer names of several comparability classes: the call raises iff a node set lives in two layers of different classes
            cls = q[1]
            if any(e == e2 and cls[l] != cls[l2] for (e, l) in self.E for (e2, l2) in self.E):
                return "rej"
            t = "hashview"
        if t == "hashview":
            # expose_attributes_for_hashing in the statement's terms: flag, hypergraph metadata, the entries of the map in key
            # order (node tuple, then layer), the nodes in label order - ORDERED listings
            es = sorted((sorted(e), l, v[0], fmeta(v[1].items())) for (e, l), v in self.E.items())
            return "#".join(["1" if self.w else "0", items(f"{k};{v}" for k, v in self.hm.items()),
                             "|".join(f"{l};{fnats(e)};{w};{md}" for e, l, w, md in es) or "-",
                             "|".join(f"{n};{fmeta(self.N[n].items())}" for n in sorted(self.N)) or "-"])
        raise AssertionError(q)


# ------------------------------------------------------------------------------------------ label objects and containers
class Hang(BaseException):
    """not an Exception: the blanket `except Exception` observations must not swallow the alarm"""


def _alarm(signum, frame):
    raise Hang()


DUMPKEYS_DIFFER = [False]
NP_OK = [True]      # numpy scalars / arrays as presentations (off in histories that go through the text format: JSON has no int64)


def fresh(x, rs=None):
    """an EQUAL but freshly constructed object (ints outside CPython's small-int cache, run-time strings, tuples and
    floats are new objects on every call; with `rs` occasionally the numpy scalar of the same value, or the equal object of
    ANOTHER numeric type: 3 as 3.0, 1e18 as 10**18, 0 / 1 as False / True - they are the same dict key)"""
    if isinstance(x, bool) or x is None:
        return x
    if isinstance(x, int):
        r = rs.random() if rs is not None else 1.0
        if r < 0.08 and NP_OK[0] and -2 ** 62 < x < 2 ** 62:
            return np.int64(x)
        if 0.08 <= r < 0.11 and abs(x) <= 2 ** 53:
            return float(x)
        if 0.11 <= r < 0.13 and x in (0, 1):
            return bool(x)
        return int(str(x))
    if isinstance(x, float):
        r = rs.random() if rs is not None else 1.0
        if r < 0.08 and NP_OK[0]:
            return np.float64(x)
        if 0.08 <= r < 0.11 and x.is_integer() and abs(x) < 1e19:
            return int(x)
        return float(repr(x))
    if isinstance(x, str):
        return "".join(list(x))
    if isinstance(x, bytes):
        return bytes(bytearray(x))
    if isinstance(x, tuple):
        return tuple(fresh(y) for y in x)
    if isinstance(x, frozenset):
        return frozenset(fresh(y) for y in x)
    return x


def np_arr(objs):
    """a 1-d array holding the objects; numpy's own coercions (2019 next to 'all-time' becomes the STRING '2019', ints beyond
    2**63 floats) are the caller's business, not the library's: anything but a homogeneous int / float / str list goes into an
    object array"""
    objs = list(objs)
    ts = {type(x) for x in objs}
    if len(ts) > 1 or not ts <= {int, float, str, np.int64, np.float64} or any(isinstance(x, int) and abs(x) >= 2 ** 62 for x in objs):
        a = np.empty(len(objs), dtype=object)
        for i, x in enumerate(objs):
            a[i] = x
        return a
    return np.array(objs)


def mk_edge(objs, rs, stats=None, hashable=False, norepeat=True):
    """one hyperedge (node set) as a container of some type; `hashable`: only what may sit in set(zip(edges, layers)),
    and unless `norepeat` only containers whose equality is the equality of the node tuples as given"""
    objs = list(objs)
    kinds = ["t", "t", "l", "l", "s", "f", "g", "i", "k", "d", "n"]
    if objs and all(type(x) is int for x in objs) and sorted(objs) == list(range(min(objs), min(objs) + len(objs))):
        kinds += ["r", "r"]
    if all(type(x) is str and len(x) == 1 for x in objs):
        kinds += ["S"]
    if hashable:
        kinds = ["t", "t"] + [k for k in kinds if norepeat and k in "fgrS"]
    k = rs.choice(kinds)
    if k == "n" and not NP_OK[0]:
        k = "l"
    if stats is not None:
        stats["edge_as_" + k] = stats.get("edge_as_" + k, 0) + 1
    if k == "t":
        return tuple(objs)
    if k == "l":
        return list(objs)
    if k == "s":
        return set(objs)
    if k == "f":
        return frozenset(objs)
    if k == "g":
        return (x for x in objs)
    if k == "i":
        return iter(list(objs))
    if k == "k":
        return dict.fromkeys(objs).keys()
    if k == "d":
        return dict.fromkeys(objs, 1)
    if k == "n":
        return np_arr(objs)
    if k == "r":
        return range(min(objs), max(objs) + 1) if rs.random() < 0.5 else range(max(objs), min(objs) - 1, -1)
    if k == "S":
        return "".join(objs)
    raise AssertionError(k)


def mk_seq(items, rs, kinds="lt", stats=None, name="seq"):
    """an argument list (hyperedges, layers, weights, metadata, nodes) as list / tuple / numpy array / set / ..."""
    items = list(items)
    k = rs.choice(kinds)
    if k == "n" and not NP_OK[0]:
        k = "l"
    if k == "n":
        try:
            a = np_arr(items)
            if a.ndim != 1 or len(a) != len(items):
                k = "l"
        except Exception:
            k = "l"
    if stats is not None:
        stats[f"{name}_as_{k}"] = stats.get(f"{name}_as_{k}", 0) + 1
    if k == "l":
        return list(items)
    if k == "t":
        return tuple(items)
    if k == "n":
        return a
    if k == "s":
        return set(items)
    if k == "f":
        return frozenset(items)
    if k == "k":
        return dict.fromkeys(items).keys()
    raise AssertionError(k)


def spoil(c):
    """what a caller may do with ITS OWN argument after the call returned"""
    try:
        if isinstance(c, list):
            c[:] = ["spoiled"]
        elif isinstance(c, set):
            c.clear()
            c.add("spoiled")
        elif isinstance(c, dict):
            c.clear()
        elif isinstance(c, np.ndarray) and c.size:
            c[...] = c.flat[0]
    except Exception:
        pass


def call(f, pos, kw, rs, names):
    """call f with the arguments `pos` (in the order of the parameter names `names`) positionally up to a random point,
    by keyword from there on; trailing `None` optional arguments (those in `kw`) are left out or passed explicitly"""
    cut = rs.randint(0, len(pos))
    args = list(pos[:cut])
    kwargs = {n: v for n, v in zip(names[cut:], pos[cut:])}
    opt = list(kw)                       # [(name, value)] optional parameters in signature order
    explicit = rs.random() < 0.5
    positional_ok = cut == len(pos)
    for name, v in opt:
        if v is None and not explicit:
            positional_ok = False
            continue
        if positional_ok and rs.random() < 0.4:
            args.append(v)
        else:
            positional_ok = False
            kwargs[name] = v
    return f(*args, **kwargs)


# ------------------------------------------------------------------------------------------ the real object
class Real:
    def __init__(self, lab, weighted, hm, ctor=None, sty=0):
        from hypergraphx import MultiplexHypergraph
        self.lab = lab
        self.nl = lab["nodes"]
        self.ll = lab["layers"]
        self.nrank = {x: i for i, x in enumerate(self.nl)}
        self.lrank = {x: i for i, x in enumerate(self.ll)}
        self.lmono = LAYERS_MONOTONE[LABELINGS.index(lab)]
        self.stats = {}
        self.sty = sty
        self.qs = random.Random(sty * 7919 + 13)
        self._agg = None
        self.pending = None            # candidate equivalents of what the harness did to a by-design shared dict
        rs = random.Random(zlib.crc32(json.dumps(["ctor", weighted, hm, ctor, sty]).encode()))
        pos_all = rs.random() < 0.25
        kw = {}
        if weighted or rs.random() < 0.5:
            kw["weighted"] = bool(weighted)
        if hm:
            kw["hypergraph_metadata"] = self.hmd(hm)
        elif rs.random() < 0.3:
            kw["hypergraph_metadata"] = rs.choice([None, {}])
        self.args = []
        if ctor is not None:
            # constructor path: node_metadata, then edge_list (+ edge_layer or embedded layers), weights, edge_metadata
            nm, raws, ls, ws, mds, embedded = ctor
            if nm:
                kw["node_metadata"] = {self.N(n, rs): self.md(md) for n, md in nm}
            hashable = ws is not None
            keys = [(frozenset(r), l) for r, l in zip(raws, ls)]
            norepeat = len(set(keys)) == len(keys)
            edges = [mk_edge([self.N(x, rs) for x in r], rs, self.stats, hashable, norepeat) for r in raws]
            layers = [self.L(l, rs) for l in ls]
            if embedded:
                kw["edge_list"] = mk_seq([(e, l) for e, l in zip(edges, layers)], rs, "lt")
            else:
                same = len({len(r) for r in raws}) == 1 and len(raws[0]) >= 1 and ws is None
                kw["edge_list"] = mk_seq(edges, rs, "llt") if not (same and rs.random() < 0.2 and NP_OK[0]) else \
                    np.array([np_arr([self.N(x, rs) for x in r]) for r in raws])
                kw["edge_layer"] = mk_seq(layers, rs, "lltn", self.stats, "layers")
            if ws is not None:
                kw["weights"] = mk_seq([pyw(w, i % 2) for i, w in enumerate(ws)], rs, "lltn", self.stats, "weights")
            if mds is not None:
                kw["edge_metadata"] = mk_seq([self.md(m) for m in mds], rs, "lt")
            self.args = [kw.get("edge_list"), kw.get("edge_layer"), kw.get("weights"), kw.get("edge_metadata"), kw.get("node_metadata")]
        if pos_all:
            order = ["edge_list", "edge_layer", "weighted", "weights", "hypergraph_metadata", "node_metadata", "edge_metadata"]
            dflt = {"weighted": False}
            last = max([i for i, n in enumerate(order) if n in kw], default=-1)
            self.h = MultiplexHypergraph(*[kw.get(n, dflt.get(n)) for n in order[:last + 1]])
        else:
            self.h = MultiplexHypergraph(**kw)
        for c in self.args:            # the caller re-uses its lists afterwards
            spoil(c)

    # rank -> fresh label object
    def N(self, i, rs=None):
        return fresh(self.nl[i], rs)

    def L(self, i, rs=None):
        return fresh(self.ll[i], rs)

    def E(self, raw, rs, hashable=False, norepeat=True):
        return mk_edge([self.N(x, rs) for x in raw], rs, self.stats, hashable, norepeat)

    # token -> python
    def md(self, pairs):
        return {f"f{k}": copy.deepcopy(VAL.get(v, f"tok{v}")) for k, v in pairs}

    def hkey(self, k):
        if k == 0:
            return "weighted"
        if k == 1:
            return "type"
        if k == 2:
            return "multiplex_metadata"
        if 10 <= k < 10 + len(self.ll):
            return self.L(k - 10)
        return f"f{k}"

    def hmd(self, pairs):
        return {self.hkey(k): copy.deepcopy(HVAL.get(v, f"tok{v}")) for k, v in pairs}

    # python -> token
    def r_md(self, d):
        out = []
        for k, v in d.items():
            if k == "layer":                # reserved fields of the text format
                out.append((F_LAYER, T_LAYER + self.rl(v)))
                continue
            if k == "weight":
                q = fq(v)
                out.append((F_WEIGHT, T_WEIGHT + int(q) if q.isdigit() else 999))
                continue
            kk = int(k[1:]) if isinstance(k, str) and k[:1] == "f" and k[1:].isdigit() else 998
            out.append((kk, VAL_REV.get(json.dumps(v, sort_keys=True), 999)))
        return out

    def r_hmd(self, d):
        out = []
        for k, v in d.items():
            if self.rl(k) < 900:
                kk = 10 + self.rl(k)
            elif k == "weighted":
                kk = 0
            elif k == "type":
                kk = 1
            elif k == "multiplex_metadata":
                kk = 2
            elif isinstance(k, str) and k[:1] == "f" and k[1:].isdigit():
                kk = int(k[1:])
            else:
                kk = 998
            out.append((kk, HVAL_REV.get(json.dumps(v, sort_keys=True), 999)))
        return out

    def rn(self, x):
        try:
            return self.nrank.get(x, 997)
        except TypeError:
            return 996

    def rl(self, x):
        try:
            return self.lrank.get(x, 997)
        except TypeError:
            return 996

    def rkey(self, k):
        nodes, layer = k
        return fkey([self.rn(x) for x in nodes], self.rl(layer))

    def _share(self, d, rs, equiv, hyper=False):
        """the caller edits a dict it handed over / got back (by design of the library such a dict may be the stored one):
        sets one field; `equiv(f, v)` = the public call that has the same effect when the dict is shared"""
        if rs.random() < 0.25 and d and not hyper:
            f = next(iter(d))
            if isinstance(f, str) and f[:1] == "f" and f[1:].isdigit():
                del d[f]
                self.pending = [[], [equiv(int(f[1:]), None)]]
                return
        if hyper:
            k, v = rs.choice([100, 101, 102, 2, 10]), rs.choice(list(HVAL))
            d[self.hkey(k)] = copy.deepcopy(HVAL[v])
        else:
            k, v = rs.choice(FIELDS), rs.choice(list(VAL))
            d[f"f{k}"] = copy.deepcopy(VAL[v])
        self.pending = [[], [equiv(k, v)]]

    def apply(self, op, rs):
        """one public mutating call; arguments are fresh equal objects in containers of varying type, passed positionally
        or by keyword; afterwards the caller's own containers are overwritten (nothing of them may have been kept)"""
        h, t = self.h, op[0]
        self.pending = None
        used = []
        alias = None
        try:
            if t == "addnode":
                md = None if op[2] is None else self.md(op[2])
                call(h.add_node, [self.N(op[1], rs)], [("metadata", md)], rs, ["node"])
                if md is not None:
                    alias = (md, lambda f, v: ["setattrn", op[1], f, v] if v is not None else ["delattrn", op[1], f])
            elif t == "addnodes":
                ns = mk_seq([self.N(n, rs) for n in op[1]], rs, "lltsfkn", self.stats, "nodes")
                d = None if op[2] is None else {self.N(n, rs): self.md(md) for n, md in op[2]}
                used += [ns, d]
                if d is not None and op[1]:
                    i = rs.choice(op[1])
                    if any(n == i for n, _ in op[2]):
                        alias = (d[self.nl[i]], lambda f, v: ["setattrn", i, f, v] if v is not None else ["delattrn", i, f])
                call(h.add_nodes, [ns], [("node_metadata", d)], rs, ["node_list"])
            elif t == "addedge":
                w = None if op[3] is None else pyw(op[3], (len(op[1]) + op[2] + op[3]) % 2)
                w = wobj(w, rs)
                md = None if op[4] is None else self.md(op[4])
                e = self.E(op[1], rs)
                used.append(e)
                if md is not None:
                    alias = (md, lambda f, v: ["setattre", op[1], op[2], f, v] if v is not None else ["delattre", op[1], op[2], f])
                call(h.add_edge, [e, self.L(op[2], rs)], [("weight", w), ("metadata", md)], rs, ["edge", "layer"])
            elif t == "addedges":
                raws, ls, ws, mds = op[1:5]
                keys = [(frozenset(r), l) for r, l in zip(raws, ls)]
                norepeat = len(set(keys)) == len(keys)
                es = [self.E(r, rs, ws is not None, norepeat) for r in raws]
                same = ws is None and raws and len({len(r) for r in raws}) == 1 and len(raws[0]) >= 1
                if same and rs.random() < 0.15 and NP_OK[0]:
                    el = np.array([np_arr([self.N(x, rs) for x in r]) for r in raws])
                    self.stats["edges_as_2d"] = self.stats.get("edges_as_2d", 0) + 1
                else:
                    el = mk_seq(es, rs, "llt")
                lay = mk_seq([self.L(l, rs) for l in ls], rs, "lltn", self.stats, "layers")
                wl = None if ws is None else mk_seq([wobj(pyw(w, (i + len(raws)) % 2), rs) for i, w in enumerate(ws)], rs, "lltn",
                                                    self.stats, "weights")
                ml = None if mds is None else [self.md(m) for m in mds]
                if ml is not None and raws and len(ml) >= len(raws) and len(ls) >= len(raws):
                    i = rs.randrange(len(raws))
                    if keys[i] not in keys[i + 1:]:
                        d0, ri, li = ml[i], raws[i], ls[i]
                        alias = (d0, lambda f, v: ["setattre", ri, li, f, v] if v is not None else ["delattre", ri, li, f])
                mlc = None if ml is None else mk_seq(ml, rs, "lt")
                used += [el, lay, wl, mlc] + es
                call(h.add_edges, [el, lay], [("weights", wl), ("metadata", mlc)], rs, ["edge_list", "edge_layer"])
            elif t == "rmedge":
                pair = [self.E(op[1], rs), self.L(op[2], rs)]
                pair = tuple(pair) if rs.random() < 0.7 else pair
                used += [pair[0], pair]
                call(h.remove_edge, [pair], [], rs, ["edge"])
            elif t == "rmnode":
                keep = bool(op[2])
                if rs.random() < 0.1:          # the flag as it comes out of a comparison of numpy values, or as 0 / 1
                    keep = np.bool_(keep) if NP_OK[0] and rs.random() < 0.5 else int(keep)
                if not keep and rs.random() < 0.6:
                    h.remove_node(self.N(op[1], rs))
                else:
                    call(h.remove_node, [self.N(op[1], rs)], [("keep_edges", keep)], rs, ["node"])
            elif t == "setw":
                w = wobj(pyw(op[3], (len(op[1]) + op[3]) % 2), rs)
                e = self.E(op[1], rs)
                used.append(e)
                call(h.set_weight, [e, self.L(op[2], rs), w], [], rs, ["edge", "layer", "weight"])
            elif t == "sethmeta":
                d = self.hmd(op[1])
                alias = (d, lambda f, v: ["setattrh", f, v], True)
                call(h.set_hypergraph_metadata, [d], [], rs, ["metadata"])
            elif t == "setattrh":
                call(h.set_attr_to_hypergraph_metadata, [self.hkey(op[1]), copy.deepcopy(HVAL.get(op[2]))], [], rs, ["field", "value"])
            elif t == "setlayermeta":
                call(h.set_layer_metadata, [self.L(op[1], rs), copy.deepcopy(HVAL.get(op[2]))], [], rs, ["layer_name", "metadata"])
            elif t == "setdsmeta":
                call(h.set_dataset_metadata, [copy.deepcopy(HVAL.get(op[1]))], [], rs, ["metadata"])
            elif t == "setattrn":
                call(h.set_attr_to_node_metadata, [self.N(op[1], rs), f"f{op[2]}", copy.deepcopy(VAL.get(op[3]))], [], rs,
                     ["node", "field", "value"])
            elif t == "delattrn":
                call(h.remove_attr_from_node_metadata, [self.N(op[1], rs), f"f{op[2]}"], [], rs, ["node", "field"])
            elif t == "setattre":
                e = self.E(op[1], rs)
                used.append(e)
                call(h.set_attr_to_edge_metadata, [e, self.L(op[2], rs), f"f{op[3]}", copy.deepcopy(VAL.get(op[4]))], [], rs,
                     ["edge", "layer", "field", "value"])
            elif t == "delattre":
                e = self.E(op[1], rs)
                used.append(e)
                call(h.remove_attr_from_edge_metadata, [e, self.L(op[2], rs), f"f{op[3]}"], [], rs, ["edge", "layer", "field"])
            elif t == "rawecho":
                # second extension round: a raw setter fed with what the matching getter returns (the object or an equal copy)
                cp = rs.random() < 0.5
                if op[1] == "el":
                    d = h.get_edge_list()
                    h.set_edge_list(dict(d) if cp else d)
                elif op[1] == "adj":
                    d = h.get_adj_dict()
                    h.set_adj_dict({k: list(v) for k, v in d.items()} if cp else d)
                elif op[1] == "lay":
                    d = h.get_existing_layers()
                    h.set_existing_layers(set(d) if cp else d)
                else:
                    d = h.expose_data_structures()
                    h.populate_from_dict(dict(d) if cp else d)
            elif t == "setlayers":
                # a registry handed in from outside: the layers in use and some more names, as a fresh set of fresh objects
                h.set_existing_layers({x[1] for x in h.get_edges()} | {self.L(l, rs) for l in op[1]})
            else:
                raise AssertionError(op)
            res = "ok"
        except AssertionError:
            raise
        except Exception:
            res = "rej"
        for c in used:
            spoil(c)
        if res == "ok" and alias is not None and rs.random() < 0.5:
            self._share(alias[0], rs, alias[1], len(alias) > 2)
        return res

    def fargs(self, f, rs):
        """the order / size options in all their spellings"""
        if f == "a":
            return rs.choice([([], {}), ([], {}), ([None], {}), ([None, None], {}), ([], {"order": None}), ([], {"size": None}),
                              ([], {"order": None, "size": None})])
        if f[0] == "b":      # both given (must raise), including the falsy values 0
            o, s = int(f[1]), int(f[2])
            return rs.choice([([], {"order": o, "size": s}), ([o, s], {}), ([o], {"size": s})])
        k = int(f[1:])
        r = rs.random()          # the same count as a value of another type: 2.0, numpy.int64(2), True for 1
        if r < 0.06:
            k = float(k)
        elif r < 0.1 and NP_OK[0]:
            k = np.int64(k)
        elif r < 0.14 and k in (0, 1):
            k = bool(k)
        if f[0] == "s":
            return rs.choice([([], {"size": k}), ([], {"size": k}), ([None, k], {}), ([None], {"size": k}), ([], {"order": None, "size": k})])
        return rs.choice([([], {"order": k}), ([], {"order": k}), ([k], {}), ([k, None], {}), ([], {"order": k, "size": None})])

    def agg(self):
        if self._agg is None:
            try:
                self._agg = ("ok", self.h.aggregated_hypergraph())
            except Exception as ex:
                self._agg = ("rej", ex)
        return self._agg

    def query(self, q):
        try:
            return self._query(q)
        except Exception:
            return "rej"

    def flag(self, v):
        """metadata=True / False in its spellings"""
        rs = self.qs
        if v:
            return rs.choice([([True], {}), ([], {"metadata": True})])
        return rs.choice([([], {}), ([], {}), ([False], {}), ([], {"metadata": False})])

    def _query(self, q):
        h, t, rs = self.h, q[0], self.qs
        if t == "nodes":
            a, k = self.flag(False)
            return items(str(self.rn(n)) for n in h.get_nodes(*a, **k))
        if t == "nodesmeta":
            a, k = self.flag(True)
            return items(f"{self.rn(n)};{fmeta(self.r_md(md))}" for n, md in h.get_nodes(*a, **k).items())
        if t == "edges":
            a, k = self.flag(False)
            return items(self.rkey(x) for x in h.get_edges(*a, **k))
        if t == "edgesmeta":
            a, k = self.flag(True)
            return items(f"{self.rkey(x)};{fmeta(self.r_md(md))}" for x, md in h.get_edges(*a, **k).items())
        if t == "weights":
            return items(f"{self.rkey(x)};{fq(h.get_weight(x[0], x[1]))}" for x in h.get_edges())
        if t == "weight":
            return fq(call(h.get_weight, [self.E(q[1], rs), self.L(q[2], rs)], [], rs, ["edge", "layer"]))
        if t == "emeta":
            return fmeta(self.r_md(call(h.get_edge_metadata, [self.E(q[1], rs), self.L(q[2], rs)], [], rs, ["edge", "layer"])))
        if t == "incident":
            a, k = self.fargs(q[2], rs)
            return items(self.rkey(x) for x in h.get_incident_edges(self.N(q[1], rs), *a, **k))
        if t == "degree":
            a, k = self.fargs(q[2], rs)
            if rs.random() < 0.3:        # the function of measures.degree itself (the method delegates to it)
                from hypergraphx.measures.degree import degree
                d = degree(h, self.N(q[1], rs), *a, **k)
            else:
                d = h.degree(self.N(q[1], rs), *a, **k)
            return str(int(d)) if d == int(d) else repr(d)
        if t == "degseq":
            a, k = self.fargs(q[1], rs)
            if rs.random() < 0.3:
                from hypergraphx.measures.degree import degree_sequence
                return items(f"{self.rn(n)};{d}" for n, d in degree_sequence(h, *a, **k).items())
            return items(f"{self.rn(n)};{d}" for n, d in h.degree_sequence(*a, **k).items())
        if t == "layers":
            return items(str(self.rl(l)) for l in h.get_existing_layers())
        if t == "inuse":
            return items(str(self.rl(l)) for l in {x[1] for x in h.get_edges()})
        if t == "hmeta":
            return items(f"{k};{v}" for k, v in self.r_hmd(h.get_hypergraph_metadata()))
        if t == "layermeta":
            return str(HVAL_REV.get(json.dumps(h.get_layer_metadata(self.L(q[1], rs)), sort_keys=True), 999))
        if t == "dsmeta":
            return str(HVAL_REV.get(json.dumps(h.get_dataset_metadata(), sort_keys=True), 999))
        if t == "weighted":
            return "1" if h.is_weighted() is True else ("0" if h.is_weighted() is False else "weird")
        if t in ("overlap", "overlapin"):
            if rs.random() < 0.5:
                from hypergraphx.measures.multiplex import edge_overlap
            else:
                from hypergraphx.measures.multiplex.overlap import edge_overlap
            return fq(call(edge_overlap, [h, self.E(q[1], rs)], [], rs, ["h", "edge"]))
        if t == "dumpkeys":
            return items(str(k) for k in h.expose_data_structures())
        if t in ("hashview", "hashviewt"):
            d = h.expose_attributes_for_hashing()
            if set(d) != {"type", "weighted", "hypergraph_metadata", "edges", "nodes"} or d["type"] != "MultiplexHypergraph":
                return "weird-keys"
            es, ns = d["edges"], d["nodes"]
            if any(set(x) != {"nodes", "weight", "metadata"} for x in es) or any(set(x) != {"node", "metadata"} for x in ns):
                return "weird-items"
            # the listing must be ascending in Python's own order (asked only where the layer names are mutually orderable)
            for a, b in zip(es, es[1:]):
                try:
                    up = a["nodes"] < b["nodes"]
                except TypeError:      # a listing was produced although two of its keys cannot be compared: not `sorted`'s order
                    return "listing-of-unorderable-keys"
                if not up:
                    return "unsorted-edges"
            for a, b in zip(ns, ns[1:]):
                if not a["node"] < b["node"]:
                    return "unsorted-nodes"
            if any(list(x["nodes"][0]) != sorted(x["nodes"][0]) for x in es):
                return "uncanonical"
            rows = [([self.rn(x) for x in e["nodes"][0]], self.rl(e["nodes"][1]), fq(e["weight"]), fmeta(self.r_md(e["metadata"])))
                    for e in es]
            if any(type(x["nodes"]) is not tuple or type(x["nodes"][0]) is not tuple for x in es):
                return "weird-key-type"
            if [r[:2] for r in rows] != sorted(r[:2] for r in rows) and self.lmono:
                return "unsorted-by-rank"
            rows.sort(key=lambda r: r[:2])
            fl = "1" if d["weighted"] is True else ("0" if d["weighted"] is False else "weird")
            return "#".join([fl, items(f"{k};{v}" for k, v in self.r_hmd(d["hypergraph_metadata"])),
                             "|".join(f"{l};{fnats(e)};{w};{md}" for e, l, w, md in rows) or "-",
                             "|".join(f"{self.rn(x['node'])};{fmeta(self.r_md(x['metadata']))}" for x in ns) or "-"])
        if t in ("edgetable", "adjtable"):
            # record ids by their rank among the live ids (the harness registers a layer in the MODEL by a throw-away record)
            live = sorted(h.get_edge_list().values())
            rk = {i: j for j, i in enumerate(live)}
            if t == "edgetable":
                return items(f"{self.rkey(k)};{rk[i]}" for k, i in h.get_edge_list().items())
            return items(f"{self.rn(n)};{fnats(rk.get(i, f'dangling{i}') for i in ids)}" for n, ids in h.get_adj_dict().items())
        st, a = self.agg()
        if st != "ok":
            return "rej"
        if t == "aggnodes":
            return items(f"{self.rn(n)};{fmeta(self.r_md(md))}" for n, md in a.get_nodes(metadata=True).items())
        if t == "aggedges":
            return items(f"{fnats(sorted(self.rn(x) for x in e))};{fq(a.get_weight(e))};{fmeta(self.r_md(a.get_edge_metadata(e)))}"
                         for e in a.get_edges())
        if t == "aggkeys":
            return items(fnats(sorted(self.rn(x) for x in e)) for e in a.get_edges())
        if t == "aggweights":
            return items(f"{fnats(sorted(self.rn(x) for x in e))};{fq(a.get_weight(e))}" for e in a.get_edges())
        if t == "agghmeta":
            return items(f"{k};{v}" for k, v in self.r_hmd(a.get_hypergraph_metadata()))
        if t == "aggweighted":
            return "1" if a.is_weighted() is True else ("0" if a.is_weighted() is False else "weird")
        raise AssertionError(q)

    def plain_layers(self):
        """every layer name among the record keys is an object of the labeling's own type (the harness also hands in equal
        objects of OTHER types - numpy scalars, 2019.0 for 2019 - whose `<` against a tuple or a string need not raise): only then
        is the comparability class of a name the one of the labeling"""
        try:
            return all(type(k[1]) is type(self.lab["layers"][self.rl(k[1])]) for k in self.h.get_edge_list())
        except Exception:
            return False

    def reg_order(self):
        """the order in which the set of layer names iterates right now (ranks)"""
        try:
            return [self.rl(l) for l in self.h.get_existing_layers()]
        except Exception:
            return []

    def snapshot(self):
        """the object itself (internal tables), for the unchanged-by-queries test"""
        try:
            return copy.deepcopy(self.h.expose_data_structures())
        except Exception as ex:
            return "exc " + type(ex).__name__

    # ---- objects that come out of other parts of the library (round d)
    TRANSPORTS = {
        "hgx": "save_hypergraph(h, path + '.hgx', binary=True); load_hypergraph(path + '.hgx')",
        "json": "save_hypergraph(h, path + '.json'); load_hypergraph(path + '.json')",
        "pickle": "pickle.loads(pickle.dumps(h))",
        "deepcopy": "copy.deepcopy(h)",
        "expose": "g = MultiplexHypergraph(weighted=h.is_weighted()); g.populate_from_dict(copy.deepcopy(h.expose_data_structures()))",
        "rebuild": "MultiplexHypergraph(edge_list=h.get_edges(), weighted=h.is_weighted(), weights=[h.get_weight(*k) ...], hypergraph_metadata=.., "
                   "node_metadata=.., edge_metadata=..) from copies of what the getters return",
        "copy": "copy.copy(h) (the original is dropped)",
        "live": "g = MultiplexHypergraph(weighted=h.is_weighted()); g.populate_from_dict(h.expose_data_structures()) (the original is dropped)",
    }

    def via_kind(self, kind, orc):
        """the text format is used where it can carry the content unchanged (JSON numbers / strings as labels, string keys in the
        hypergraph metadata); elsewhere the binary format"""
        if kind == "json":
            ok = JSON_OK[LABELINGS.index(self.lab)] and not NP_OK[0]
            ok = ok and all(isinstance(self.ll[k - 10], str) for k in orc.hm if 10 <= k < 10 + len(self.ll))
            return "json" if ok else "hgx"
        return kind

    def transport(self, kind, rs):
        from hypergraphx import MultiplexHypergraph
        from hypergraphx.readwrite.load import load_hypergraph
        from hypergraphx.readwrite.save import save_hypergraph
        h = self.h
        self.stats["via_" + kind] = self.stats.get("via_" + kind, 0) + 1
        if kind == "pickle":
            return pickle.loads(pickle.dumps(h, protocol=rs.choice([0, 2, 3, 4, 5])))
        if kind == "deepcopy":
            return copy.deepcopy(h)
        if kind == "copy":
            return copy.copy(h)
        if kind == "rebuild":
            recs = h.get_edges()
            kw = {"weighted": h.is_weighted(), "hypergraph_metadata": copy.deepcopy(h.get_hypergraph_metadata()),
                  "node_metadata": copy.deepcopy(h.get_nodes(metadata=True)),
                  "edge_metadata": [copy.deepcopy(h.get_edge_metadata(e, l)) for e, l in recs]}
            if rs.random() < 0.5:
                kw["edge_list"] = list(recs)
            else:
                kw["edge_list"], kw["edge_layer"] = [e for e, _ in recs], [l for _, l in recs]
            if h.is_weighted():
                kw["weights"] = [h.get_weight(e, l) for e, l in recs]
            return MultiplexHypergraph(**kw)
        if kind in ("expose", "live"):
            g = MultiplexHypergraph(weighted=h.is_weighted()) if rs.random() < 0.7 else MultiplexHypergraph()
            d = h.expose_data_structures()
            g.populate_from_dict(copy.deepcopy(d) if kind == "expose" else d)
            return g
        with tempfile.TemporaryDirectory() as d:
            path = os.path.join(d, rs.choice(["m", "my.graph", "a b"]) + "." + kind)
            if kind == "hgx":
                if rs.random() < 0.5:
                    save_hypergraph(h, path, binary=True)
                else:
                    save_hypergraph(h, path, True)
            elif rs.random() < 0.6:
                save_hypergraph(h, path)
            else:
                save_hypergraph(h, file_name=path, binary=False)
            return load_hypergraph(path)

    def scribble(self, g, rs):
        """the caller goes on working with an object that must be independent of ours: public calls and edits of everything
        its getters hand out, down into the values stored in metadata"""
        def guard(f):
            try:
                f()
            except Exception:
                pass

        def deep(md):
            for v in list(md.values()):
                if isinstance(v, list):
                    v.append("zz")
                elif isinstance(v, dict):
                    v["zz"] = 1
            md["zz"] = 1

        w = {"weight": 7.25} if g.is_weighted() is True else {}
        for l in range(len(self.ll)):
            guard(lambda: g.add_edge((self.N(0), self.N(1)), self.L(l), metadata={"zz": l}, **w))
        guard(lambda: g.add_edges([(self.N(2), self.N(0))], ["zz-layer"], weights=[3.5]))
        guard(lambda: [deep(md) for md in g.get_nodes(metadata=True).values()])
        guard(lambda: [deep(md) for md in g.get_edges(metadata=True).values()])
        guard(lambda: deep(g.get_hypergraph_metadata()))
        for k in list(g.get_edges())[:3]:
            guard(lambda: g.set_weight(k[0], k[1], 9.75 if g.is_weighted() else 1))
            if rs.random() < 0.5:
                guard(lambda: g.remove_edge(k))
        for x in list(g.get_nodes())[:rs.randint(1, 3)]:
            guard(lambda: g.remove_node(x, keep_edges=rs.random() < 0.5))
        guard(lambda: g.add_node("zz-node", {"zz": 1}))
        guard(lambda: g.get_existing_layers().clear() if rs.random() < 0.5 else g.get_existing_layers().add("zz-2"))
        guard(lambda: g.get_nodes(metadata=True).clear() if rs.random() < 0.3 else None)

    # ---- what a caller may do with the values it got back
    def abuse(self, orc, rs, n):
        """(a) every freshly built list / dict / Hypergraph that a query returned is overwritten by the caller: the multiplex
        hypergraph must not notice; (b) one edit of a metadata dict reached through a getter (by design of the library this
        may be the stored dict): the effect must be that of the corresponding public setter on that ONE item, or nothing.
        Returns the candidate equivalents of (b) as lists of operations"""
        h = self.h
        self.pending = None

        def guard(f):
            try:
                f()
            except Exception:
                pass

        nodes = sorted(orc.N)
        keys = sorted(orc.E, key=lambda k: (sorted(k[0]), k[1]))
        # (b) first, on a second reference, so that (a) cannot hide it
        kind = rs.choice(["nm", "em", "em1", "hm", "reg", "aggn", "agge", None, None])
        try:
            if kind == "nm" and nodes:
                x = rs.choice(nodes)
                self._share(h.get_nodes(metadata=True)[self.N(x, rs)], rs,
                            lambda f, v: ["setattrn", x, f, v] if v is not None else ["delattrn", x, f])
            elif kind in ("em", "em1") and keys:
                e, l = rs.choice(keys)
                e = sorted(e)
                d = h.get_edges(metadata=True)[(tuple(self.N(y) for y in e), self.L(l))] if kind == "em" else \
                    h.get_edge_metadata(self.E(e, rs), self.L(l, rs))
                self._share(d, rs, lambda f, v: ["setattre", e, l, f, v] if v is not None else ["delattre", e, l, f])
            elif kind == "hm":
                self._share(h.get_hypergraph_metadata(), rs, lambda f, v: ["setattrh", f, v], True)
            elif kind == "reg":
                l = rs.randrange(len(self.ll))
                h.get_existing_layers().add(self.L(l, rs))
                if l not in orc.reg and (frozenset(), l) not in orc.E:
                    self.pending = [[], [["addedge", [], l, None, None], ["rmedge", [], l]]]
            elif kind == "aggn" and nodes:
                x = rs.choice(nodes)
                a = h.aggregated_hypergraph()
                k, v = rs.choice(FIELDS), rs.choice(list(VAL))
                if rs.random() < 0.5:
                    a.set_attr_to_node_metadata(self.N(x, rs), f"f{k}", copy.deepcopy(VAL[v]))
                else:
                    a.get_nodes(metadata=True)[self.N(x, rs)][f"f{k}"] = copy.deepcopy(VAL[v])
                self.pending = [[], [["setattrn", x, k, v]]]
            elif kind == "agge" and keys:
                e = sorted(rs.choice(keys)[0])
                a = h.aggregated_hypergraph()
                k, v = rs.choice(FIELDS), rs.choice(list(VAL))
                if rs.random() < 0.5:
                    a.set_attr_to_edge_metadata(self.E(e, rs), f"f{k}", copy.deepcopy(VAL[v]))
                else:
                    a.get_edge_metadata(tuple(self.N(y) for y in e))[f"f{k}"] = copy.deepcopy(VAL[v])
                self.pending = [[]] + [[["setattre", e, l, k, v]] for (e2, l) in keys if sorted(e2) == e]
        except Exception:
            pass
        # (a)
        guard(lambda: spoil(h.get_nodes()))
        guard(lambda: spoil(h.get_edges()))
        guard(lambda: spoil(h.get_edges(metadata=True)))
        guard(lambda: spoil(h.degree_sequence()))
        guard(lambda: spoil(h.degree_sequence(size=2)))
        for x in range(n):
            a, k = self.fargs(rs.choice(["a", "a", "s2", "o1", "s3", "s1"]), rs)
            guard(lambda: spoil(h.get_incident_edges(self.N(x), *a, **k)))
        for _ in range(2):            # two aggregates: a memoised one is hit the second time
            st = {}

            def on_agg():
                a = h.aggregated_hypergraph()
                st["a"] = a
                todo = [lambda: a.get_hypergraph_metadata().update({"type": "zz", "weighted": "zz", "zz": 1}),
                        lambda: a.set_attr_to_hypergraph_metadata("type", "zz"),
                        lambda: a.add_node("zz-new"),
                        lambda: a.add_edge((self.N(rs.randrange(n)), self.N(rs.randrange(n))), **({"weight": 7.5} if a.is_weighted() else {})),
                        lambda: a.remove_edge(a.get_edges()[0]),
                        lambda: a.set_weight(a.get_edges()[-1], 9.25 if a.is_weighted() else 1),
                        lambda: a.remove_node(a.get_nodes()[0], keep_edges=rs.random() < 0.5),
                        lambda: spoil(a.get_edges()),
                        lambda: spoil(a.get_nodes()),
                        lambda: a.clear()]
                rs.shuffle(todo)
                for f in todo[:rs.randint(2, 6)]:
                    guard(f)
            guard(on_agg)
        return self.pending or [[]]
# ------------------------------------------------------------------------------------------ wire lines
def w_meta(md):
    return "N" if md is None else hgxv.enc_list([x for p in md for x in p])


def w_op(op):
    t = op[0]
    if t == "addnode":
        return f"addnode {op[1]} {w_meta(op[2])}"
    if t == "addnodes":
        d = "N" if op[2] is None else (";".join(hgxv.enc_list([n] + [x for p in md for x in p]) for n, md in op[2]) or "-")
        return f"addnodes {hgxv.enc_list(op[1])} {d}"
    if t == "addedge":
        return f"addedge {hgxv.enc_list(op[1])} {op[2]} {'N' if op[3] is None else op[3]} {w_meta(op[4])}"
    if t == "addedges":
        mds = "N" if op[4] is None else (";".join(hgxv.enc_list([x for p in m for x in p], "_") for m in op[4]) or "-")
        return (f"addedges {hgxv.enc_lists(op[1])} {hgxv.enc_list(op[2])} "
                f"{'N' if op[3] is None else hgxv.enc_list(op[3])} {mds}")
    if t in ("rmedge",):
        return f"rmedge {hgxv.enc_list(op[1])} {op[2]}"
    if t == "rmnode":
        return f"rmnode {op[1]} {1 if op[2] else 0}"
    if t == "setw":
        return f"setw {hgxv.enc_list(op[1])} {op[2]} {op[3]}"
    if t == "sethmeta":
        return f"sethmeta {w_meta(op[1])}"
    if t in ("setattrh", "setlayermeta", "setdsmeta", "setattrn", "delattrn"):
        return t + " " + " ".join(str(x) for x in op[1:])
    if t == "setattre":
        return f"setattre {hgxv.enc_list(op[1])} {op[2]} {op[3]} {op[4]}"
    if t == "delattre":
        return f"delattre {hgxv.enc_list(op[1])} {op[2]} {op[3]}"
    if t == "rawecho":
        return f"rawecho {op[1]}"
    if t == "setlayers":
        return f"setlayers {hgxv.enc_list(op[1])}"
    raise AssertionError(op)


def bad_ctor(case, rs):
    """constructor arguments that must be refused: [kind, raws, ls, ws, mds, i]"""
    pool, nl = case["pool"], case["nl"]
    k = rs.randint(1, 3)
    raws = [list(rs.choice(pool)) for _ in range(k)]
    ls = [rs.randrange(nl) for _ in range(k)]
    seen, keep = set(), []
    for r, l in zip(raws, ls):
        if (tuple(r), l) not in seen:
            seen.add((tuple(r), l))
            keep.append((r, l))
    raws, ls = [r for r, _ in keep], [l for _, l in keep]
    k = len(raws)
    wgiven = case["weighted"] or rs.random() < 0.4
    ws = [rs.choice([2, 4, 4, 6]) for _ in raws] if (wgiven and rs.random() < 0.6) else None
    mds = [gen_md(rs, 0) for _ in raws] if rs.random() < 0.3 else None
    kind = rs.choice(["embbad", "seplen", "seplen", "wlen", "dup", "mdshort"])
    i = 0
    if kind == "embbad":
        i = rs.randrange(k)
    elif kind == "seplen":
        ls = ls + [rs.randrange(nl)] if rs.random() < 0.5 else ls[:-1]
        if mds is not None and len(ls) > k:
            pass
    elif kind == "wlen":
        ws = [4] * (k + rs.choice([-1, 1]))
    elif kind == "dup":
        j = rs.randrange(k)
        raws, ls = raws + [list(raws[j])], ls + [ls[j]]
        ws = [rs.choice([2, 4, 6]) for _ in raws]
        mds = None if mds is None else mds + [[]]
    else:
        mds = [gen_md(rs, 0) for _ in range(k - 1)]
    return [kind, raws, ls, ws, mds, i]


def probe_ctor(tmp, weighted, hm0, bad, rs):
    from hypergraphx import MultiplexHypergraph
    kind, raws, ls, ws, mds, i = bad
    edges = [tuple(tmp.N(x, rs) for x in r) for r in raws]
    layers = [tmp.L(l, rs) for l in ls]
    kw = {"weighted": bool(weighted)}
    if hm0:
        kw["hypergraph_metadata"] = tmp.hmd(hm0)
    if kind == "embbad":
        el = [(e, l) for e, l in zip(edges, layers)]
        el[i] = rs.choice([[el[i][0], el[i][1]], el[i] + (1,), None, (el[i][0],)])
        kw["edge_list"] = el
    else:
        kw["edge_list"], kw["edge_layer"] = edges, layers
    if ws is not None:
        kw["weights"] = [pyw(w, j % 2) for j, w in enumerate(ws)]
    if mds is not None:
        kw["edge_metadata"] = [tmp.md(m) for m in mds]
    try:
        MultiplexHypergraph(**kw)
        return "ok"
    except Exception:
        return "rej"


def w_ctor(weighted, hm, nm, form, raws, ls, ws, mds):
    """the constructor as ONE model call (`construct` / `Spec.construct`)"""
    nd = "N" if not nm else ";".join(hgxv.enc_list([n] + [x for p in md for x in p]) for n, md in nm)
    m = "N" if mds is None else (";".join(hgxv.enc_list([x for p in md for x in p], "_") for md in mds) or "-")
    return (f"ctor {1 if weighted else 0} {w_meta(hm)} {nd} {form} {hgxv.enc_lists(raws)} {hgxv.enc_list(ls)} "
            f"{'N' if ws is None else hgxv.enc_list(ws)} {m}")


def w_q(q, order=()):
    t = q[0]
    if t == "overlapin":
        return f"q overlapin {hgxv.enc_list(q[1])} {hgxv.enc_list(list(order))}"
    if t in ("weight", "emeta"):
        return f"q {t} {hgxv.enc_list(q[1])} {q[2]}"
    if t == "overlap":
        return f"q overlap {hgxv.enc_list(q[1])}"
    if t == "hashviewt":
        return f"q hashviewt {hgxv.enc_list(q[1])}"
    return "q " + " ".join(("b" if isinstance(x, str) and x[:1] == "b" and x[1:].isdigit() else str(x)) for x in q)


# ------------------------------------------------------------------------------------------ generation
def gen_md(rng, p_none=0.5):
    if rng.random() < p_none:
        return None
    ks = rng.sample(FIELDS, rng.choice([0, 1, 1, 2]))
    return [[k, rng.choice(list(VAL))] for k in ks]


VIA_KINDS = ["hgx", "hgx", "hgx", "json", "json", "json", "json", "pickle", "pickle", "deepcopy", "deepcopy", "expose", "copy", "live", "rebuild",
             "rebuild"]


def gen_case(rng):
    labeling = rng.randrange(len(LABELINGS))
    n = rng.randint(3, 6)
    nl = rng.randint(2, len(LABELINGS[labeling]["layers"]))
    lw = [5, 4, 2, 1, 1][:nl]      # the later layer names are rare: "never used before" happens late in a history

    def lay():
        return rng.choices(range(nl), lw)[0]

    weighted = rng.random() < 0.55
    wst = [weighted]          # what the generator believes about is_weighted() (promotion by a weighted batch)
    pool = []
    for _ in range(rng.randint(3, 5)):
        size = min(n, rng.choice([0, 1, 2, 2, 2, 3, 3, 4]))
        pool.append(sorted(rng.sample(range(n), size)))
    # sub-edges so that shrink-merges happen
    if rng.random() < 0.7:
        e = max(pool, key=len)
        if len(e) >= 2:
            pool.append(e[1:])
            pool.append(e[:-1])

    def raw():
        e = list(rng.choice(pool)) if rng.random() < 0.9 else sorted(rng.sample(range(n), rng.randint(0, min(4, n))))
        rng.shuffle(e)
        return e

    def weight(ok=True):
        if wst[0] or not ok:
            return rng.choice([0, 1, 2, 4, 4, 6, 8, 10])
        return rng.choice([None, None, 4])

    def doomed(present):
        """a call that must be REFUSED, naming things the hypergraph may never have seen (a layer, nodes) or a record that is
        there (with new metadata): whatever it wrote before it raised shows in the queries that follow"""
        l = rng.randrange(nl)
        if present and rng.random() < 0.4:
            e, l = rng.choice(sorted(present))
            e = list(e)
        else:
            e = raw() if rng.random() < 0.6 else sorted(rng.sample(range(n), rng.randint(1, min(3, n))))
        e2 = raw()
        md = gen_md(rng, 0.3)
        kinds = ["short_layers", "short_meta", "short_meta", "nodes_dict"]
        kinds += ["repeat", "repeat", "nweights", "nweights"] if wst[0] else ["weight", "weight", "weight", "setw", "nweights"]
        k = rng.choice(kinds)
        if k == "weight":
            return ["addedge", e, l, rng.choice([0, 2, 6, 8]), md]
        if k == "setw":
            return ["setw", e, l, rng.choice([0, 2, 8])]
        if k == "repeat":
            return ["addedges", [e2, e, e], [lay(), l, l], [4, 2, 6], [md or [], [], []] if rng.random() < 0.4 else None]
        if k == "nweights":
            return ["addedges", [e2, e], [lay(), l], rng.choice([[4], [4, 2, 6], []]), None]
        if k == "short_layers":
            return ["addedges", [e, e2], [l], None if not wst[0] or rng.random() < 0.5 else [4, 8], None]
        if k == "short_meta":
            return ["addedges", [e, e2], [l, lay()], None if not wst[0] or rng.random() < 0.5 else [4, 8], [md or []]]
        x = rng.sample(range(n), min(n, 3))
        return ["addnodes", x, [[x[0], md or [[100, 5]]], [x[1], []]]]

    hm0 = []
    if rng.random() < 0.2:
        hm0 = [[rng.choice([100, 101, 2, 10]), rng.choice(list(VAL))]]
    ctor = None
    if rng.random() < 0.15:
        k = rng.randint(0, 3)
        raws = [raw() for _ in range(k)]
        ls = [lay() for _ in range(k)]
        prs = set()
        keep = []
        for r, l in zip(raws, ls):
            if (tuple(r), l) not in prs:
                prs.add((tuple(r), l))
                keep.append((r, l))
        raws, ls = [r for r, _ in keep], [l for _, l in keep]
        ws = None
        if rng.random() < (0.7 if weighted else 0.3):      # unweighted + weights: the constructor promotes
            ws = [rng.choice([1, 2, 4, 4, 6, 8, 10]) for _ in raws]
            wst[0] = True
        mds = [gen_md(rng, 0) for _ in raws] if rng.random() < 0.4 else None
        nm = [[x, gen_md(rng, 0)] for x in rng.sample(range(n), rng.randint(0, 2))]
        ctor = [nm, raws, ls, ws, mds, rng.random() < 0.5]
    ops = []
    present = set()   # approximate knowledge, only to bias the generator
    nops = rng.randint(1, 40)
    promote_at = rng.randrange(0, max(1, nops // 2)) if (not wst[0] and rng.random() < 0.45) else -1
    for step in range(nops):
        r = rng.random()
        if step == promote_at:
            # a VALID weighted batch on an unweighted object: from here on it is a weighted hypergraph
            k = rng.choice([1, 2, 2, 3])
            seen, raws, ls = set(), [], []
            for _ in range(k):
                e, l = raw(), lay()
                if (frozenset(e), l) not in seen or rng.random() < 0.3:
                    if (tuple(e), l) not in {(tuple(a), b) for a, b in zip(raws, ls)}:
                        seen.add((frozenset(e), l))
                        raws.append(e)
                        ls.append(l)
            ws = [rng.choice([1, 2, 4, 6, 8, 10]) for _ in raws]
            ops.append(["addedges", raws, ls, ws, [gen_md(rng, 0) for _ in raws] if rng.random() < 0.3 else None])
            for e, l in zip(raws, ls):
                present.add((tuple(sorted(e)), l))
            wst[0] = True
        elif r < 0.045:
            ops.append(doomed(present))
        elif r < 0.30:
            e, l = raw(), lay()
            if present and rng.random() < 0.25:       # a record that is (or was) there, e.g. one that predates a promotion
                e, l = rng.choice(sorted(present))
                e = list(e)
                rng.shuffle(e)
            w = weight() if rng.random() < 0.93 else rng.choice([8, 0])
            if wst[0] and rng.random() < 0.2:
                w = None
            ops.append(["addedge", e, l, w, gen_md(rng)])
            present.add((tuple(sorted(e)), l))
        elif r < 0.42:
            k = rng.choice([0, 1, 1, 2, 2, 3, 4])
            raws, ls = [], []
            for _ in range(k):
                e = raw()
                raws.append(e)
                ls.append(lay())
                if rng.random() < 0.45:       # the same node set again, usually in another layer
                    e2 = list(e)
                    if rng.random() < 0.5:
                        rng.shuffle(e2)
                    raws.append(e2)
                    ls.append(lay())
            ws = None
            if rng.random() < (0.7 if wst[0] else 0.25):
                ws = [rng.choice([0, 1, 2, 4, 4, 6, 8]) for _ in raws]
                if rng.random() < 0.08:
                    ws = ws[:-1] if rng.random() < 0.5 else ws + [4]
            mds = [gen_md(rng, 0) for _ in raws] if rng.random() < 0.3 else None
            if mds is not None and rng.random() < 0.1:
                mds = mds[:-1] if rng.random() < 0.6 else mds + [[]]
            if rng.random() < 0.06:
                ls = ls[:-1] if rng.random() < 0.6 else ls + [0]
            ops.append(["addedges", raws, ls, ws, mds])
            if ws is not None and len(ws) == len(raws) <= len(ls) and (mds is None or len(mds) >= len(raws)) and \
                    len({(tuple(a), b) for a, b in zip(raws, ls)}) == len(raws):
                wst[0] = True
            for e, l in zip(raws, ls):
                present.add((tuple(sorted(e)), l))
        elif r < 0.54:
            if present and rng.random() < 0.85:
                e, l = rng.choice(sorted(present))
                e = list(e)
                rng.shuffle(e)
            else:
                e, l = raw(), rng.randrange(nl)
            ops.append(["rmedge", e, l])
        elif r < 0.64:
            ops.append(["rmnode", rng.randrange(n), rng.random() < 0.55])
        elif r < 0.70:
            if present and rng.random() < 0.85:
                e, l = rng.choice(sorted(present))
                e = list(e)
                rng.shuffle(e)
            else:
                e, l = raw(), rng.randrange(nl)
            w = weight() if rng.random() < 0.9 else rng.choice([6, 0])
            ops.append(["setw", e, l, 4 if w is None else w])
        elif r < 0.75:
            ops.append(["addnode", rng.randrange(n), gen_md(rng)])
        elif r < 0.79:
            ns = rng.sample(range(n), rng.randint(0, 3))
            d = None
            if rng.random() < 0.5:
                d = [[x, gen_md(rng, 0)] for x in ns]
                if d and rng.random() < 0.25:
                    d = d[:-1]
                if rng.random() < 0.2:
                    d.append([rng.randrange(n), []])
                    seen, dd = set(), []
                    for x, m in d:
                        if x not in seen:
                            seen.add(x)
                            dd.append([x, m])
                    d = dd
            ops.append(["addnodes", ns, d])
        elif r < 0.83:
            ops.append(["setattrn", rng.randrange(n), rng.choice(FIELDS), rng.choice(list(VAL))])
        elif r < 0.86:
            ops.append(["delattrn", rng.randrange(n), rng.choice(FIELDS)])
        elif r < 0.91:
            if present and rng.random() < 0.85:
                e, l = rng.choice(sorted(present))
                e = list(e)
                rng.shuffle(e)
            else:
                e, l = raw(), rng.randrange(nl)
            if rng.random() < 0.6:
                ops.append(["setattre", e, l, rng.choice(FIELDS), rng.choice(list(VAL))])
            else:
                ops.append(["delattre", e, l, rng.choice(FIELDS)])
        elif r < 0.93:
            ops.append(["setlayermeta", rng.randrange(nl), rng.choice(list(VAL))])
        elif r < 0.95:
            ops.append(["setdsmeta", rng.choice(list(VAL))])
        elif r < 0.98:
            ops.append(["setattrh", rng.choice([100, 101, 0, 1, 2, 10]), rng.choice(list(HVAL))])
        else:
            ks = rng.sample([100, 101, 0, 1, 2, 10, 11], rng.randint(0, 3))
            ops.append(["sethmeta", [[k, rng.choice(list(HVAL))] for k in ks]])
    # objects from other parts of the library as starting point (position 0) and as mid-points of the history
    nonp = False
    if rng.random() < 0.45:
        for j in range(rng.choice([1, 1, 2, 3])):
            kind = rng.choice(VIA_KINDS)
            pos = 0 if (j == 0 and rng.random() < 0.3) else rng.randint(0, len(ops))
            ops.insert(pos, ["via", kind, rng.choice(["go", "go", "stay"])])
            nonp = nonp or kind == "json"
    if rng.random() < 0.2:          # ... and once more at the end, when the object has seen the whole history
        kind = rng.choice(["json", "json", "hgx", "pickle", "rebuild"])
        ops.append(["via", kind, rng.choice(["go", "stay"])])
        nonp = nonp or kind == "json"
    qseed, sty = rng.randrange(1 << 30), rng.randrange(1 << 30)
    # second extension round: calls of the raw surface inside the history (own PRNG: the public part of the case is as before)
    r2 = random.Random(qseed ^ 0x5EED)
    if r2.random() < 0.5:
        for _ in range(r2.choice([1, 2, 3])):
            if r2.random() < 0.7:
                rop = ["rawecho", r2.choice(["el", "adj", "lay", "pop"])]
            else:
                rop = ["setlayers", r2.sample(range(nl), r2.randint(0, min(2, nl)))]
            ops.insert(r2.randint(0, len(ops)), rop)
    return {"n": n, "nl": nl, "weighted": weighted, "hm0": hm0, "ctor": ctor, "ops": ops, "pool": pool, "nonp": nonp,
            "labeling": labeling, "qseed": qseed, "sty": sty}


def digest_queries(case, qrng):
    n, nl, pool = case["n"], case["nl"], case["pool"]
    KS = [0, 0, 1, 1, 2, 2, 3, 4, 5]      # sizes / orders asked on their own: 0 and 1 (falsy / boundary), above the maximum
    qs = [["nodes"], ["nodesmeta"], ["edges"], ["edgesmeta"], ["weights"], ["layers"], ["inuse"], ["hmeta"], ["dsmeta"],
          ["weighted"], ["degseq", "a"], ["degseq", f"s{qrng.choice(KS)}"], ["degseq", f"o{qrng.choice(KS)}"],
          ["aggnodes"], ["aggedges"], ["agghmeta"], ["aggweighted"], ["edgetable"], ["adjtable"]]
    if LAYERS_ORDERABLE[case["labeling"]]:
        qs.append(["hashview"])
    else:       # second extension round: names of several comparability classes - raises iff a node set lives in two such layers
        qs.append(["hashviewt", LAYER_CLASSES[case["labeling"]]])
    BOTH = ["b00", "b01", "b10", "b12", "b21"]
    if qrng.random() < 0.4:
        qs.append(["degseq", qrng.choice(BOTH)])
    for l in range(nl):
        qs.append(["layermeta", l])
    for x in range(n):
        qs.append(["incident", x, "a"])
        qs.append(["degree", x, qrng.choice(["a", qrng.choice(BOTH), f"s{qrng.choice(KS)}", f"s{qrng.choice(KS)}", f"o{qrng.choice(KS)}",
                                             f"o{qrng.choice(KS)}"])])
        if qrng.random() < 0.4:
            qs.append(["incident", x, qrng.choice([f"s{qrng.choice(KS)}", f"o{qrng.choice(KS)}", qrng.choice(BOTH)])])
    for e in pool:
        e2 = list(e)
        qrng.shuffle(e2)
        qs.append(["overlap" if qrng.random() < 0.7 else "overlapin", e2])
        for _ in range(2):
            l = qrng.randrange(nl)
            qs.append([qrng.choice(["weight", "emeta"]), e2, l])
    return qs


# oracle-only questions (the aggregate in the statement's words); asked of the real object and the oracle
ORACLE_ONLY = [["aggkeys"], ["aggweights"]]
# asked of the real object and the Lean model only (the statement does not pin them down)
MODEL_ONLY = {"aggedges", "agghmeta", "dumpkeys", "edgetable", "adjtable"}


def run_case(ctx, drv, case):
    """returns (kind, what, info): kind in None / 'violation' / 'disagree'"""
    with contextlib.redirect_stdout(io.StringIO()):     # add_edges prints a warning when it switches to weighted
        return _run_case(ctx, drv, case)


def resolve(orc, cands, qs, ra):
    """the first candidate (a list of public calls equivalent to an edit of a by-design shared dict; [] = the dict was not
    shared) under which the map answers every question like the implementation did: (map, candidate, None); if there is none:
    (None, None, first difference under the candidate that explains most answers)"""
    best = None
    for cand in cands:
        o2 = orc if not cand else copy.deepcopy(orc)
        if not all(o2.apply(op) == "ok" for op in cand):
            continue
        diffs = []
        for q, a in zip(qs, ra):
            if q[0] not in MODEL_ONLY:
                b = o2.query(q)
                if a != b:
                    diffs.append((q, a, b))
        if not diffs:
            return o2, cand, None
        if best is None or len(diffs) < best[0]:
            best = (len(diffs), diffs[0])
    return None, None, best[1]


def _run_case(ctx, drv, case):
    lab = LABELINGS[case["labeling"]]
    qrng = random.Random(case["qseed"])
    sty = case.get("sty", 0)
    weighted, hm0, ctor = case["weighted"], case["hm0"], case["ctor"]
    old = signal.signal(signal.SIGALRM, _alarm)
    signal.alarm(30)
    problems = []      # (kind, what)
    lines, real_ans = [], []
    info = {"removals": 0, "reinserts": 0, "rej": 0, "ok": 0, "shared": 0, "notshared": 0, "requeried": 0, "promoted": 0,
            "after_promotion": 0, "via": 0, "after_via": 0, "rej_fresh_layer": 0, "stats": {}}
    NP_OK[0] = not case.get("nonp", False)
    try:
        orc = Oracle(weighted, hm0)
        lines.append(f"new {1 if weighted else 0} {w_meta(hm0)}")
        real_ans.append("ok")
        pre = []
        if ctor is not None:
            nm, raws, ls, ws, mds, _ = ctor
            pre = [["addnode", x, md] for x, md in nm] + [["addedges", raws, ls, ws, mds]]
        # extension round: constructor calls that must be refused (no object), compared with `construct = none` of the model
        prs = random.Random(zlib.crc32(json.dumps(["probe", weighted, hm0, ctor, case["ops"][:2], sty]).encode()))
        if prs.random() < 0.3:
            bad = bad_ctor(case, prs)
            a = probe_ctor(Real(lab, weighted, hm0, None, sty), weighted, hm0, bad, prs)
            lines.append(w_ctor(weighted, hm0, [], f"embbad{bad[5]}" if bad[0] == "embbad" else "sep", bad[1], bad[2], bad[3], bad[4]))
            real_ans.append(a)
            info["ctor_refused"] = info.get("ctor_refused", 0) + 1
            if a != "rej":
                return "violation", f"the constructor accepted malformed arguments {bad}", info
        try:
            real = Real(lab, weighted, hm0, ctor, sty)
        except Exception as ex:
            return "violation", f"constructor raised {type(ex).__name__}: {ex}", info
        info["stats"] = real.stats
        for op in pre:
            o = orc.apply(op)
            if o != "ok":
                problems.append(("violation", "constructor accepted a batch the map rejects"))
        if ctor is not None:       # the constructor is ONE call of the model
            lines.append(w_ctor(weighted, hm0, ctor[0], "emb" if ctor[5] else "sep", ctor[1], ctor[2], ctor[3], ctor[4]))
            real_ans.append("ok")
        elif prs.random() < 0.5:   # no edge_list: the model's constructor must give the empty object of `new`
            lines.append(w_ctor(weighted, hm0, [], "abs", [], [], None, None))
            real_ans.append("ok")
        seen_keys = set(k for k in orc.E)
        steps = [None] + case["ops"]

        def block(idx, op, cands, what, model=True, extra=()):
            """all queries; the answers must be those of the map (under one of the candidates); returns the map to go on with"""
            nonlocal orc
            real._agg = None
            # the before/after comparison calls library code (expose_data_structures) itself: a part of the blocks goes without,
            # and an object that just came out of a loader is asked first
            use_snap = not extra and zlib.crc32(f"snap/{idx}/{sty}/{len(lines)}/{what}".encode()) % 10 < 6
            snap = real.snapshot() if use_snap else None
            qs = digest_queries(case, qrng) + [list(q) for q in extra]
            if not real.plain_layers():
                qs = [q for q in qs if q[0] != "hashviewt"]
            order = real.reg_order()
            ra = [real.query(q) for q in qs]
            for q, a in zip(qs, ra):
                if q[0] == "hashviewt":
                    k = "hashing_view_unorderable_names_raises" if a == "rej" else "hashing_view_unorderable_names_answers"
                    info[k] = info.get(k, 0) + 1
            ro = [real.query(q) for q in ORACLE_ONLY]
            o2, cand, diff = resolve(orc, cands, qs + ORACLE_ONLY, ra + ro)
            if o2 is None:
                q, a, b = diff
                problems.append(("violation", f"after step {idx} {op}{what}: query {q} answers {a!r}, the map gives {b!r}"))
                return
            if len(cands) > 1:
                info["shared" if cand else "notshared"] += 1
            orc = o2
            if model:
                for x in cand:             # what the edit of the shared dict amounted to, for the model
                    lines.append(w_op(x))
                    real_ans.append("ok")
                for q, a in zip(qs, ra):
                    lines.append(w_q(q, order))
                    real_ans.append(a)
            if use_snap and real.snapshot() != snap:
                problems.append(("violation", f"after step {idx} {op}{what}: queries / aggregated_hypergraph / edge_overlap changed "
                                              f"the multiplex hypergraph itself"))

        def via(idx, op, rs):
            """the object goes through another part of the library (save + load in either format, pickle, deepcopy, the
            serialisation dict); the history continues on the result ('go') or on the original ('stay'); BOTH must answer every
            query like the map, and what the caller does to the one must not show in the other"""
            nonlocal orc
            kind, mode = real.via_kind(op[1], orc), op[2]
            how = Real.TRANSPORTS[kind]
            try:
                g = real.transport(kind, rs)
            except Exception as ex:
                problems.append(("violation", f"step {idx} {op}: {how} raised {type(ex).__name__}: {ex}"))
                return
            if type(g) is not type(real.h):
                problems.append(("violation", f"step {idx} {op}: {how} gives a {type(g).__name__}"))
                return
            independent = kind not in ("copy", "live")
            if not independent:
                mode = "go"
            op = ["via", kind, mode]
            orc_new, calls = orc.through_text() if kind == "json" else orc.through_ctor() if kind == "rebuild" else (orc, [])
            old_h = real.h
            if mode == "go":
                main, other, orc_main, orc_other = g, old_h, orc_new, orc
                if kind in ("hgx", "expose", "live"):
                    lines.append("reload")
                    real_ans.append("ok")
                elif kind == "rebuild":      # the constructor fed with the getters' results: one `ctor` call of the model
                    b = calls[-1]
                    lines.append(w_ctor(orc_new.w, sorted(orc.hm.items()), [[c[1], c[2]] for c in calls[:-1]],
                                        "emb" if rs.random() < 0.5 else "sep", b[1], b[2], b[3], b[4]))
                    real_ans.append("ok")
                elif kind == "json":
                    lines.append(f"new {1 if orc_new.w else 0} {w_meta([])}")
                    real_ans.append("ok")
                    for c in calls:
                        lines.append(w_op(c))
                        real_ans.append("ok")
            else:
                main, other, orc_main, orc_other = old_h, g, orc, orc_new
            info["via"] += 1
            real.h, orc = main, orc_main
            who = "the result" if mode == "go" else "the original"
            block(idx, op, [[]], f" (asked of {who} of {how})", extra=[] if DUMPKEYS_DIFFER[0] else [["dumpkeys"]])
            if problems:
                return
            if independent:
                real.h, orc = other, orc_other
                block(idx, op, [[]], f" (asked of {'the original' if mode == 'go' else 'the result'} of {how})",
                      model=orc_other is orc_main)
                real.h, orc = main, orc_main
                if problems:
                    return
                real.scribble(other, rs)
                block(idx, op, [[]], f" (asked of {who} of {how}, after the caller changed the other of the two objects)")

        for idx, op in enumerate(steps):
            cands = [[]]
            what = ""
            if op is not None and op[0] == "via":
                via(idx, op, random.Random(zlib.crc32((json.dumps(op) + f"/{idx}/" + str(sty)).encode())))
                if problems:
                    break
                continue
            if op is not None:
                rs = random.Random(zlib.crc32((json.dumps(op) + "/" + str(sty)).encode()))
                before = set(orc.E)
                reg_before = set(orc.reg)
                was_w = orc.w
                a_real = real.apply(op, rs)
                a_orc = orc.apply(op)
                lines.append(w_op(op))
                real_ans.append(a_real)
                info["ok" if a_real == "ok" else "rej"] += 1
                if info["via"] and a_real == "ok":
                    info["after_via"] += 1
                if a_orc == "rej" and op[0] in ("addedge", "addedges"):
                    named = [op[2]] if op[0] == "addedge" else list(op[2])
                    if any(l not in reg_before for l in named):
                        info["rej_fresh_layer"] += 1
                if a_real != a_orc:
                    problems.append(("violation", f"step {idx} {op}: the call is {'accepted' if a_real == 'ok' else 'rejected (raises)'}"
                                                  f" but on the map it is {'accepted' if a_orc == 'ok' else 'rejected'}"))
                    break
                if a_orc == "ok":
                    if op[0] in ("rmedge", "rmnode"):
                        info["removals"] += 1
                    if op[0] in ("addedge", "addedges"):
                        ks = [(frozenset(op[1]), op[2])] if op[0] == "addedge" else [(frozenset(r), l) for r, l in zip(op[1], op[2])]
                        if any(k in seen_keys for k in ks) or len(set(ks)) < len(ks):
                            info["reinserts"] += 1
                    seen_keys |= set(orc.E) | before
                    if orc.w and not was_w:
                        info["promoted"] += 1
                    elif info["promoted"] and not weighted:
                        info["after_promotion"] += 1
                if real.pending:
                    cands = real.pending
                    what = " and an edit by the caller of the metadata dict it had passed"
            block(idx, op, cands, what)
            if problems:
                break
            if random.Random(zlib.crc32(f"{idx}/{sty}/{len(lines)}".encode())).random() < 0.5:
                rs = random.Random(zlib.crc32(f"abuse/{idx}/{sty}".encode()))
                cands = real.abuse(orc, rs, case["n"])
                info["requeried"] += 1
                block(idx, op, cands, " and after the caller overwrote the lists / dicts / aggregate that the queries had returned"
                      + (" and edited a metadata dict reached through a getter" if len(cands) > 1 else ""))
                if problems:
                    break
    except Hang:
        problems.append(("violation", "the implementation did not return within 30 s"))
    finally:
        signal.alarm(0)
        signal.signal(signal.SIGALRM, old)
    if problems:
        return problems[0][0], problems[0][1], info
    if drv is not None:
        ans = drv.batch(lines)
        for ln, a, b in zip(lines, ans, real_ans):
            if a != b and ln == "q dumpkeys":
                if DUMPKEYS_DIFFER[0]:
                    continue
                DUMPKEYS_DIFFER[0] = True      # reported once per run, not asked again: the search for a failing input goes on
            if a != b:
                return "disagree", f"line {ln!r}: model answers {a!r}, implementation {b!r}", info
        info["lines"] = len(lines)
    return None, "", info


def shrink(ctx, drv, case, kind):
    """greedy delta debugging on the operation list (bounded)"""
    best = case
    budget = 150
    changed = True
    while changed and budget > 0:
        changed = False
        ops = best["ops"]
        for i in range(len(ops) - 1, -1, -1):
            if budget <= 0 or (ctx.time_left() is not None and ctx.time_left() < 8):
                return best
            budget -= 1
            cand = dict(best)
            cand["ops"] = ops[:i] + ops[i + 1:]
            k, _, _ = run_case(ctx, drv if kind == "disagree" else None, cand)
            if k == kind:
                best = cand
                changed = True
                break
    if best.get("ctor") is not None and budget > 0:
        cand = dict(best)
        cand["ctor"] = None
        k, _, _ = run_case(ctx, drv if kind == "disagree" else None, cand)
        if k == kind:
            best = cand
    return best


def evaluate(ctx, drv, case, do_shrink=True):
    kind, what, info = run_case(ctx, drv, case)
    key = json.dumps([case["weighted"], case["hm0"], case["ctor"], case["ops"]])
    nontrivial = info["removals"] >= 1 and info["reinserts"] >= 1
    sample = {k: case[k] for k in ("weighted", "labeling", "ops")}
    ctx.case(key, nontrivial, sample=sample if len(case["ops"]) <= 8 else None)
    for k in ("ok", "rej", "removals", "reinserts"):
        ctx.count("ops_" + k, info[k])
    ctx.count("edits_of_shared_dicts_acting_as_setter", info["shared"])
    ctx.count("edits_of_shared_dicts_without_effect", info["notshared"])
    ctx.count("blocks_requeried_after_overwriting_returned_values", info["requeried"])
    ctx.count("promotions_by_weighted_batch", info["promoted"])
    ctx.count("accepted_calls_after_a_promotion", info["after_promotion"])
    ctx.count("objects_through_save_load_pickle_copy", info["via"])
    ctx.count("accepted_calls_on_such_objects", info["after_via"])
    ctx.count("rejected_insertions_naming_an_unregistered_layer", info["rej_fresh_layer"])
    ctx.count("constructor_calls_refused", info.get("ctor_refused", 0))
    ctx.count("hashing_view_unorderable_names_raises", info.get("hashing_view_unorderable_names_raises", 0))
    ctx.count("hashing_view_unorderable_names_answers", info.get("hashing_view_unorderable_names_answers", 0))
    ctx.count("raw_setter_calls_in_histories", sum(1 for op in case["ops"] if op[0] in ("rawecho", "setlayers")))
    for k, v in info["stats"].items():
        ctx.count(k, v)
    ctx.count(f"labeling_{case['labeling']}")
    ctx.count("histories_weighted" if case["weighted"] else "histories_unweighted")
    if case["ctor"] is not None:
        ctx.count("histories_via_constructor")
    if kind is None:
        return
    if do_shrink:
        small = shrink(ctx, drv, case, kind)
        k2, what2, _ = run_case(ctx, drv, small)
        if k2 == kind:
            case, what = small, what2
    if kind == "violation":
        ctx.violation(case, what)
    else:
        ctx.disagree(case, what)


# the defects of the unrepaired tree, as fixed regression inputs (replayed first on every run)
SEEDS = [
    # second extension round: raw setters inside a history; layer names 2019 / 'all-time' / None - one node set in two layers of
    # different comparability classes (the hashing view raises), the clash removed again (it answers)
    {"n": 4, "nl": 4, "weighted": True, "hm0": [], "ctor": None, "pool": [[0, 1], [1, 2]], "labeling": 11, "qseed": 13, "sty": 13,
     "ops": [["addedge", [0, 1], 0, 8, None], ["rawecho", "el"], ["addedge", [1, 0], 1, 4, [[100, 5]]], ["rawecho", "adj"],
             ["setlayers", [3]], ["addedge", [1, 0], 2, 6, None], ["rawecho", "pop"], ["addedge", [1, 2], 3, 2, None],
             ["setlayers", []], ["rawecho", "lay"], ["rmedge", [0, 1], 2], ["rmnode", 1, True], ["setlayers", [0, 1]]]},
    {"n": 3, "nl": 2, "weighted": True, "hm0": [], "ctor": None, "pool": [[0, 1], [0, 1, 2]], "labeling": 0, "qseed": 1,
     "ops": [["addedge", [0, 1], 0, 8, None], ["rmedge", [1, 0], 0]]},                                           # D15
    {"n": 3, "nl": 2, "weighted": True, "hm0": [], "ctor": None, "pool": [[0, 1], [0, 1, 2]], "labeling": 2, "qseed": 2,
     "ops": [["addedges", [[0, 1], [0, 1]], [0, 1], [4, 8], None]]},                                             # D16
    {"n": 3, "nl": 2, "weighted": False, "hm0": [], "ctor": None, "pool": [[0, 1]], "labeling": 1, "qseed": 3,
     "ops": [["addedge", [0, 1], 0, None, None]]},                                                               # D17, D18
    {"n": 3, "nl": 2, "weighted": True, "hm0": [], "ctor": None, "pool": [[0, 1, 2], [1, 2]], "labeling": 0, "qseed": 4,
     "ops": [["addedge", [0, 1, 2], 0, 10, [[100, 5]]], ["addedge", [2, 1], 0, 2, None], ["addedge", [0, 1, 2], 1, 6, None],
             ["rmnode", 0, True]]},                                                                              # D41
    {"n": 3, "nl": 2, "weighted": False, "hm0": [], "ctor": None, "pool": [[0, 1]], "labeling": 0, "qseed": 5,
     "ops": [["addnodes", [0, 1, 2], [[0, []], [1, []]]], ["addedges", [[0, 1], [0, 1]], [0, 0], [4, 8], None],
             ["addedges", [[0, 1], [0, 2]], [0], None, None]]},                                                  # D42
    {"n": 3, "nl": 2, "weighted": False, "hm0": [], "ctor": None, "pool": [[0, 1]], "labeling": 3, "qseed": 6,
     "ops": [["addedge", [0, 1], 1, None, None], ["setattre", [1, 0], 1, 100, 5], ["delattre", [0, 1], 1, 100]]},  # D14
    # an unweighted object promoted by a weighted batch, then every kind of call on records that predate the promotion
    {"n": 4, "nl": 2, "weighted": False, "hm0": [], "ctor": None, "pool": [[0, 1], [0, 1, 2], [1, 2]], "labeling": 7, "qseed": 7,
     "sty": 7, "ops": [["addedge", [0, 1], 0, None, None], ["addedge", [2, 1, 0], 0, None, [[100, 5]]], ["addedge", [1, 2], 1, 4, None],
                       ["addedges", [[1, 0], [1, 2], [0, 1]], [1, 0, 0], [6, 2, 8], None], ["addedge", [1, 2], 1, 10, None],
                       ["setw", [0, 1], 1, 1], ["rmnode", 0, True], ["addedge", [1, 2], 0, None, None], ["rmedge", [2, 1], 1],
                       ["addedges", [[2, 1]], [1], None, None], ["setw", [2, 1], 1, 0]]},
    {"n": 4, "nl": 3, "weighted": False, "hm0": [], "ctor": [[], [[0, 1], [1, 0], [2]], [0, 1, 2], [8, 2, 6], None, False],
     "pool": [[0, 1], [0, 1, 2], [2]], "labeling": 8, "qseed": 8, "sty": 8,
     "ops": [["addedge", [1, 0], 0, 1, None], ["addedge", [0, 1, 2], 2, 6, None], ["rmnode", 1, True], ["rmnode", 0, True],
             ["setw", [2], 2, 10]]},
    # round d. layer names of unorderable types (2019, 'all-time', None), weighted: overlap / aggregate / registry
    {"n": 4, "nl": 4, "weighted": True, "hm0": [], "ctor": None, "pool": [[0, 1, 2], [1, 2], [3]], "labeling": 11, "qseed": 9, "sty": 9,
     "ops": [["addedge", [0, 1, 2], 0, 8, None], ["addedge", [2, 1, 0], 2, 6, [[100, 5]]], ["addedge", [1, 2], 3, 2, None],
             ["addedge", [1, 2, 0], 3, 4, None], ["rmnode", 0, True], ["addedge", [3], 1, 4, None], ["rmedge", [3], 1]]},
    # an object with a phantom layer goes through the binary format, pickle and the text format and is used afterwards
    {"n": 4, "nl": 3, "weighted": True, "hm0": [], "ctor": None, "pool": [[0, 1, 2], [1, 2], [2, 3]], "labeling": 3, "qseed": 10, "sty": 10,
     "nonp": True,
     "ops": [["addedge", [0, 1, 2], 0, 8, [[100, 5]]], ["addedge", [0, 1, 2], 1, 10, None], ["addedge", [1, 2], 1, 6, None],
             ["addedge", [2, 3], 2, 4, None], ["rmedge", [3, 2], 2], ["via", "hgx", "go"], ["addedge", [0, 1, 2], 2, 4, None],
             ["rmnode", 0, True], ["via", "pickle", "stay"], ["addedge", [2, 3], 0, 2, None], ["via", "json", "go"],
             ["addedge", [2, 1], 0, 2, None], ["rmnode", 3, False], ["via", "deepcopy", "go"], ["setw", [1, 2], 1, 0],
             ["via", "json", "stay"], ["via", "rebuild", "go"]]},
    # loaded / rebuilt objects as STARTING points, unweighted, mixed layer names with string twins ("None" / None, 0.0 / "0")
    {"n": 4, "nl": 5, "weighted": False, "hm0": [[100, 5]], "ctor": [[[3, [[101, 6]]]], [[0, 1], [1, 0], [2]], [0, 1, 4], None, None, True],
     "pool": [[0, 1], [0, 1, 2], [2]], "labeling": 16, "qseed": 11, "sty": 11, "nonp": True,
     "ops": [["via", "json", "go"], ["addedge", [0, 1], 3, None, None], ["via", "rebuild", "go"], ["addedge", [0, 1, 2], 2, 8, None],
             ["addedges", [[0, 1], [2]], [3, 2], [6, 2], None], ["rmnode", 1, True], ["via", "expose", "go"], ["addedge", [0], 1, 4, None]]},
    # hash-colliding labels (-1 / -2, 2**61-1 / 0) and layer names (-1, -2, 2**61-1, 0, "-1")
    {"n": 6, "nl": 5, "weighted": True, "hm0": [], "ctor": None, "pool": [[0, 1], [0, 1, 2], [2, 4], [1, 4]], "labeling": 13, "qseed": 12,
     "sty": 12, "ops": [["addedge", [0, 1], 0, 8, None], ["addedge", [1, 0], 1, 6, None], ["addedge", [2, 4], 2, 2, None],
                        ["addedge", [4, 2, 1], 3, 4, None], ["addedge", [0, 1], 4, 10, None], ["rmnode", 1, True], ["rmnode", 4, True],
                        ["addedge", [0], 1, 2, None], ["rmedge", [0], 0]]},
]


def known_d49(ctx):
    """Known finding D49 (by design, not repaired): TUPLE node labels. `_canon_edge` reads a 2-element hyperedge whose two
    members are tuples as a directed (source, target) pair: it sorts INSIDE the two tuples and not the pair. The witness is
    replayed on every run; tuple node labels are kept out of the random streams (ASSUMPTIONS), tuple layer names are in"""
    from hypergraphx import MultiplexHypergraph
    try:
        with contextlib.redirect_stdout(io.StringIO()):
            h = MultiplexHypergraph()
            h.add_edge((fresh((1, 2)), fresh((0, 5))), "A")
            h.add_edge((fresh((0, 5)), fresh((1, 2))), "A")
            recs = h.get_edges()
            g = MultiplexHypergraph()
            g.add_edge((fresh((2, 1)), fresh((0, 5))), "A")
            nodes = g.get_nodes()
        split = len(recs) == 2 and len({frozenset(r[0]) for r in recs}) == 1
        renamed = (1, 2) in nodes and (2, 1) not in nodes
    except Exception:
        return
    ctx.count("D49_witness_reproduced", 1 if (split or renamed) else 0)
    if (split or renamed) and any(f.get("id") == "D49" for f in getattr(ctx, "known_findings", [])):
        ctx.known("D49", "tuple node labels: add_edge(((1,2),(0,5)),'A'); add_edge(((0,5),(1,2)),'A') keeps "
                         f"{len(recs)} records for one node set in one layer ({recs}); add_edge(((2,1),(0,5)),'A') creates the nodes "
                         f"{nodes} - _canon_edge reads a pair of tuples as a directed (source, target) pair")


def run(ctx):
    drv = ctx.driver() if ctx.model_available else None
    known_d49(ctx)
    for case in ([] if os.environ.get("C04_NO_SEEDS") else SEEDS):     # the knob is for testing the generator on its own
        evaluate(ctx, drv, case, do_shrink=False)
    n = ctx.scale(400, 6000)
    for _ in range(n):
        if ctx.too_many() or (ctx.time_left() is not None and ctx.time_left() < 6):
            break
        evaluate(ctx, drv, gen_case(ctx.rng))


def replay(ctx, case):
    drv = ctx.driver() if ctx.model_available else None
    evaluate(ctx, drv, case, do_shrink=False)
