"""C04 - MultiplexHypergraph keeps (hyperedge, layer) records; aggregation sums layers.

Three parties answer the same history, operation by operation, query by query:
  * the REAL `hypergraphx.MultiplexHypergraph` (public API only, imported from $HGX_REPO),
  * `Oracle` below: a few lines of Python over a dict  (frozenset(nodes), layer) -> [weight, metadata]
    - the property's own words; a difference real/oracle is a VIOLATION (the failing input is the history),
  * the Lean model (`lean/Driver/C04.lean`: concrete `Store` and abstract `Spec` side by side); a difference
    real/Lean that the oracle does not see is a broken correspondence.
Listings are compared as multisets (items sorted), exceptions as `rej`, dicts by content.
"""
import contextlib
import copy
import io
import json
import signal

import hgxv

RULE = ("random histories of 1-40 public calls on one MultiplexHypergraph (3-6 nodes, 2-3 layer names, integer / shifted "
        "integer / string labels, both weightedness settings, 15 % built through the constructor): add_node(s), add_edge "
        "(permuted node order, a pool of 3-5 node sets re-used across layers), add_edges (same node set in several layers, "
        "also twice in the same layer, wrong-length layer/weight/metadata lists), remove_edge, remove_node with both "
        "keep_edges, set_weight, all metadata setters; 10-15 % malformed calls. After EVERY call ~45 queries (nodes, records, "
        "weights, incident/degree with and without size/order filter, layers, metadata, aggregated_hypergraph through its "
        "public API, edge_overlap) are compared and the object's internal tables are compared before/after the queries. "
        "A history is distinct by its canonical text and non-trivial when it has >= 1 accepted removal and >= 1 insertion of "
        "a (node set, layer) key that is or was present")
ASSUMPTIONS = ["hyperedges are duplicate-free node tuples over mutually comparable labels (the property's quantifier)",
               "labels / layer names reach the model as their rank; weights are multiples of 1/4 (exact in binary64)",
               "a rejected call is one that raises any exception; it must leave every query unchanged",
               "layers in use = registry of layer names seen by accepted insertions (get_existing_layers)",
               "edge_overlap(e) = sum over layers of get_weight(e, layer) (also for unweighted hypergraphs)"]
TRUSTED = ["the aggregate returned by aggregated_hypergraph() is observed through Hypergraph's public API; the model builds it "
           "with the abstract add_node/add_edge of a plain hypergraph (property C01)"]
BUDGET_S = {"quick": 55, "thorough": 840}

VAL = {5: "x", 6: 7, 7: [1, 2], 8: {"a": 1}, 9: 1.5, 10: None, 11: "", 12: -3}
HVAL = dict(VAL)
HVAL.update({0: False, 1: True, 2: "MultiplexHypergraph", 3: "Hypergraph"})
VAL_REV = {json.dumps(v, sort_keys=True): k for k, v in VAL.items()}
HVAL_REV = {json.dumps(v, sort_keys=True): k for k, v in HVAL.items()}
FIELDS = [100, 101, 102]
# node labels / layer names per rank; they include the falsy labels 0 and '' and layer names equal to node labels
LABELINGS = [
    {"nodes": [0, 1, 2, 3, 4, 5], "layers": ["A", "B", "C"]},
    {"nodes": [10, 13, 21, 22, 40, 57], "layers": ["", "work", "x"]},
    {"nodes": ["", "a", "ba", "c", "d", "zz"], "layers": ["L1", "L2", "L3"]},
    {"nodes": [3, 4, 8, 9, 11, 12], "layers": [7, 8, 9]},
    {"nodes": [0, 1, 2, 3, 4, 5], "layers": [0, 1, 2]},
    {"nodes": ["a", "b", "c", "d", "e", "f"], "layers": ["a", "b", "c"]},
]


# ------------------------------------------------------------------------------------------ rendering
def fnats(l):
    l = list(l)
    return ",".join(str(x) for x in l) if l else "_"


def fmeta(pairs):
    return fnats(x for p in sorted(pairs) for x in p)


def items(l):
    l = sorted(l)
    return "|".join(l) if l else "-"


def fkey(nodes, layer):
    return f"{layer};{fnats(sorted(nodes))}"


def pyw(q, flip):
    """python value of a weight of q quanta; integral values are sent as int or as float (1 vs 1.0)"""
    if q % 4:
        return q / 4
    return float(q // 4) if flip else q // 4


def fq(w):
    """weight in quanta of 1/4"""
    try:
        q = w * 4
        if q == int(q):
            return str(int(q))
        return "frac" + repr(w)
    except Exception:
        return "weird" + repr(w)


# ------------------------------------------------------------------------------------------ the oracle
class Oracle:
    """the abstract map of the property, in model terms (nodes, layers, tokens are naturals; weights quanta)"""

    def __init__(self, weighted, hm):
        self.w = bool(weighted)
        self.N = {}                    # node -> {k: v}
        self.E = {}                    # (frozenset, layer) -> [quanta, {k: v}]
        self.reg = set()
        self.hm = dict(hm)
        self.hm[0] = 1 if weighted else 0
        self.hm[1] = 2

    # -- updates
    def _node(self, n, md=None):
        if n not in self.N or self.N[n] == {}:
            self.N[n] = dict(md or {})

    def _insert(self, nodes, layer, w, md):
        k = (frozenset(nodes), layer)
        self.reg.add(layer)
        if k in self.E:
            if self.w:
                self.E[k][0] += w
            self.E[k][1] = dict(md)
        else:
            self.E[k] = [w, dict(md)]
        for n in nodes:
            self._node(n)

    def apply(self, op):
        t = op[0]
        if t == "addnode":
            self._node(op[1], dict(op[2] or []))
        elif t == "addnodes":
            if op[2] is not None:
                d = {n: dict(md) for n, md in op[2]}
                if any(n not in d for n in op[1]):
                    return "rej"
                for n in op[1]:
                    self._node(n, d[n])
            else:
                for n in op[1]:
                    self._node(n)
        elif t == "addedge":
            w = 4 if op[3] is None else op[3]
            if not self.w and w != 4:
                return "rej"
            self._insert(op[1], op[2], w, dict(op[4] or []))
        elif t == "addedges":
            raws, ls, ws, mds = op[1:5]
            if len(ls) < len(raws) or (mds is not None and len(mds) < len(raws)):
                return "rej"
            if ws is not None:
                pairs = [(tuple(r), l) for r, l in zip(raws, ls)]
                if len(set(pairs)) != len(pairs) or len(ws) != len(raws):
                    return "rej"
                self.w = True
            for i, (r, l) in enumerate(zip(raws, ls)):
                self._insert(r, l, 4 if ws is None else ws[i], dict(mds[i]) if mds is not None else {})
        elif t == "rmedge":
            k = (frozenset(op[1]), op[2])
            if k not in self.E:
                return "rej"
            del self.E[k]
        elif t == "rmnode":
            n, keep = op[1], op[2]
            if n not in self.N:
                return "rej"
            hit = [k for k in self.E if n in k[0]]
            moved = [(k, self.E.pop(k)) for k in hit]
            if keep:
                for (e, l), (w, md) in moved:
                    if len(e) > 1:
                        self._insert(e - {n}, l, w, md)
            del self.N[n]
        elif t == "setw":
            k = (frozenset(op[1]), op[2])
            if (not self.w and op[3] != 4) or k not in self.E:
                return "rej"
            self.E[k][0] = op[3]
        elif t == "sethmeta":
            self.hm = dict(op[1])
        elif t == "setattrh":
            self.hm[op[1]] = op[2]
        elif t == "setlayermeta":
            self.hm[10 + op[1]] = op[2]
        elif t == "setdsmeta":
            self.hm[2] = op[1]
        elif t == "setattrn":
            if op[1] not in self.N:
                return "rej"
            self.N[op[1]][op[2]] = op[3]
        elif t == "delattrn":
            if op[1] not in self.N or op[2] not in self.N[op[1]]:
                return "rej"
            del self.N[op[1]][op[2]]
        elif t == "setattre":
            k = (frozenset(op[1]), op[2])
            if k not in self.E:
                return "rej"
            self.E[k][1][op[3]] = op[4]
        elif t == "delattre":
            k = (frozenset(op[1]), op[2])
            if k not in self.E or op[3] not in self.E[k][1]:
                return "rej"
            del self.E[k][1][op[3]]
        else:
            raise AssertionError(op)
        return "ok"

    # -- queries
    def _inc(self, n, f):
        if n not in self.N or f[0] == "b":
            return None
        out = []
        for (e, l) in self.E:
            if n in e and (f == "a" or (f[0] == "s" and len(e) == int(f[1:])) or (f[0] == "o" and len(e) == int(f[1:]) + 1)):
                out.append((e, l))
        return out

    def query(self, q):
        t = q[0]
        if t == "nodes":
            return items(str(n) for n in self.N)
        if t == "nodesmeta":
            return items(f"{n};{fmeta(md.items())}" for n, md in self.N.items())
        if t == "edges":
            return items(fkey(e, l) for (e, l) in self.E)
        if t == "edgesmeta":
            return items(f"{fkey(e, l)};{fmeta(v[1].items())}" for (e, l), v in self.E.items())
        if t == "weights":
            return items(f"{fkey(e, l)};{v[0]}" for (e, l), v in self.E.items())
        if t == "weight":
            k = (frozenset(q[1]), q[2])
            return str(self.E[k][0]) if k in self.E else "rej"
        if t == "emeta":
            k = (frozenset(q[1]), q[2])
            return fmeta(self.E[k][1].items()) if k in self.E else "rej"
        if t == "incident":
            r = self._inc(q[1], q[2])
            return "rej" if r is None else items(fkey(e, l) for e, l in r)
        if t == "degree":
            r = self._inc(q[1], q[2])
            return "rej" if r is None else str(len(r))
        if t == "degseq":
            if q[1][0] == "b":
                return "rej"
            return items(f"{n};{len(self._inc(n, q[1]))}" for n in self.N)
        if t == "layers":
            return items(str(l) for l in self.reg)
        if t == "inuse":
            return items(str(l) for l in {l for (_, l) in self.E})
        if t == "hmeta":
            return items(f"{k};{v}" for k, v in self.hm.items())
        if t == "layermeta":
            return str(self.hm[10 + q[1]]) if 10 + q[1] in self.hm else "rej"
        if t == "dsmeta":
            return str(self.hm[2]) if 2 in self.hm else "rej"
        if t == "weighted":
            return "1" if self.w else "0"
        # the aggregate, straight from the statement: same nodes (and metadata); the distinct node sets of all layers;
        # weight = sum of the per-layer weights when weighted, 1 when not
        if t == "aggnodes":
            return self.query(["nodesmeta"])
        if t == "aggkeys":
            return items(fnats(sorted(e)) for e in {e for (e, _) in self.E})
        if t == "aggweights":
            sets = {e for (e, _) in self.E}
            return items(f"{fnats(sorted(e))};{sum(v[0] for (e2, _), v in self.E.items() if e2 == e) if self.w else 4}" for e in sets)
        if t == "aggweighted":
            return "1" if self.w else "0"
        if t == "overlap":
            e = frozenset(q[1])
            return str(sum(v[0] for (e2, _), v in self.E.items() if e2 == e))
        raise AssertionError(q)


# ------------------------------------------------------------------------------------------ the real object
class Real:
    def __init__(self, lab, weighted, hm, ctor=None):
        from hypergraphx import MultiplexHypergraph
        self.lab = lab
        self.nl = lab["nodes"]
        self.ll = lab["layers"]
        self.nrank = {x: i for i, x in enumerate(self.nl)}
        self.lrank = {x: i for i, x in enumerate(self.ll)}
        kw = {"weighted": bool(weighted)}
        if hm:
            kw["hypergraph_metadata"] = self.hmd(hm)
        if ctor is not None:
            # constructor path: node_metadata, then edge_list (+ edge_layer or embedded layers), weights, edge_metadata
            nm, raws, ls, ws, mds, embedded = ctor
            if nm:
                kw["node_metadata"] = {self.nl[n]: self.md(md) for n, md in nm}
            edges = [tuple(self.nl[x] for x in r) for r in raws]
            layers = [self.ll[l] for l in ls]
            if embedded:
                kw["edge_list"] = [(e, l) for e, l in zip(edges, layers)]
            else:
                kw["edge_list"] = edges
                kw["edge_layer"] = layers
            if ws is not None:
                kw["weights"] = [w / 4 for w in ws]
            if mds is not None:
                kw["edge_metadata"] = [self.md(m) for m in mds]
        self.h = MultiplexHypergraph(**kw)

    # token -> python
    def md(self, pairs):
        return {f"f{k}": copy.deepcopy(VAL.get(v, f"tok{v}")) for k, v in pairs}

    def hkey(self, k):
        if k == 0:
            return "weighted"
        if k == 1:
            return "type"
        if k == 2:
            return "multiplex_metadata"
        if 10 <= k < 10 + len(self.ll):
            return self.ll[k - 10]
        return f"f{k}"

    def hmd(self, pairs):
        return {self.hkey(k): copy.deepcopy(HVAL.get(v, f"tok{v}")) for k, v in pairs}

    # python -> token
    def r_md(self, d):
        out = []
        for k, v in d.items():
            kk = int(k[1:]) if isinstance(k, str) and k[:1] == "f" and k[1:].isdigit() else 998
            out.append((kk, VAL_REV.get(json.dumps(v, sort_keys=True), 999)))
        return out

    def r_hmd(self, d):
        out = []
        for k, v in d.items():
            if k in self.lrank and not isinstance(k, bool):
                kk = 10 + self.lrank[k]
            elif k == "weighted":
                kk = 0
            elif k == "type":
                kk = 1
            elif k == "multiplex_metadata":
                kk = 2
            elif isinstance(k, str) and k[:1] == "f" and k[1:].isdigit():
                kk = int(k[1:])
            else:
                kk = 998
            out.append((kk, HVAL_REV.get(json.dumps(v, sort_keys=True), 999)))
        return out

    def rn(self, x):
        return self.nrank.get(x, 997) if not isinstance(x, (list, tuple, set, frozenset, dict)) else 996

    def rl(self, x):
        try:
            return self.lrank.get(x, 997)
        except TypeError:
            return 996

    def rkey(self, k):
        nodes, layer = k
        return fkey([self.rn(x) for x in nodes], self.rl(layer))

    def e(self, raw):
        return tuple(self.nl[x] for x in raw)

    def apply(self, op):
        h, t = self.h, op[0]
        try:
            if t == "addnode":
                if op[2] is None:
                    h.add_node(self.nl[op[1]])
                else:
                    h.add_node(self.nl[op[1]], metadata=self.md(op[2]))
            elif t == "addnodes":
                ns = [self.nl[n] for n in op[1]]
                if op[2] is None:
                    h.add_nodes(ns)
                else:
                    h.add_nodes(ns, node_metadata={self.nl[n]: self.md(md) for n, md in op[2]})
            elif t == "addedge":
                kw = {}
                if op[3] is not None:
                    kw["weight"] = pyw(op[3], (len(op[1]) + op[2] + op[3]) % 2)
                if op[4] is not None:
                    kw["metadata"] = self.md(op[4])
                h.add_edge(self.e(op[1]), self.ll[op[2]], **kw)
            elif t == "addedges":
                kw = {}
                if op[3] is not None:
                    kw["weights"] = [pyw(w, (i + len(op[1])) % 2) for i, w in enumerate(op[3])]
                if op[4] is not None:
                    kw["metadata"] = [self.md(m) for m in op[4]]
                h.add_edges([self.e(r) for r in op[1]], [self.ll[l] for l in op[2]], **kw)
            elif t == "rmedge":
                h.remove_edge((self.e(op[1]), self.ll[op[2]]))
            elif t == "rmnode":
                if op[2]:
                    h.remove_node(self.nl[op[1]], keep_edges=True)
                else:
                    h.remove_node(self.nl[op[1]])
            elif t == "setw":
                h.set_weight(self.e(op[1]), self.ll[op[2]], pyw(op[3], (len(op[1]) + op[3]) % 2))
            elif t == "sethmeta":
                h.set_hypergraph_metadata(self.hmd(op[1]))
            elif t == "setattrh":
                h.set_attr_to_hypergraph_metadata(self.hkey(op[1]), copy.deepcopy(HVAL.get(op[2])))
            elif t == "setlayermeta":
                h.set_layer_metadata(self.ll[op[1]], copy.deepcopy(HVAL.get(op[2])))
            elif t == "setdsmeta":
                h.set_dataset_metadata(copy.deepcopy(HVAL.get(op[1])))
            elif t == "setattrn":
                h.set_attr_to_node_metadata(self.nl[op[1]], f"f{op[2]}", copy.deepcopy(VAL.get(op[3])))
            elif t == "delattrn":
                h.remove_attr_from_node_metadata(self.nl[op[1]], f"f{op[2]}")
            elif t == "setattre":
                h.set_attr_to_edge_metadata(self.e(op[1]), self.ll[op[2]], f"f{op[3]}", copy.deepcopy(VAL.get(op[4])))
            elif t == "delattre":
                h.remove_attr_from_edge_metadata(self.e(op[1]), self.ll[op[2]], f"f{op[3]}")
            else:
                raise AssertionError(op)
            return "ok"
        except AssertionError:
            raise
        except Exception:
            return "rej"

    def filt(self, f):
        if f == "a":
            return {}
        if f[0] == "b":      # both given (must raise), including the falsy values 0
            return {"order": int(f[1]), "size": int(f[2])}
        return {"size": int(f[1:])} if f[0] == "s" else {"order": int(f[1:])}

    def agg(self):
        if self._agg is None:
            try:
                self._agg = ("ok", self.h.aggregated_hypergraph())
            except Exception as ex:
                self._agg = ("rej", ex)
        return self._agg

    def query(self, q):
        try:
            return self._query(q)
        except Exception:
            return "rej"

    def _query(self, q):
        h, t = self.h, q[0]
        if t == "nodes":
            return items(str(self.rn(n)) for n in h.get_nodes())
        if t == "nodesmeta":
            return items(f"{self.rn(n)};{fmeta(self.r_md(md))}" for n, md in h.get_nodes(metadata=True).items())
        if t == "edges":
            return items(self.rkey(k) for k in h.get_edges())
        if t == "edgesmeta":
            return items(f"{self.rkey(k)};{fmeta(self.r_md(md))}" for k, md in h.get_edges(metadata=True).items())
        if t == "weights":
            return items(f"{self.rkey(k)};{fq(h.get_weight(k[0], k[1]))}" for k in h.get_edges())
        if t == "weight":
            return fq(h.get_weight(self.e(q[1]), self.ll[q[2]]))
        if t == "emeta":
            return fmeta(self.r_md(h.get_edge_metadata(self.e(q[1]), self.ll[q[2]])))
        if t == "incident":
            return items(self.rkey(k) for k in h.get_incident_edges(self.nl[q[1]], **self.filt(q[2])))
        if t == "degree":
            d = h.degree(self.nl[q[1]], **self.filt(q[2]))
            return str(int(d)) if d == int(d) else repr(d)
        if t == "degseq":
            return items(f"{self.rn(n)};{d}" for n, d in h.degree_sequence(**self.filt(q[1])).items())
        if t == "layers":
            return items(str(self.rl(l)) for l in h.get_existing_layers())
        if t == "inuse":
            return items(str(self.rl(l)) for l in {k[1] for k in h.get_edges()})
        if t == "hmeta":
            return items(f"{k};{v}" for k, v in self.r_hmd(h.get_hypergraph_metadata()))
        if t == "layermeta":
            return str(HVAL_REV.get(json.dumps(h.get_layer_metadata(self.ll[q[1]]), sort_keys=True), 999))
        if t == "dsmeta":
            return str(HVAL_REV.get(json.dumps(h.get_dataset_metadata(), sort_keys=True), 999))
        if t == "weighted":
            return "1" if h.is_weighted() is True else ("0" if h.is_weighted() is False else "weird")
        if t == "overlap":
            from hypergraphx.measures.multiplex import edge_overlap
            return fq(edge_overlap(h, self.e(q[1])))
        st, a = self.agg()
        if st != "ok":
            return "rej"
        if t == "aggnodes":
            return items(f"{self.rn(n)};{fmeta(self.r_md(md))}" for n, md in a.get_nodes(metadata=True).items())
        if t == "aggedges":
            return items(f"{fnats(sorted(self.rn(x) for x in e))};{fq(a.get_weight(e))};{fmeta(self.r_md(a.get_edge_metadata(e)))}"
                         for e in a.get_edges())
        if t == "aggkeys":
            return items(fnats(sorted(self.rn(x) for x in e)) for e in a.get_edges())
        if t == "aggweights":
            return items(f"{fnats(sorted(self.rn(x) for x in e))};{fq(a.get_weight(e))}" for e in a.get_edges())
        if t == "agghmeta":
            return items(f"{k};{v}" for k, v in self.r_hmd(a.get_hypergraph_metadata()))
        if t == "aggweighted":
            return "1" if a.is_weighted() is True else ("0" if a.is_weighted() is False else "weird")
        raise AssertionError(q)

    def snapshot(self):
        """the object itself (internal tables), for the unchanged-by-queries test"""
        try:
            return copy.deepcopy(self.h.expose_data_structures())
        except Exception as ex:
            return "exc " + type(ex).__name__


# ------------------------------------------------------------------------------------------ wire lines
def w_meta(md):
    return "N" if md is None else hgxv.enc_list([x for p in md for x in p])


def w_op(op):
    t = op[0]
    if t == "addnode":
        return f"addnode {op[1]} {w_meta(op[2])}"
    if t == "addnodes":
        d = "N" if op[2] is None else (";".join(hgxv.enc_list([n] + [x for p in md for x in p]) for n, md in op[2]) or "-")
        return f"addnodes {hgxv.enc_list(op[1])} {d}"
    if t == "addedge":
        return f"addedge {hgxv.enc_list(op[1])} {op[2]} {'N' if op[3] is None else op[3]} {w_meta(op[4])}"
    if t == "addedges":
        mds = "N" if op[4] is None else (";".join(hgxv.enc_list([x for p in m for x in p], "_") for m in op[4]) or "-")
        return (f"addedges {hgxv.enc_lists(op[1])} {hgxv.enc_list(op[2])} "
                f"{'N' if op[3] is None else hgxv.enc_list(op[3])} {mds}")
    if t in ("rmedge",):
        return f"rmedge {hgxv.enc_list(op[1])} {op[2]}"
    if t == "rmnode":
        return f"rmnode {op[1]} {1 if op[2] else 0}"
    if t == "setw":
        return f"setw {hgxv.enc_list(op[1])} {op[2]} {op[3]}"
    if t == "sethmeta":
        return f"sethmeta {w_meta(op[1])}"
    if t in ("setattrh", "setlayermeta", "setdsmeta", "setattrn", "delattrn"):
        return t + " " + " ".join(str(x) for x in op[1:])
    if t == "setattre":
        return f"setattre {hgxv.enc_list(op[1])} {op[2]} {op[3]} {op[4]}"
    if t == "delattre":
        return f"delattre {hgxv.enc_list(op[1])} {op[2]} {op[3]}"
    raise AssertionError(op)


def w_q(q):
    t = q[0]
    if t in ("weight", "emeta"):
        return f"q {t} {hgxv.enc_list(q[1])} {q[2]}"
    if t == "overlap":
        return f"q overlap {hgxv.enc_list(q[1])}"
    return "q " + " ".join(("b" if isinstance(x, str) and x[:1] == "b" and x[1:].isdigit() else str(x)) for x in q)


# ------------------------------------------------------------------------------------------ generation
def gen_md(rng, p_none=0.5):
    if rng.random() < p_none:
        return None
    ks = rng.sample(FIELDS, rng.choice([0, 1, 1, 2]))
    return [[k, rng.choice(list(VAL))] for k in ks]


def gen_case(rng):
    n = rng.randint(3, 6)
    nl = rng.randint(2, 3)
    weighted = rng.random() < 0.55
    pool = []
    for _ in range(rng.randint(3, 5)):
        size = min(n, rng.choice([0, 1, 2, 2, 2, 3, 3, 4]))
        pool.append(sorted(rng.sample(range(n), size)))
    # sub-edges so that shrink-merges happen
    if rng.random() < 0.7:
        e = max(pool, key=len)
        if len(e) >= 2:
            pool.append(e[1:])
            pool.append(e[:-1])

    def raw():
        e = list(rng.choice(pool)) if rng.random() < 0.9 else sorted(rng.sample(range(n), rng.randint(0, min(4, n))))
        rng.shuffle(e)
        return e

    def weight(ok=True):
        if weighted or not ok:
            return rng.choice([0, 1, 2, 4, 4, 6, 8, 10])
        return rng.choice([None, None, 4])

    hm0 = []
    if rng.random() < 0.2:
        hm0 = [[rng.choice([100, 101, 2, 10]), rng.choice(list(VAL))]]
    ctor = None
    if rng.random() < 0.15:
        k = rng.randint(0, 3)
        raws = [raw() for _ in range(k)]
        ls = [rng.randrange(nl) for _ in range(k)]
        prs = set()
        keep = []
        for r, l in zip(raws, ls):
            if (tuple(r), l) not in prs:
                prs.add((tuple(r), l))
                keep.append((r, l))
        raws, ls = [r for r, _ in keep], [l for _, l in keep]
        ws = [weight() or 4 for _ in raws] if (weighted and rng.random() < 0.7) else None
        mds = [gen_md(rng, 0) for _ in raws] if rng.random() < 0.4 else None
        nm = [[x, gen_md(rng, 0)] for x in rng.sample(range(n), rng.randint(0, 2))]
        ctor = [nm, raws, ls, ws, mds, rng.random() < 0.5]
    ops = []
    present = set()   # approximate knowledge, only to bias the generator
    for _ in range(rng.randint(1, 40)):
        r = rng.random()
        if r < 0.30:
            e, l = raw(), rng.randrange(nl)
            w = weight() if rng.random() < 0.93 else rng.choice([8, 0])
            if weighted and rng.random() < 0.2:
                w = None
            ops.append(["addedge", e, l, w, gen_md(rng)])
            present.add((tuple(sorted(e)), l))
        elif r < 0.42:
            k = rng.choice([0, 1, 1, 2, 2, 3, 4])
            raws, ls = [], []
            for _ in range(k):
                e = raw()
                raws.append(e)
                ls.append(rng.randrange(nl))
                if rng.random() < 0.45:       # the same node set again, usually in another layer
                    e2 = list(e)
                    if rng.random() < 0.5:
                        rng.shuffle(e2)
                    raws.append(e2)
                    ls.append(rng.randrange(nl))
            ws = None
            if rng.random() < (0.7 if weighted else 0.25):
                ws = [rng.choice([0, 1, 2, 4, 4, 6, 8]) for _ in raws]
                if rng.random() < 0.08:
                    ws = ws[:-1] if rng.random() < 0.5 else ws + [4]
            mds = [gen_md(rng, 0) for _ in raws] if rng.random() < 0.3 else None
            if mds is not None and rng.random() < 0.1:
                mds = mds[:-1] if rng.random() < 0.6 else mds + [[]]
            if rng.random() < 0.06:
                ls = ls[:-1] if rng.random() < 0.6 else ls + [0]
            ops.append(["addedges", raws, ls, ws, mds])
            for e, l in zip(raws, ls):
                present.add((tuple(sorted(e)), l))
        elif r < 0.54:
            if present and rng.random() < 0.85:
                e, l = rng.choice(sorted(present))
                e = list(e)
                rng.shuffle(e)
            else:
                e, l = raw(), rng.randrange(nl)
            ops.append(["rmedge", e, l])
        elif r < 0.64:
            ops.append(["rmnode", rng.randrange(n), rng.random() < 0.55])
        elif r < 0.70:
            if present and rng.random() < 0.85:
                e, l = rng.choice(sorted(present))
                e = list(e)
                rng.shuffle(e)
            else:
                e, l = raw(), rng.randrange(nl)
            w = weight() if rng.random() < 0.9 else rng.choice([6, 0])
            ops.append(["setw", e, l, 4 if w is None else w])
        elif r < 0.75:
            ops.append(["addnode", rng.randrange(n), gen_md(rng)])
        elif r < 0.79:
            ns = rng.sample(range(n), rng.randint(0, 3))
            d = None
            if rng.random() < 0.5:
                d = [[x, gen_md(rng, 0)] for x in ns]
                if d and rng.random() < 0.25:
                    d = d[:-1]
                if rng.random() < 0.2:
                    d.append([rng.randrange(n), []])
                    seen, dd = set(), []
                    for x, m in d:
                        if x not in seen:
                            seen.add(x)
                            dd.append([x, m])
                    d = dd
            ops.append(["addnodes", ns, d])
        elif r < 0.83:
            ops.append(["setattrn", rng.randrange(n), rng.choice(FIELDS), rng.choice(list(VAL))])
        elif r < 0.86:
            ops.append(["delattrn", rng.randrange(n), rng.choice(FIELDS)])
        elif r < 0.91:
            if present and rng.random() < 0.85:
                e, l = rng.choice(sorted(present))
                e = list(e)
                rng.shuffle(e)
            else:
                e, l = raw(), rng.randrange(nl)
            if rng.random() < 0.6:
                ops.append(["setattre", e, l, rng.choice(FIELDS), rng.choice(list(VAL))])
            else:
                ops.append(["delattre", e, l, rng.choice(FIELDS)])
        elif r < 0.93:
            ops.append(["setlayermeta", rng.randrange(nl), rng.choice(list(VAL))])
        elif r < 0.95:
            ops.append(["setdsmeta", rng.choice(list(VAL))])
        elif r < 0.98:
            ops.append(["setattrh", rng.choice([100, 101, 0, 1, 2, 10]), rng.choice(list(HVAL))])
        else:
            ks = rng.sample([100, 101, 0, 1, 2, 10, 11], rng.randint(0, 3))
            ops.append(["sethmeta", [[k, rng.choice(list(HVAL))] for k in ks]])
    return {"n": n, "nl": nl, "weighted": weighted, "hm0": hm0, "ctor": ctor, "ops": ops, "pool": pool,
            "labeling": rng.randrange(len(LABELINGS)), "qseed": rng.randrange(1 << 30)}


def digest_queries(case, qrng):
    n, nl, pool = case["n"], case["nl"], case["pool"]
    KS = [0, 0, 1, 1, 2, 2, 3, 4, 5]      # sizes / orders asked on their own: 0 and 1 (falsy / boundary), above the maximum
    qs = [["nodes"], ["nodesmeta"], ["edges"], ["edgesmeta"], ["weights"], ["layers"], ["inuse"], ["hmeta"], ["dsmeta"],
          ["weighted"], ["degseq", "a"], ["degseq", f"s{qrng.choice(KS)}"], ["degseq", f"o{qrng.choice(KS)}"],
          ["aggnodes"], ["aggedges"], ["agghmeta"], ["aggweighted"]]
    BOTH = ["b00", "b01", "b10", "b12", "b21"]
    if qrng.random() < 0.4:
        qs.append(["degseq", qrng.choice(BOTH)])
    for l in range(nl):
        qs.append(["layermeta", l])
    for x in range(n):
        qs.append(["incident", x, "a"])
        qs.append(["degree", x, qrng.choice(["a", qrng.choice(BOTH), f"s{qrng.choice(KS)}", f"s{qrng.choice(KS)}", f"o{qrng.choice(KS)}",
                                             f"o{qrng.choice(KS)}"])])
        if qrng.random() < 0.4:
            qs.append(["incident", x, qrng.choice([f"s{qrng.choice(KS)}", f"o{qrng.choice(KS)}", qrng.choice(BOTH)])])
    for e in pool:
        e2 = list(e)
        qrng.shuffle(e2)
        qs.append(["overlap", e2])
        for _ in range(2):
            l = qrng.randrange(nl)
            qs.append([qrng.choice(["weight", "emeta"]), e2, l])
    return qs


# oracle-only questions (the aggregate in the statement's words); asked of the real object and the oracle
ORACLE_ONLY = [["aggkeys"], ["aggweights"]]
# asked of the real object and the Lean model only (the statement does not pin them down)
MODEL_ONLY = {"aggedges", "agghmeta"}


class Hang(Exception):
    pass


def _alarm(signum, frame):
    raise Hang()


def run_case(ctx, drv, case):
    """returns (kind, what, info): kind in None / 'violation' / 'disagree'"""
    with contextlib.redirect_stdout(io.StringIO()):     # add_edges prints a warning when it switches to weighted
        return _run_case(ctx, drv, case)


def _run_case(ctx, drv, case):
    import random
    lab = LABELINGS[case["labeling"]]
    qrng = random.Random(case["qseed"])
    weighted, hm0, ctor = case["weighted"], case["hm0"], case["ctor"]
    old = signal.signal(signal.SIGALRM, _alarm)
    signal.alarm(20)
    problems = []      # (kind, what)
    lines, real_ans = [], []
    info = {"removals": 0, "reinserts": 0, "rej": 0, "ok": 0}
    try:
        orc = Oracle(weighted, hm0)
        lines.append(f"new {1 if weighted else 0} {w_meta(hm0)}")
        real_ans.append("ok")
        pre = []
        if ctor is not None:
            nm, raws, ls, ws, mds, _ = ctor
            pre = [["addnode", x, md] for x, md in nm] + [["addedges", raws, ls, ws, mds]]
        try:
            real = Real(lab, weighted, hm0, ctor)
        except Hang:
            raise
        except Exception as ex:
            return "violation", f"constructor raised {type(ex).__name__}: {ex}", info
        for op in pre:
            o = orc.apply(op)
            lines.append(w_op(op))
            real_ans.append("ok")
            if o != "ok":
                problems.append(("violation", "constructor accepted a batch the map rejects"))
        seen_keys = set(k for k in orc.E)
        steps = [None] + case["ops"]
        for idx, op in enumerate(steps):
            if op is not None:
                before = set(orc.E)
                a_real = real.apply(op)
                a_orc = orc.apply(op)
                lines.append(w_op(op))
                real_ans.append(a_real)
                info["ok" if a_real == "ok" else "rej"] += 1
                if a_real != a_orc:
                    problems.append(("violation", f"step {idx} {op}: the call is {'accepted' if a_real == 'ok' else 'rejected (raises)'}"
                                                  f" but on the map it is {'accepted' if a_orc == 'ok' else 'rejected'}"))
                    break
                if a_orc == "ok":
                    if op[0] in ("rmedge", "rmnode"):
                        info["removals"] += 1
                    if op[0] in ("addedge", "addedges"):
                        ks = [(frozenset(op[1]), op[2])] if op[0] == "addedge" else [(frozenset(r), l) for r, l in zip(op[1], op[2])]
                        if any(k in seen_keys for k in ks) or len(set(ks)) < len(ks):
                            info["reinserts"] += 1
                    seen_keys |= set(orc.E) | before
            real._agg = None
            snap = real.snapshot()
            for q in digest_queries(case, qrng):
                a_real = real.query(q)
                lines.append(w_q(q))
                real_ans.append(a_real)
                if q[0] not in MODEL_ONLY:
                    a_orc = orc.query(q)
                    if a_real != a_orc:
                        problems.append(("violation", f"after step {idx} {op}: query {q} answers {a_real!r}, the map gives {a_orc!r}"))
            for q in ORACLE_ONLY:
                a_real, a_orc = real.query(q), orc.query(q)
                if a_real != a_orc:
                    problems.append(("violation", f"after step {idx} {op}: aggregate {q[0]} is {a_real!r}, the statement gives {a_orc!r}"))
            if real.snapshot() != snap:
                problems.append(("violation", f"after step {idx} {op}: queries / aggregated_hypergraph / edge_overlap changed the "
                                              f"multiplex hypergraph itself"))
            if problems:
                break
    except Hang:
        problems.append(("violation", "the implementation did not return within 20 s"))
    finally:
        signal.alarm(0)
        signal.signal(signal.SIGALRM, old)
    if problems:
        return problems[0][0], problems[0][1], info
    if drv is not None:
        ans = drv.batch(lines)
        for ln, a, b in zip(lines, ans, real_ans):
            if a != b:
                return "disagree", f"line {ln!r}: model answers {a!r}, implementation {b!r}", info
        info["lines"] = len(lines)
    return None, "", info


def shrink(ctx, drv, case, kind):
    """greedy delta debugging on the operation list (bounded)"""
    best = case
    budget = 150
    changed = True
    while changed and budget > 0:
        changed = False
        ops = best["ops"]
        for i in range(len(ops) - 1, -1, -1):
            if budget <= 0 or (ctx.time_left() is not None and ctx.time_left() < 8):
                return best
            budget -= 1
            cand = dict(best)
            cand["ops"] = ops[:i] + ops[i + 1:]
            k, _, _ = run_case(ctx, drv if kind == "disagree" else None, cand)
            if k == kind:
                best = cand
                changed = True
                break
    if best.get("ctor") is not None and budget > 0:
        cand = dict(best)
        cand["ctor"] = None
        k, _, _ = run_case(ctx, drv if kind == "disagree" else None, cand)
        if k == kind:
            best = cand
    return best


def evaluate(ctx, drv, case, do_shrink=True):
    kind, what, info = run_case(ctx, drv, case)
    key = json.dumps([case["weighted"], case["hm0"], case["ctor"], case["ops"]])
    nontrivial = info["removals"] >= 1 and info["reinserts"] >= 1
    sample = {k: case[k] for k in ("weighted", "labeling", "ops")}
    ctx.case(key, nontrivial, sample=sample if len(case["ops"]) <= 8 else None)
    for k in ("ok", "rej", "removals", "reinserts"):
        ctx.count("ops_" + k, info[k])
    ctx.count("histories_weighted" if case["weighted"] else "histories_unweighted")
    if case["ctor"] is not None:
        ctx.count("histories_via_constructor")
    if kind is None:
        return
    if do_shrink:
        small = shrink(ctx, drv, case, kind)
        k2, what2, _ = run_case(ctx, drv, small)
        if k2 == kind:
            case, what = small, what2
    if kind == "violation":
        ctx.violation(case, what)
    else:
        ctx.disagree(case, what)


# the defects of the unrepaired tree, as fixed regression inputs (replayed first on every run)
SEEDS = [
    {"n": 3, "nl": 2, "weighted": True, "hm0": [], "ctor": None, "pool": [[0, 1], [0, 1, 2]], "labeling": 0, "qseed": 1,
     "ops": [["addedge", [0, 1], 0, 8, None], ["rmedge", [1, 0], 0]]},                                           # D15
    {"n": 3, "nl": 2, "weighted": True, "hm0": [], "ctor": None, "pool": [[0, 1], [0, 1, 2]], "labeling": 2, "qseed": 2,
     "ops": [["addedges", [[0, 1], [0, 1]], [0, 1], [4, 8], None]]},                                             # D16
    {"n": 3, "nl": 2, "weighted": False, "hm0": [], "ctor": None, "pool": [[0, 1]], "labeling": 1, "qseed": 3,
     "ops": [["addedge", [0, 1], 0, None, None]]},                                                               # D17, D18
    {"n": 3, "nl": 2, "weighted": True, "hm0": [], "ctor": None, "pool": [[0, 1, 2], [1, 2]], "labeling": 0, "qseed": 4,
     "ops": [["addedge", [0, 1, 2], 0, 10, [[100, 5]]], ["addedge", [2, 1], 0, 2, None], ["addedge", [0, 1, 2], 1, 6, None],
             ["rmnode", 0, True]]},                                                                              # D41
    {"n": 3, "nl": 2, "weighted": False, "hm0": [], "ctor": None, "pool": [[0, 1]], "labeling": 0, "qseed": 5,
     "ops": [["addnodes", [0, 1, 2], [[0, []], [1, []]]], ["addedges", [[0, 1], [0, 1]], [0, 0], [4, 8], None],
             ["addedges", [[0, 1], [0, 2]], [0], None, None]]},                                                  # D42
    {"n": 3, "nl": 2, "weighted": False, "hm0": [], "ctor": None, "pool": [[0, 1]], "labeling": 3, "qseed": 6,
     "ops": [["addedge", [0, 1], 1, None, None], ["setattre", [1, 0], 1, 100, 5], ["delattre", [0, 1], 1, 100]]},  # D14
]


def run(ctx):
    drv = ctx.driver() if ctx.model_available else None
    for case in SEEDS:
        evaluate(ctx, drv, case, do_shrink=False)
    n = ctx.scale(600, 9000)
    for _ in range(n):
        if ctx.too_many() or (ctx.time_left() is not None and ctx.time_left() < 6):
            break
        evaluate(ctx, drv, gen_case(ctx.rng))


def replay(ctx, case):
    drv = ctx.driver() if ctx.model_available else None
    evaluate(ctx, drv, case, do_shrink=False)
