"""C10 - graph projections / simplicial complex: correspondence of lean/Hgxv/Model/C10.lean with
hypergraphx.representations.{projections,simplicial_complex}, hypergraphx.measures.edge_similarity, and independent
property oracles (the property's words in plain Python) on the implementation's outputs."""
import itertools
import signal
from fractions import Fraction

import hgxv

RULE = ("undirected: (thorough) every set of 1..4 distinct hyperedges (sizes 1-5) over a 5-node universe, all 5 nodes "
        "added (uncovered ones are isolated), hyperedge order shuffled, labels drawn per case from sparse ints / shifted "
        "ints / strings; (both tiers) random hypergraphs with 3-9 nodes, 1-10 hyperedges of size 1-5 with nested and "
        "overlapping hyperedges injected and isolated nodes, 30% of them built through a history with a removed temporary "
        "hyperedge and a removal + re-insertion; quick replaces the exhaustive scopes by random slices of them. directed: (thorough) every set of 1..3 hyperedges with "
        "disjoint non-empty sides over 4 nodes; (both tiers) random ones with sides of size 1-3, some with overlapping "
        "sides, plus a stream with an empty side (correspondence of the ZeroDivisionError only). Every case runs "
        "bipartite, clique (keep_isolated False/True), line graph and directed line graph for intersection s in {1,2,3} "
        "and Jaccard s in {1/4,1/3,1/2,2/3,1}, weighted False/True, the to_line_graph methods, simplicial_complex and "
        "the similarity functions on all pairs. A case is distinct by (labels, node order, hyperedge order); non-trivial "
        "when labels are not 0..N-1 and at least one pair of hyperedges overlaps")
ASSUMPTIONS = ["hyperedges are duplicate-free node tuples, distinct, sizes 1..5 (directed: the Jaccard claims need a "
               "non-empty union, i.e. non-empty sides)",
               "thresholds: integers >= 1 for intersection, fractions in (0,1] for Jaccard (passed to the code as floats)",
               "labels are mapped to their rank in sorted order before they reach the model"]
TRUSTED = ["float division i/u of two small ints is the correctly rounded quotient and rounding is monotone: the code's "
           "`w >= s` on floats agrees with the exact comparison of fractions with denominators <= 10 (weights compared "
           "as float(Fraction(i, u)))",
           "networkx Graph/DiGraph: add_node/add_edge/add_nodes_from store vertices, symmetric (Graph) or one-way "
           "(DiGraph) adjacency and attribute dicts as modelled",
           "itertools.combinations / chain enumerate all index-increasing sub-tuples"]

INT_S = [1, 2, 3]
JAC_S = [Fraction(1, 4), Fraction(1, 3), Fraction(1, 2), Fraction(2, 3), Fraction(1)]


class Timeout(Exception):
    pass


def _alarm(signum, frame):
    raise Timeout()


def guarded(f, *a, **k):
    """run an implementation call; an exception is the observation ("exc", repr)"""
    try:
        return ("ok", f(*a, **k))
    except Timeout:
        raise
    except Exception as e:  # noqa: BLE001
        return ("exc", repr(e)[:200])


# ------------------------------------------------------------------------------------------
# canonical forms

def attr1(d, name):
    """the single attribute `name` of an attribute dict: '-' when absent, ('?', d) when something else is there"""
    d = dict(d)
    if not d:
        return "-"
    if list(d) == [name]:
        return d[name]
    return ("?", repr(d))


def canon_nx(g, directed, vname, vattr="bipartite"):
    """(sorted vertices with attribute, sorted edges with weight)"""
    vs = sorted((vname(v), attr1(a, vattr)) for v, a in g.nodes(data=True))
    es = []
    for u, v, a in g.edges(data=True):
        x, y = vname(u), vname(v)
        if not directed and y < x:
            x, y = y, x
        es.append((x, y, attr1(a, "weight")))
    return vs, sorted(es, key=repr)


def same_num(model, impl):
    """model value (Fraction/int or '-') against implementation value (int/float or '-')"""
    if model == "-" or impl == "-":
        return model == impl
    if isinstance(impl, tuple) or isinstance(impl, bool):
        return False
    try:
        return float(Fraction(model)) == float(impl)
    except Exception:  # noqa: BLE001
        return False


def parse_model_graph(vtxt, atxt, directed, vparse):
    vs = []
    if vtxt != "-":
        for t in vtxt.split(","):
            v, a = t.rsplit(":", 1)
            vs.append((vparse(v), "-" if a == "-" else int(a)))
    adj = {}
    if atxt != "-":
        for t in atxt.split(","):
            uv, a = t.rsplit(":", 1)
            u, v = uv.split("~")
            adj[(vparse(u), vparse(v))] = "-" if a == "-" else hgxv.dec_num(a)
    es = []
    sym_ok = True
    if directed:
        es = [(u, v, a) for (u, v), a in adj.items()]
    else:
        for (u, v), a in adj.items():
            if adj.get((v, u), None) != a:
                sym_ok = False
            if u <= v:
                es.append((u, v, a))
    return sorted(vs), sorted(es, key=repr), sym_ok


def graphs_agree(model, impl):
    mv, me, ok = model
    iv, ie = impl
    if not ok or [v for v, _ in mv] != [v for v, _ in iv] or len(me) != len(ie):
        return False
    if any(not same_num(a, b) for (_, a), (_, b) in zip(mv, iv)):
        return False
    for (u, v, a), (x, y, b) in zip(me, ie):
        if (u, v) != (x, y) or not same_num(a, b):
            return False
    return True


# ------------------------------------------------------------------------------------------
# the property's words

def o_inter(a, b):
    return len(set(a) & set(b))


def o_jacc(a, b):
    return Fraction(len(set(a) & set(b)), len(set(a) | set(b)))


def o_dist(dist, a, b):
    return Fraction(o_inter(a, b)) if dist == "intersection" else o_jacc(a, b)


def weight_is(w, val):
    return not isinstance(w, (str, tuple, bool)) and float(w) == float(val)


def oracle_bipartite(viol, nodes, E, res):
    if res[0] != "ok":
        return viol(f"bipartite_projection raised {res[1]}")
    g, tab = res[1]
    V = list(g.nodes())
    if sorted(map(repr, V)) != sorted(map(repr, tab)) or len(V) != len(nodes) + len(E):
        return viol(f"bipartite: vertices {sorted(map(str, V))}, id table keys {sorted(map(str, tab))}: the table must "
                    f"have exactly the vertices as keys, one per node and one per hyperedge ({len(nodes) + len(E)})")
    vals = list(tab.values())
    nv = [v for v in V if not isinstance(tab[v], tuple)]
    ev = [v for v in V if isinstance(tab[v], tuple)]
    if sorted(map(repr, (tab[v] for v in nv))) != sorted(map(repr, nodes)) or \
            sorted(tuple(sorted(tab[v])) for v in ev) != sorted(E) or len(vals) != len(nodes) + len(E):
        return viol("bipartite: id table does not map the vertices one-to-one onto the nodes and the hyperedges")
    for a in nv:
        for b in ev:
            if g.has_edge(a, b) != (tab[a] in tab[b]):
                return viol(f"bipartite: vertex {a} (node {tab[a]!r}) and vertex {b} (hyperedge {tab[b]!r}) are "
                            f"{'joined' if g.has_edge(a, b) else 'not joined'}")
    if g.number_of_edges() != sum(len(e) for e in E):
        return viol("bipartite: there are edges that do not join a node vertex with a hyperedge vertex")


def oracle_clique(viol, nodes, E, res, keep):
    if res[0] != "ok":
        return viol(f"clique_projection(keep_isolated={keep}) raised {res[1]}")
    g = res[1]
    V = set(g.nodes())
    if not V <= set(nodes):
        return viol(f"clique: vertices {sorted(V - set(nodes), key=repr)} are not nodes")
    if keep and V != set(nodes):
        return viol(f"clique(keep_isolated=True): nodes {sorted(set(nodes) - V, key=repr)} are missing")
    for u in nodes:
        for v in nodes:
            want = u != v and any(u in e and v in e for e in E)
            if g.has_edge(u, v) != want:
                return viol(f"clique(keep_isolated={keep}): {u!r} and {v!r} are {'joined' if not want else 'not joined'}")
    if g.number_of_edges() != sum(1 for u, v in itertools.combinations(nodes, 2) if any(u in e and v in e for e in E)):
        return viol("clique: edges outside the node set")


def oracle_line(viol, E, res, dist, s, weighted, directed):
    name = ("directed_line_graph" if directed else "line_graph") + f"({dist}, s={s}, weighted={weighted})"
    if res[0] != "ok":
        return viol(f"{name} raised {res[1]}")
    g, tab = res[1]
    m = len(E)
    if set(g.nodes()) != set(range(m)) or set(tab) != set(range(m)) or len(tab) != m:
        return viol(f"{name}: vertices {sorted(g.nodes(), key=repr)} / id table keys {sorted(tab, key=repr)}, "
                    f"expected one vertex per hyperedge 0..{m - 1}")
    canon = (lambda e: (tuple(sorted(e[0])), tuple(sorted(e[1])))) if directed else (lambda e: tuple(sorted(e)))
    if sorted(canon(tab[i]) for i in range(m)) != sorted(E):
        return viol(f"{name}: the id table does not list the hyperedges one-to-one")
    for i in range(m):
        for j in range(m):
            if directed:
                val = o_dist(dist, tab[i][1], tab[j][0])
            else:
                val = o_dist(dist, tab[i], tab[j])
            want = i != j and val >= s
            if g.has_edge(i, j) != want:
                return viol(f"{name}: {tab[i]!r} -> {tab[j]!r} with value {val} is "
                            f"{'joined' if not want else 'not joined'}")
            if want and weighted and not weight_is(g[i][j].get("weight", "-"), val):
                return viol(f"{name}: weight of {tab[i]!r} -> {tab[j]!r} is {g[i][j].get('weight', '-')!r}, "
                            f"value is {val}")
    if g.number_of_edges() != sum(1 for i in range(m) for j in range(m) if (directed or i < j) and g.has_edge(i, j) and i != j):
        return viol(f"{name}: self-loops or edges outside 0..{m - 1}")


def oracle_simplicial(viol, E, res):
    if res[0] != "ok":
        return viol(f"simplicial_complex raised {res[1]}")
    got = res[1]
    if len(set(got)) != len(got):
        return viol("simplicial_complex lists a hyperedge twice")
    S = set(got)
    for e in E:
        for r in range(1, len(e) + 1):
            for sub in itertools.combinations(e, r):
                if tuple(sorted(sub)) not in S:
                    return viol(f"simplicial_complex lacks the subset {tuple(sorted(sub))!r} of hyperedge {e!r}")
    for k in S:
        if len(k) > 0 and not any(set(k) <= set(e) for e in E):
            return viol(f"simplicial_complex contains {k!r}, which is below no hyperedge")


# ------------------------------------------------------------------------------------------
# one case

def thresholds():
    for s in INT_S:
        yield "intersection", "i", s, s
    for s in JAC_S:
        yield "jaccard", "j", s, float(s)


def check_undirected(ctx, drv, case):
    from hypergraphx import Hypergraph
    from hypergraphx.representations import projections as P
    from hypergraphx.representations.simplicial_complex import simplicial_complex
    from hypergraphx.measures import edge_similarity as ES
    nodes_in = list(case["nodes"])
    edges_in = [tuple(e) for e in case["edges"]]
    h = Hypergraph()
    h.add_nodes(nodes_in)
    det = case.get("detour")
    if det:
        # same final content through a history with a removed temporary hyperedge and a removal + re-insertion
        # (edge ids get gaps, the re-inserted hyperedge moves to the end of every listing)
        h.add_edge(tuple(det["temp"]))
        h.add_edges(edges_in)
        h.remove_edge(tuple(det["temp"]))
        e = edges_in[det["readd"]]
        h.remove_edge(e)
        h.add_edge(e)
        ctx.count("built_through_detour")
    else:
        h.add_edges(edges_in)
    nodes = list(h.get_nodes())
    E = [tuple(sorted(e)) for e in h.get_edges()]
    rank = {x: i for i, x in enumerate(sorted(set(nodes)))}
    unrank = {i: x for x, i in rank.items()}

    def viol(what):
        ctx.violation(case, what)

    lines = ["load " + hgxv.enc_list([rank[x] for x in nodes]) + " " + hgxv.enc_lists([[rank[x] for x in e] for e in E])]
    expect = [("plain", "ok")]

    # bipartite
    res = guarded(P.bipartite_projection, h)
    oracle_bipartite(viol, nodes, E, res)
    lines.append("bip")
    if res[0] == "ok":
        g, tab = res[1]
        t = sorted((str(k), ("e",) + tuple(rank.get(x, -1) for x in v) if isinstance(v, tuple) else ("n", rank.get(v, -1)))
                   for k, v in tab.items())
        expect.append(("bip", canon_nx(g, False, str), t))
    else:
        expect.append(("exc",))
    # clique
    for keep in (False, True):
        res = guarded(P.clique_projection, h, keep_isolated=keep)
        oracle_clique(viol, nodes, E, res, keep)
        lines.append(f"clique {int(keep)}")
        expect.append(("graph", canon_nx(res[1], False, lambda v: rank.get(v, -1)), False) if res[0] == "ok" else ("exc",))
    # line graph
    for dist, dcode, s, s_arg in thresholds():
        for weighted in (False, True):
            res = guarded(P.line_graph, h, distance=dist, s=s_arg, weighted=weighted)
            oracle_line(viol, E, res, dist, s, weighted, False)
            lines.append(f"line {dcode} {hgxv.enc_num(s)} {int(weighted)}")
            if res[0] == "ok":
                g, tab = res[1]
                expect.append(("line", canon_nx(g, False, lambda v: v if isinstance(v, int) else -1), False,
                               [[rank.get(x, -1) for x in tab.get(i, ())] for i in range(len(tab))]))
            else:
                expect.append(("exc",))
    # the method is the function
    res_m = guarded(h.to_line_graph, "jaccard", 0.5, True)
    res_f = guarded(P.line_graph, h, "jaccard", 0.5, True)
    if res_m[0] != res_f[0] or (res_m[0] == "ok" and (
            canon_nx(res_m[1][0], False, repr) != canon_nx(res_f[1][0], False, repr) or res_m[1][1] != res_f[1][1])):
        viol("Hypergraph.to_line_graph('jaccard', 0.5, True) differs from line_graph(h, 'jaccard', 0.5, True)")
    # simplicial complex
    res = guarded(lambda: [tuple(sorted(e)) for e in simplicial_complex(h).get_edges()])
    oracle_simplicial(viol, E, res)
    lines.append("simp")
    expect.append(("simp", sorted([rank.get(x, -1) for x in e] for e in res[1])) if res[0] == "ok" else ("exc",))
    # similarity functions on all pairs of hyperedges
    for a, b in itertools.combinations_with_replacement(E[:5], 2):
        ri = guarded(ES.intersection, set(a), set(b))
        rj = guarded(ES.jaccard_similarity, set(a), set(b))
        rd = guarded(ES.jaccard_distance, set(a), set(b))
        if ri != ("ok", o_inter(a, b)):
            viol(f"intersection({a!r}, {b!r}) = {ri[1]!r}")
        if rj[0] != "ok" or float(rj[1]) != float(o_jacc(a, b)):
            viol(f"jaccard_similarity({a!r}, {b!r}) = {rj[1]!r}, definition gives {o_jacc(a, b)}")
        if rd[0] != "ok" or abs(float(rd[1]) - float(1 - o_jacc(a, b))) > 1e-12:
            viol(f"jaccard_distance({a!r}, {b!r}) = {rd[1]!r}, definition gives {1 - o_jacc(a, b)}")
        lines.append("sim " + hgxv.enc_list([rank[x] for x in a]) + " " + hgxv.enc_list([rank[x] for x in b]))
        expect.append(("sim", ri, rj, rd))

    overlapping = any(set(a) & set(b) for a, b in itertools.combinations(E, 2))
    nontrivial = overlapping and sorted(nodes, key=repr) != sorted(range(len(nodes)), key=repr)
    ctx.case(repr((nodes, E)), nontrivial, sample=case)
    ctx.count("undirected_cases")
    ctx.count("hyperedges_%d" % min(len(E), 6))
    if len(nodes) > len({x for e in E for x in e}):
        ctx.count("with_isolated_nodes")
    if any(set(a) < set(b) or set(b) < set(a) for a, b in itertools.combinations(E, 2)):
        ctx.count("with_nested_hyperedges")
    if nodes and isinstance(nodes[0], str):
        ctx.count("string_labels")
    compare(ctx, drv, case, lines, expect)


def check_directed(ctx, drv, case):
    from hypergraphx import DirectedHypergraph
    from hypergraphx.representations import projections as P
    nodes_in = list(case["nodes"])
    edges_in = [(tuple(e[0]), tuple(e[1])) for e in case["edges"]]
    h = DirectedHypergraph()
    for x in nodes_in:
        h.add_node(x)
    det = case.get("detour")
    if det and edges_in:
        # same final content through a history with a removed temporary hyperedge and a removal + re-insertion
        # (internal edge ids get gaps, the re-inserted hyperedge moves to the end of every listing)
        temp = (tuple(det["temp"][0]), tuple(det["temp"][1]))
        h.add_edge(temp)
        h.add_edges(edges_in)
        h.remove_edge(temp)
        e = edges_in[det["readd"] % len(edges_in)]
        h.remove_edge(e)
        h.add_edge(e)
        ctx.count("directed_built_through_detour")
    else:
        h.add_edges(edges_in)
    E = [(tuple(sorted(e[0])), tuple(sorted(e[1]))) for e in h.get_edges()]
    nodes = list(h.get_nodes())
    rank = {x: i for i, x in enumerate(sorted(set(nodes)))}
    empty_side = any(len(e[0]) == 0 or len(e[1]) == 0 for e in E)

    def viol(what):
        ctx.violation(case, what)

    lines = ["dload " + hgxv.enc_lists([[rank[x] for x in e[0]] for e in E]) + " "
             + hgxv.enc_lists([[rank[x] for x in e[1]] for e in E])]
    expect = [("plain", "ok")]
    for dist, dcode, s, s_arg in thresholds():
        for weighted in (False, True):
            res = guarded(P.directed_line_graph, h, distance=dist, s=s_arg, weighted=weighted)
            if not (empty_side and dist == "jaccard"):
                # with an empty side the Jaccard value of two empty sets is undefined: only the correspondence is checked
                oracle_line(viol, E, res, dist, s, weighted, True)
            lines.append(f"dline {dcode} {hgxv.enc_num(s)} {int(weighted)}")
            if res[0] == "ok":
                g, tab = res[1]
                expect.append(("line", canon_nx(g, True, lambda v: v if isinstance(v, int) else -1), True,
                               [[[rank.get(x, -1) for x in tab.get(i, ((), ()))[side]] for i in range(len(tab))]
                                for side in (0, 1)]))
            else:
                expect.append(("exc",))
    if not empty_side:
        res_m = guarded(h.to_line_graph, "jaccard", 0.5, True)
        res_f = guarded(P.directed_line_graph, h, "jaccard", 0.5, True)
        if res_m[0] != res_f[0] or (res_m[0] == "ok" and (
                canon_nx(res_m[1][0], True, repr) != canon_nx(res_f[1][0], True, repr) or res_m[1][1] != res_f[1][1])):
            viol("DirectedHypergraph.to_line_graph('jaccard', 0.5, True) differs from directed_line_graph")
    overlapping = any(set(a[1]) & set(b[0]) for a in E for b in E if a != b)
    nontrivial = overlapping and sorted(nodes, key=repr) != sorted(range(len(nodes)), key=repr)
    ctx.case(repr(("d", nodes, E)), nontrivial, sample=case)
    ctx.count("directed_cases")
    if empty_side:
        ctx.count("directed_with_empty_side")
    compare(ctx, drv, case, lines, expect)


def compare(ctx, drv, case, lines, expect):
    if drv is None:
        return
    ans = drv.batch(lines)
    for ln, a, ex in zip(lines, ans, expect):
        ok = False
        try:
            kind = ex[0]
            if kind == "plain":
                ok = a == ex[1]
            elif kind == "exc":
                ok = a == "exc"
            elif a in ("exc", "bad-op"):
                ok = False
            elif kind == "bip":
                v, adj, tab = a.split(" ")
                mt = []
                if tab != "-":
                    for t in tab.split(","):
                        k, o = t.split("=")
                        mt.append((k, ("n", int(o[1:])) if o[0] == "n" else
                                   ("e",) + tuple(int(x) for x in o[1:].split(".") if x != "_")))
                ok = graphs_agree(parse_model_graph(v, adj, False, str), ex[1]) and sorted(mt) == ex[2]
            elif kind == "graph":
                v, adj = a.split(" ")
                ok = graphs_agree(parse_model_graph(v, adj, ex[2], int), ex[1])
            elif kind == "line":
                parts = a.split(" ")
                v, adj, tab = parts[0], parts[1], parts[2]
                if ex[2]:
                    src, tgt = tab.split("|")
                    mtab = [hgxv.dec_lists(src), hgxv.dec_lists(tgt)]
                else:
                    mtab = hgxv.dec_lists(tab)
                ok = graphs_agree(parse_model_graph(v, adj, ex[2], int), ex[1]) and mtab == ex[3]
            elif kind == "simp":
                ok = hgxv.dec_lists(a) == ex[1]
            elif kind == "sim":
                mi, mj, md = a.split(" ")
                ri, rj, rd = ex[1], ex[2], ex[3]
                ok = (ri[0] == "ok" and not isinstance(ri[1], bool) and ri[1] == int(mi))
                for m, r, tol in ((mj, rj, 0.0), (md, rd, 1e-12)):
                    if m == "exc" or r[0] != "ok":
                        ok = ok and m == "exc" and r[0] != "ok"
                    else:
                        ok = ok and abs(float(Fraction(hgxv.dec_num(m))) - float(r[1])) <= tol
        except Exception as e:  # noqa: BLE001
            ok = False
            a = f"{a!r} (unparsable: {e!r})"
        if not ok:
            ctx.disagree({**case, "line": ln}, f"model answers {str(a)[:300]!r} to {ln!r}, implementation gives {str(ex)[:400]}")
            return


def check_case(ctx, drv, case):
    old = signal.signal(signal.SIGALRM, _alarm)
    signal.alarm(20)
    try:
        if case.get("kind") == "d":
            check_directed(ctx, drv, case)
        else:
            check_undirected(ctx, drv, case)
    except Timeout:
        ctx.violation(case, "the projection routines did not return within 20 s on this input")
    except RuntimeError:
        raise                      # the Lean driver died: tool failure
    except Exception as e:  # noqa: BLE001
        # the unchanged tree never gets here (seeds 0-4, thorough); outputs of an unexpected shape do
        ctx.violation(case, f"the outputs could not be examined as graphs / id tables / hyperedge lists: {e!r}"[:300])
    finally:
        signal.alarm(0)
        signal.signal(signal.SIGALRM, old)


# ------------------------------------------------------------------------------------------
# generators

def label_pool(rng, n):
    r = rng.random()
    if r < 0.3:
        pool = [chr(97 + i) * k for i in range(12) for k in (1, 2)] + ["E0", "E1", "N0", "N1"]
        return rng.sample(pool, n)
    if r < 0.5:
        off = rng.randint(1, 50)
        return rng.sample(range(off, off + n), n)
    if r < 0.6:
        return rng.sample(range(n), n)
    return rng.sample(range(0, 60), n)


def gen_undirected(rng):
    n = rng.randint(3, 9)
    labels = label_pool(rng, n)
    edges = []
    for _ in range(rng.randint(1, 10)):
        size = min(n, rng.choice([1, 2, 2, 3, 3, 4, 5]))
        e = tuple(rng.sample(labels, size))
        edges.append(e)
        r = rng.random()
        if r < 0.25 and size > 1:
            edges.append(tuple(rng.sample(e, rng.randint(1, size - 1))))          # nested
        elif r < 0.5:
            extra = [x for x in labels if x not in e]
            keep = rng.sample(e, rng.randint(1, size))
            add = rng.sample(extra, min(len(extra), rng.randint(0, 2)))
            if 1 <= len(keep) + len(add) <= 5:
                edges.append(tuple(keep + add))                                    # overlapping
    seen, out = set(), []
    for e in edges:
        if frozenset(e) not in seen:
            seen.add(frozenset(e))
            out.append(e)
    covered = [x for x in labels if any(x in e for e in out)]
    iso = [x for x in labels if x not in covered and rng.random() < 0.7]
    nodes = [x for x in labels if x in covered and rng.random() < 0.5] + iso
    rng.shuffle(nodes)
    case = {"kind": "u", "nodes": nodes, "edges": out}
    if out and rng.random() < 0.3:
        have = {frozenset(e) for e in out}
        temp = tuple(rng.sample(labels, min(n, rng.randint(1, 4))))
        if frozenset(temp) not in have:
            case["detour"] = {"temp": list(temp), "readd": rng.randrange(len(out))}
    return case


def gen_directed(rng, empty_side=False):
    n = rng.randint(3, 8)
    labels = label_pool(rng, n)
    edges = []
    for _ in range(rng.randint(1, 8)):
        a = rng.randint(0 if empty_side and rng.random() < 0.4 else 1, 3)
        b = rng.randint(0 if empty_side and rng.random() < 0.4 else 1, 3)
        if a + b == 0:
            a = 1
        if rng.random() < 0.1:
            src, tgt = rng.sample(labels, min(a, n)), rng.sample(labels, min(b, n))  # sides may overlap
        else:
            pick = rng.sample(labels, min(n, a + b))
            src, tgt = pick[:a], pick[a:]
            if not tgt and b > 0:
                src, tgt = pick[:-1], pick[-1:]
        edges.append((tuple(src), tuple(tgt)))
        if rng.random() < 0.4 and edges:
            f = rng.choice(edges)
            if f[1]:
                extra = rng.sample(labels, rng.randint(0, 1))
                src2 = tuple(dict.fromkeys(list(rng.sample(f[1], rng.randint(1, len(f[1])))) + extra))
                tgt2 = tuple(x for x in rng.sample(labels, rng.randint(1, 2)) if x not in src2)
                if tgt2 or empty_side:
                    edges.append((src2, tgt2))
    seen, out = set(), []
    for e in edges:
        k = (frozenset(e[0]), frozenset(e[1]))
        if k not in seen:
            seen.add(k)
            out.append(e)
    iso = [x for x in labels if rng.random() < 0.2]
    case = {"kind": "d", "nodes": iso, "edges": out}
    if out and rng.random() < 0.3:
        # a temporary hyperedge that is not part of the final content (its nodes stay, as isolated nodes or not)
        for _ in range(5):
            a, b = rng.sample(labels, 2)
            if (frozenset([a]), frozenset([b])) not in seen:
                case["detour"] = {"temp": [[a], [b]], "readd": rng.randrange(len(out))}
                break
    return case


def relabel(rng, k):
    """labels for an abstract universe 0..k-1"""
    return label_pool(rng, k)


def small_undirected(rng, universe=5, max_edges=4):
    subsets = [c for r in range(1, universe + 1) for c in itertools.combinations(range(universe), r)]
    for m in range(1, max_edges + 1):
        for combo in itertools.combinations(subsets, m):
            yield combo


def small_directed(universe=4, max_edges=3):
    des = []
    for assign in itertools.product((0, 1, 2), repeat=universe):
        s = tuple(i for i in range(universe) if assign[i] == 1)
        t = tuple(i for i in range(universe) if assign[i] == 2)
        if s and t:
            des.append((s, t))
    for m in range(1, max_edges + 1):
        for combo in itertools.combinations(des, m):
            yield combo


def instantiate(rng, combo, universe, directed):
    lab = relabel(rng, universe)
    lab_sorted = sorted(lab)          # keep the abstract order so that every abstract case is a distinct concrete one
    combo = list(combo)
    rng.shuffle(combo)
    if directed:
        edges = [(tuple(rng.sample([lab_sorted[i] for i in e[0]], len(e[0]))),
                  tuple(rng.sample([lab_sorted[i] for i in e[1]], len(e[1])))) for e in combo]
        return {"kind": "d", "nodes": rng.sample(lab_sorted, universe), "edges": edges}
    edges = [tuple(rng.sample([lab_sorted[i] for i in e], len(e))) for e in combo]
    return {"kind": "u", "nodes": rng.sample(lab_sorted, universe), "edges": edges}


def low(ctx, reserve=5):
    return ctx.too_many() or (ctx.time_left() is not None and ctx.time_left() < reserve)


def run(ctx):
    drv = ctx.driver() if ctx.model_available else None
    rng = ctx.rng
    thorough = ctx.tier == "thorough"
    # fixed corner cases
    for case in [{"kind": "u", "nodes": [], "edges": []},
                 {"kind": "u", "nodes": [7, 3], "edges": []},
                 {"kind": "u", "nodes": [], "edges": [(5,)]},
                 {"kind": "u", "nodes": ["b"], "edges": [("c", "a"), ("a",), ("c",)]},
                 {"kind": "d", "nodes": [], "edges": []},
                 {"kind": "d", "nodes": [4], "edges": [((2,), (1,))]}]:
        check_case(ctx, drv, case)
    # random larger inputs
    for _ in range(ctx.scale(400, 1500)):
        if low(ctx):
            break
        check_case(ctx, drv, gen_undirected(rng))
    for i in range(ctx.scale(280, 1200)):
        if low(ctx):
            break
        check_case(ctx, drv, gen_directed(rng, empty_side=(i % 8 == 7)))
    # small scope: exhaustive in thorough, a random slice in quick
    if thorough:
        it_u = small_undirected(rng)
        it_d = small_directed()
    else:
        all_u = list(small_undirected(rng, 5, 3))
        it_u = rng.sample(all_u, 350)
        all_d = list(small_directed(4, 2))
        it_d = rng.sample(all_d, 200)
    done_u = done_d = 0
    for combo in it_d:
        if low(ctx, 120 if thorough else 5):
            break
        check_case(ctx, drv, instantiate(rng, combo, 4, True))
        done_d += 1
    for combo in it_u:
        if low(ctx, 20 if thorough else 5):
            break
        check_case(ctx, drv, instantiate(rng, combo, 5, False))
        done_u += 1
    ctx.extra["small_scope_undirected_done"] = done_u
    ctx.extra["small_scope_directed_done"] = done_d
    if thorough:
        ctx.extra["small_scope_undirected_total"] = 36456
        ctx.extra["small_scope_directed_total"] = 20875


def replay(ctx, case):
    drv = ctx.driver() if ctx.model_available else None
    case = dict(case)
    case.pop("line", None)
    if case.get("kind") == "d":
        case["edges"] = [(tuple(e[0]), tuple(e[1])) for e in case["edges"]]
    else:
        case["edges"] = [tuple(e) for e in case["edges"]]
    check_case(ctx, drv, case)
