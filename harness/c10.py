"""C10 - graph projections / simplicial complex: correspondence of lean/Hgxv/Model/C10.lean with
hypergraphx.representations.{projections,simplicial_complex}, hypergraphx.measures.edge_similarity, and independent
property oracles (the property's words in plain Python) on the implementation's outputs.

"For every hypergraph" = every object a user can hold.  A case is a small PROGRAM over up to three named objects
(`prog`: construction, insertions, removals of hyperedges and nodes, `copy()`, `subhypergraph`, `clear()` and
`project X` steps); every `project` step runs all projections on the object as it is at that moment and checks them
against the content the history must have produced (tracked independently in plain Python).

Node labels are OBJECTS of any hashable type (ints, floats, bools, Fractions, numpy scalars, strings, bytes, tuples, nested
tuples, frozensets).  A program holds ENCODED labels (JSON: ints and strings as they are, everything else as a one-key dict,
see `enc` / `dec`); every use of a label in every call decodes it anew, so the implementation never sees the same label
object twice, and one label may be presented by equal objects of different types (1, 1.0, True, Fraction(1), np.int64(1)).
The harness itself never applies Python's `<` to labels: all its sorting goes through the total order `okey`, which agrees
with Python's order wherever the implementation may sort (labels that share a hyperedge / a side)."""
import copy
import itertools
import json
import math
import os
import pickle
import random
import re
import signal
import tempfile
from collections import Counter
from fractions import Fraction

import numpy as np

import hgxv

RULE = ("a case is a program over up to 3 objects of one class (Hypergraph or DirectedHypergraph, 15% weighted): "
        "construction (add_nodes+add_edges / constructor with edge_list / add_edge one by one / detour with a removed "
        "temporary hyperedge and a removal + re-insertion), then by route: plain (one projection); 'copy' (B = A.copy(), "
        "or another derivation, B edited starting with a removal, A and B projected - A is the ORIGINAL of an edited "
        "copy); 'copied' (A = O.copy() or another content-preserving derivation, O edited, A and O projected - A is "
        "the COPY of an edited original); 'reproject' (A projected, edited in place - one hyperedge replaced by another "
        "of the same shape so that node and hyperedge counts stay, or only an isolated node added / removed - and "
        "projected again: stale caches); 'events' (1-5 random events among derive [copy(), copy.deepcopy, pickle round "
        "trip, save_hypergraph(binary=True) + load_hypergraph, subhypergraph(all / some nodes), get_edges(size=k, subhypergraph=True)], edit [remove_edge(s), "
        "add_edge(s), replace, re-insert, insert an existing hyperedge again, temporary hyperedge, add_node, "
        "remove_node(s) with keep_edges False/True (also where it leaves the node-less hyperedge () in the list), clear, "
        "add_empty_edge (a record in the registry of node-less hyperedges; sometimes the same name once more = a "
        "rejected call)] and project, then every live object is projected); 'hif' (the object is read with read_hif from "
        "a generated HIF document - nodes renumbered, edge records without incidences filed in the registry, isolated "
        "nodes, node / edge / incidence metadata - and then goes through 0-5 events); 15% of the undirected objects get "
        "1-2 registered node-less hyperedges right after construction. Contents: undirected: (thorough) every set of 1..4 distinct hyperedges "
        "(sizes 1-5) over a 5-node universe, all 5 nodes added (uncovered ones are isolated), hyperedge order shuffled, "
        "reached by route plain/detour/copy/copied/reproject so that the projected object ends with exactly that "
        "content (15%: plus a node labelled by the tuple of one of the hyperedges); (both tiers) random hypergraphs with 3-9 nodes, 1-10 hyperedges of size 1-5 with nested and "
        "overlapping hyperedges injected and isolated nodes (3% larger: 11-15 nodes, 10-16+ hyperedges). LABELS per case: a universe of 1-5 GROUPS of "
        "mutually comparable labels; every hyperedge (directed: every side) takes its nodes from one group, so that labels "
        "which Python cannot compare never share a hyperedge (they are isolated nodes or live in other components). "
        "One-group universes (65%): sparse / shifted / negative and huge ints / 0..n-1, strings (incl. '', 'E0', 'N1', 'E', "
        "'N10', '0'), tuples of ints, tuples of strings, chains of frozensets, numbers of mixed type (ints, non-integral "
        "floats, inf, > 2^53), bytes. Several groups (35%): a base group of small ints (= edge ids) or vertex-name-like "
        "strings, TUPLE labels over the base group that are exactly the node tuples of hyperedges which are then inserted "
        "(label == hyperedge tuple; directed: label == a side, label == the (source, target) pair) next to unsorted and "
        "empty tuples, nested tuples equal to hyperedges made of tuple-labelled nodes, frozenset chains, labels of the other "
        "scalar type, bytes, floats. Every label of every call is a freshly built equal object; in 40% of the cases equal "
        "objects of OTHER types are mixed in (1 / 1.0 / True, Fraction, numpy int64 / float64 / str_); "
        "quick replaces the exhaustive scopes by random slices. "
        "directed: (thorough) every set of 1..3 hyperedges with disjoint non-empty sides over 4 nodes; (both tiers) "
        "random ones with sides of size 1-3, some with overlapping sides, plus a stream with an empty side "
        "(correspondence of the ZeroDivisionError only). Every project step runs bipartite, clique (keep_isolated "
        "False/True), line graph and directed line graph for intersection s in {1,2,3} and Jaccard s in "
        "{1/4,1/3,1/2,2/3,1} plus one more threshold per object (4, 5, 6, 1.0, 2.0 or another achievable ratio) plus, per "
        "distance, 3 thresholds NEAR a similarity value (85%: a value that occurs between two overlapping hyperedges of the "
        "object at hand): exactly on it, 1-3 ulps below / above it, or off by a relative 1e-15 ... 1e-3 in either "
        "direction, handed in as float, numpy float64, the equal exact Fraction or (integral ones) int / numpy int64; "
        "4%: a tiny positive Jaccard threshold (5e-324, 1e-300, 1e-12); weighted "
        "False/True (every returned graph / id table is scribbled on after examination: a later call must not hand "
        "out the same objects), the to_line_graph methods (given and default arguments), "
        "simplicial_complex and the similarity functions on all pairs; the table of get_incident_edges of the real "
        "object goes to the Lean driver (incidentOK = hypotheses of C10_line_checked_incident_table; the model's "
        "line graph is computed from that table). Extension round, on every projected object, model against implementation "
        "only (outside the property's words, no oracle): degrees of all vertices of the bipartite graph and of both clique "
        "projections in the graph's own vertex order (g.degree()); the binary incidence matrix B and its Gram matrices "
        "B.B^T, B^T.B read off the real bipartite graph (adjacency / numbers of common neighbours) - plus two cross "
        "oracles: clique_projection(keep_isolated=True) = off-diagonal support of that B.B^T, weighted intersection "
        "line_graph(s=1) = off-diagonal part of that B^T.B; line_graph / directed_line_graph with distance='cosine' "
        "(TypeError exactly when a pair is evaluated) and with one threshold s <= 0 (0, -1, -2.5 / 0, 0.0, -0.5, -3). "
        "One evaluated case = one project step, distinct by (labels, node "
        "order, hyperedge order, kind of history); non-trivial when labels are not 0..N-1 and at least one pair of "
        "hyperedges overlaps")
ASSUMPTIONS = ["hyperedges are duplicate-free node tuples, distinct, sizes 1..5 (directed: the Jaccard claims need a "
               "non-empty union, i.e. non-empty sides)",
               "thresholds: positive numbers (the property's integers >= 1 for intersection and (0,1] for Jaccard, and the "
               "floats a few ulps / a relative 1e-15..1e-3 around the similarity values); `at least s` is read on numbers, "
               "without tolerance: the intersection size is an integer, the Jaccard similarity is the float quotient that "
               "edge_similarity.jaccard_similarity returns, the threshold is the number the argument is (a float is a "
               "dyadic rational)",
               "labels are hashable and the labels of one hyperedge (directed: of one side) are mutually comparable and "
               "totally ordered by Python's `<` (the containers store tuple(sorted(.))): numbers of any type with "
               "numbers, strings with strings, bytes with bytes, tuples with tuples of the same make, frozensets only in "
               "chains; None is no label (networkx refuses it); NaN is no label (it is not equal to itself)",
               "labels are mapped to their rank in the total order `okey` (numbers < strings < bytes < tuples < frozensets, "
               "inside a class as Python orders them) before they reach the model",
               "the content an object must have after a history (add/remove of nodes and hyperedges, copy, "
               "subhypergraph, clear) is tracked by a plain-Python set model of the documented container semantics; "
               "a record of add_empty_edge / read_hif's edge records without incidences are not hyperedges (get_edges() "
               "does not list them); remove_node(keep_edges=True) of the only node of a hyperedge leaves the hyperedge () "
               "in the list, which then is a hyperedge like any other (vertex of its own, joined to nothing); directed "
               "histories avoid remove_node of a node that is on both sides of one hyperedge; read_hif numbers the nodes "
               "in the order of first occurrence (incidence table, then node table)"]
TRUSTED = ["float division i/u of two small ints is the correctly rounded quotient and rounding is monotone: the code's "
           "`w >= s` on floats agrees with the exact comparison `i/u >= p/q` when s is the float of a ratio p/q with "
           "q <= 12, and with `i/u >= s` (s as the exact dyadic rational) for every other float s - this is how a float "
           "threshold is handed to the model (`model_threshold`); the oracle compares float(Fraction(i, u)) with s as "
           "numbers (weights compared as float(Fraction(i, u)))",
           "networkx Graph/DiGraph: add_node/add_edge/add_nodes_from store vertices, symmetric (Graph) or one-way "
           "(DiGraph) adjacency and attribute dicts as modelled; g.degree(v) of a loop-free graph = number of adjacent "
           "vertices, g.degree() / g.nodes iterate in insertion order",
           "itertools.combinations / chain enumerate all index-increasing sub-tuples",
           "Python's hash / == of numbers of different types (1 == 1.0 == True == Fraction(1) == np.int64(1)) and of "
           "tuples / frozensets built from them; sorted() on mutually comparable labels"]

INT_S = [1, 2, 3]
JAC_S = [Fraction(1, 4), Fraction(1, 3), Fraction(1, 2), Fraction(2, 3), Fraction(1)]
# one more threshold per projected object, drawn from these (integers given as int or float, other achievable ratios)
EXTRA_S = [("intersection", "i", Fraction(4), 4), ("intersection", "i", Fraction(5), 5), ("intersection", "i", Fraction(2), 2.0),
           ("intersection", "i", Fraction(1), 1.0), ("intersection", "i", Fraction(6), 6)] + \
          [("jaccard", "j", Fraction(a, b), a / b) for a, b in ((3, 4), (1, 5), (2, 5), (3, 5), (4, 5), (1, 6), (5, 6),
                                                             (2, 7), (3, 8), (1, 10), (9, 10))]


class Timeout(Exception):
    pass


def _alarm(signum, frame):
    raise Timeout()


def guarded(f, *a, **k):
    """run an implementation call; an exception is the observation ("exc", repr)"""
    try:
        return ("ok", f(*a, **k))
    except Timeout:
        raise
    except Exception as e:  # noqa: BLE001
        return ("exc", repr(e)[:200])


# ------------------------------------------------------------------------------------------
# labels: total order, encoding, fresh equal objects

def okey(x):
    """total order on labels (and on tuples of labels = hyperedges); agrees with Python's `<` on numbers, on strings,
    on bytes, on tuples of such and on chains of frozensets; never raises"""
    if isinstance(x, str):
        return (1, str(x))
    if isinstance(x, bytes):
        return (2, x)
    if isinstance(x, (tuple, list)):
        return (3, tuple(okey(y) for y in x))
    if isinstance(x, (frozenset, set)):
        return (4, len(x), tuple(sorted(okey(y) for y in x)))
    if isinstance(x, np.generic):
        x = x.item()
    if isinstance(x, (int, float, Fraction)) and x == x:
        return (0, x)
    return (9, repr(x))


def osorted(xs):
    return sorted(xs, key=okey)


def stable(x):
    """text that identifies a listing of labels / hyperedges, the same in every process (no set order, no hash seed)"""
    return repr(okey(x))


def enc(x):
    """the JSON form of a label"""
    if isinstance(x, (bool, np.bool_)):
        return {"b": int(x)}
    if isinstance(x, np.integer):
        return {"i64": int(x)}
    if isinstance(x, np.floating):
        return {"f64": repr(float(x))}
    if isinstance(x, np.str_):
        return {"u": str(x)}
    if isinstance(x, (int, str)):
        return x
    if isinstance(x, float):
        return {"x": repr(x)}
    if isinstance(x, Fraction):
        return {"q": [x.numerator, x.denominator]}
    if isinstance(x, bytes):
        return {"y": x.decode("latin1")}
    if isinstance(x, tuple):
        return {"t": [enc(y) for y in x]}
    if isinstance(x, frozenset):
        return {"s": [enc(y) for y in osorted(x)]}
    raise TypeError(f"no label: {x!r}")


def dec(j):
    """a FRESHLY built Python object for an encoded label (ints beyond the small-int cache, run-time strings, new tuples)"""
    if isinstance(j, bool):
        return j
    if isinstance(j, int):
        return int(str(j))
    if isinstance(j, str):
        return "".join(list(j)) if len(j) > 1 else j
    if isinstance(j, float):
        return float(repr(j))
    if isinstance(j, dict) and len(j) == 1:
        (k, v), = j.items()
        if k == "t":
            return tuple(dec(y) for y in v)
        if k == "s":
            return frozenset(dec(y) for y in v)
        if k == "x":
            return float(v)
        if k == "b":
            return bool(v)
        if k == "q":
            return Fraction(int(v[0]), int(v[1]))
        if k == "y":
            return v.encode("latin1")
        if k == "i64":
            return np.int64(v)
        if k == "f64":
            return np.float64(float(v))
        if k == "u":
            return np.str_(v)
    raise ValueError(f"not an encoded label: {j!r}")


def present(rng, x, alts):
    """encoding of an object equal to the label x (same hash): for the kinds listed in `alts` sometimes an object of
    ANOTHER type (1 -> 1.0 / True / Fraction(1) / np.int64(1), 'a' -> np.str_('a'), 2.5 -> Fraction(5, 2)); members of
    frozensets in another order"""
    if isinstance(x, tuple):
        return {"t": [present(rng, y, alts) for y in x]}
    if isinstance(x, frozenset):
        ys = osorted(x)
        rng.shuffle(ys)
        return {"s": [present(rng, y, alts) for y in ys]}
    if alts and rng.random() < 0.4:
        if isinstance(x, str):
            if "np" in alts:
                return {"u": x}
        elif isinstance(x, (int, float)) and not isinstance(x, bool):
            opts = []
            finite = x not in (float("inf"), -float("inf"))
            integral = finite and x == int(x)
            try:
                as_float = float(x) == x
            except OverflowError:
                as_float = False
            if "float" in alts and as_float and not isinstance(x, float):
                opts.append({"x": repr(float(x))})
            if "float" in alts and isinstance(x, float) and integral:
                opts.append(int(x))
            if "bool" in alts and x in (0, 1):
                opts.append({"b": int(x)})
            if "frac" in alts and finite:
                f = Fraction(x)
                opts.append({"q": [f.numerator, f.denominator]})
            if "np" in alts:
                if integral and -2 ** 63 <= x < 2 ** 63:
                    opts.append({"i64": int(x)})
                if as_float:
                    opts.append({"f64": repr(float(x))})
            if opts:
                return rng.choice(opts)
    return enc(x)


def hashable(x):
    try:
        hash(x)
        return True
    except TypeError:
        return False


# ------------------------------------------------------------------------------------------
# canonical forms

def attr1(d, name):
    """the single attribute `name` of an attribute dict: '-' when absent, ('?', d) when something else is there"""
    d = dict(d)
    if not d:
        return "-"
    if list(d) == [name]:
        return d[name]
    return ("?", repr(d))


def canon_nx(g, directed, vname, vattr="bipartite"):
    """(sorted vertices with attribute, sorted edges with weight)"""
    vs = sorted(((vname(v), attr1(a, vattr)) for v, a in g.nodes(data=True)), key=repr)
    es = []
    for u, v, a in g.edges(data=True):
        x, y = vname(u), vname(v)
        if not directed and y < x:
            x, y = y, x
        es.append((x, y, attr1(a, "weight")))
    return vs, sorted(es, key=repr)


def same_num(model, impl):
    """model value (Fraction/int or '-') against implementation value (int/float or '-')"""
    if model == "-" or impl == "-":
        return model == impl
    if isinstance(impl, tuple) or isinstance(impl, bool):
        return False
    try:
        return float(Fraction(model)) == float(impl)
    except Exception:  # noqa: BLE001
        return False


def parse_model_graph(vtxt, atxt, directed, vparse):
    vs = []
    if vtxt != "-":
        for t in vtxt.split(","):
            v, a = t.rsplit(":", 1)
            vs.append((vparse(v), "-" if a == "-" else int(a)))
    adj = {}
    if atxt != "-":
        for t in atxt.split(","):
            uv, a = t.rsplit(":", 1)
            u, v = uv.split("~")
            adj[(vparse(u), vparse(v))] = "-" if a == "-" else hgxv.dec_num(a)
    es = []
    sym_ok = True
    if directed:
        es = [(u, v, a) for (u, v), a in adj.items()]
    else:
        for (u, v), a in adj.items():
            if adj.get((v, u), None) != a:
                sym_ok = False
            if u <= v:
                es.append((u, v, a))
    return sorted(vs, key=repr), sorted(es, key=repr), sym_ok


def graphs_agree(model, impl):
    mv, me, ok = model
    iv, ie = impl
    if not ok or [v for v, _ in mv] != [v for v, _ in iv] or len(me) != len(ie):
        return False
    if any(not same_num(a, b) for (_, a), (_, b) in zip(mv, iv)):
        return False
    for (u, v, a), (x, y, b) in zip(me, ie):
        if (u, v) != (x, y) or not same_num(a, b):
            return False
    return True


# ------------------------------------------------------------------------------------------
# the property's words

def o_inter(a, b):
    return len(set(a) & set(b))


def o_jacc(a, b):
    return Fraction(len(set(a) & set(b)), len(set(a) | set(b)))


_VAL = {}     # values of the pairs of the object under examination (emptied for every projected object)


def o_dist(dist, a, b):
    try:
        return _VAL[(dist, a, b)]
    except (KeyError, TypeError):
        pass
    v = Fraction(o_inter(a, b)) if dist == "intersection" else o_jacc(a, b)
    try:
        _VAL[(dist, a, b)] = v
    except TypeError:
        pass
    return v


def weight_is(w, val):
    return not isinstance(w, (str, tuple, bool)) and float(w) == float(val)


def he_of(x):
    """the hyperedge a table value stands for: its node tuple in canonical order; None when it is no tuple of labels"""
    if not isinstance(x, tuple) or not all(hashable(y) for y in x):
        return None
    return tuple(osorted(x))


def bipartite_reading(g, tab, nodes, E, node_side):
    """None when, with `node_side` as the vertices that stand for nodes, the graph and the id table say what the
    property says; else what is wrong"""
    V = list(g.nodes())
    nv = [v for v in V if v in node_side]
    ev = [v for v in V if v not in node_side]
    if any(not hashable(tab[v]) for v in nv) or Counter(tab[v] for v in nv) != Counter(nodes) or \
            any(he_of(tab[v]) is None for v in ev) or Counter(he_of(tab[v]) for v in ev) != Counter(E):
        return "bipartite: id table does not map the vertices one-to-one onto the nodes and the hyperedges"
    for a in nv:
        for b in ev:
            if g.has_edge(a, b) != (tab[a] in tab[b]):
                return (f"bipartite: vertex {a} (node {tab[a]!r}) and vertex {b} (hyperedge {tab[b]!r}) are "
                        f"{'joined' if g.has_edge(a, b) else 'not joined'}")
    if g.number_of_edges() != sum(len(e) for e in E):
        return "bipartite: there are edges that do not join a node vertex with a hyperedge vertex"
    return None


def oracle_bipartite(viol, nodes, E, res):
    """one vertex per node and one per hyperedge, joined exactly when the node belongs to the hyperedge, the id table
    maps every vertex back to its node or hyperedge.  A table value that is BOTH a node label and a hyperedge tuple does
    not say which of the two its vertex stands for: the `bipartite` attribute decides, and when that reading fails every
    other reading of the ambiguous vertices is tried before a violation is reported (the property does not name sides)."""
    if res[0] != "ok":
        return viol(f"bipartite_projection raised {res[1]}")
    g, tab = res[1]
    V = list(g.nodes())
    if set(V) != set(tab) or len(tab) != len(V) or len(V) != len(nodes) + len(E):
        return viol(f"bipartite: vertices {sorted(map(str, V))}, id table keys {sorted(map(str, tab))}: the table must "
                    f"have exactly the vertices as keys, one per node and one per hyperedge ({len(nodes) + len(E)})")
    nset, eset = set(nodes), set(E)
    sure_n, sure_e, amb = [], [], []
    for v in V:
        x = tab[v]
        is_n = hashable(x) and x in nset
        is_e = he_of(x) is not None and he_of(x) in eset
        if is_n and is_e:
            amb.append(v)
        elif is_e:
            sure_e.append(v)
        else:
            sure_n.append(v)        # a value that is neither fails the reading below
    attr = [v for v in amb if g.nodes[v].get("bipartite") != 1]
    first = bipartite_reading(g, tab, nodes, E, set(sure_n) | set(attr))
    if first is None:
        return
    if 0 < len(amb) <= 10:
        for r in range(len(amb) + 1):
            for pick in itertools.combinations(amb, r):
                if bipartite_reading(g, tab, nodes, E, set(sure_n) | set(pick)) is None:
                    return
    return viol(first)


def bip_relations(g, n, m):
    """degrees of the vertices N0.. / E0.. of a returned bipartite graph and the two Gram matrices of its incidence
    matrix: number of common neighbours of two node vertices (B.B^T) and of two hyperedge vertices (B^T.B)"""
    N = ["N" + str(i) for i in range(n)]
    Ev = ["E" + str(j) for j in range(m)]
    nb = {v: set(g[v]) for v in N + Ev}
    deg = [(str(v), d) for v, d in g.degree()]            # in the graph's own vertex order
    ng = [[len(nb[a] & nb[b]) for b in N] for a in N]
    eg = [[len(nb[a] & nb[b]) for b in Ev] for a in Ev]
    inc = [[1 if b in nb[a] else 0 for b in Ev] for a in N]
    return deg, ng, eg, inc


def oracle_clique(viol, nodes, E, res, keep):
    if res[0] != "ok":
        return viol(f"clique_projection(keep_isolated={keep}) raised {res[1]}")
    g = res[1]
    V = set(g.nodes())
    if not V <= set(nodes):
        return viol(f"clique: vertices {sorted(V - set(nodes), key=repr)} are not nodes")
    if keep and V != set(nodes):
        return viol(f"clique(keep_isolated=True): nodes {sorted(set(nodes) - V, key=repr)} are missing")
    for u in nodes:
        for v in nodes:
            want = u != v and any(u in e and v in e for e in E)
            if g.has_edge(u, v) != want:
                return viol(f"clique(keep_isolated={keep}): {u!r} and {v!r} are {'joined' if not want else 'not joined'}")
    if g.number_of_edges() != sum(1 for u, v in itertools.combinations(nodes, 2) if any(u in e and v in e for e in E)):
        return viol("clique: edges outside the node set")


def at_least(dist, val, S):
    """`the value is at least s`: the intersection size is an integer; the Jaccard similarity is the float quotient
    (edge_similarity.jaccard_similarity returns a float), compared with the threshold as numbers (no tolerance)"""
    return (Fraction(float(val)) if dist == "jaccard" else val) >= S


def oracle_line(viol, E, res, dist, s_arg, weighted, directed):
    name = ("directed_line_graph" if directed else "line_graph") + f"({dist}, s={s_arg!r}, weighted={weighted})"
    s = exact(s_arg)
    if res[0] != "ok":
        return viol(f"{name} raised {res[1]}")
    g, tab = res[1]
    m = len(E)
    if set(g.nodes()) != set(range(m)) or set(tab) != set(range(m)) or len(tab) != m:
        return viol(f"{name}: vertices {sorted(g.nodes(), key=repr)} / id table keys {sorted(tab, key=repr)}, "
                    f"expected one vertex per hyperedge 0..{m - 1}")
    canon = (lambda e: (tuple(osorted(e[0])), tuple(osorted(e[1])))) if directed else (lambda e: tuple(osorted(e)))
    if Counter(canon(tab[i]) for i in range(m)) != Counter(E):
        return viol(f"{name}: the id table does not list the hyperedges one-to-one")
    want = {}
    for i in range(m):
        for j in (range(m) if directed else range(i + 1, m)):
            if i != j:
                val = o_dist(dist, tab[i][1], tab[j][0]) if directed else o_dist(dist, tab[i], tab[j])
                if at_least(dist, val, s):
                    want[(i, j)] = val
    got = {}
    for u, v, a in g.edges(data=True):
        got[(u, v) if directed or u <= v else (v, u)] = a.get("weight", "-")
    if set(got) != set(want):
        i, j = sorted(set(got) ^ set(want))[0]
        val = o_dist(dist, tab[i][1], tab[j][0]) if directed else o_dist(dist, tab[i], tab[j])
        return viol(f"{name}: {tab[i]!r} -> {tab[j]!r} with value {val} (float {float(val)!r}) is "
                    f"{'joined' if (i, j) in got else 'not joined'}")
    if weighted:
        for (i, j), val in want.items():
            if not weight_is(got[(i, j)], val):
                return viol(f"{name}: weight of {tab[i]!r} -> {tab[j]!r} is {got[(i, j)]!r}, value is {val}")


def oracle_simplicial(viol, E, res):
    if res[0] != "ok":
        return viol(f"simplicial_complex raised {res[1]}")
    got = res[1]
    if len(set(got)) != len(got):
        return viol("simplicial_complex lists a hyperedge twice")
    S = set(got)
    for e in E:
        for r in range(1, len(e) + 1):
            for sub in itertools.combinations(e, r):
                if tuple(osorted(sub)) not in S:
                    return viol(f"simplicial_complex lacks the subset {tuple(osorted(sub))!r} of hyperedge {e!r}")
    for k in S:
        if len(k) > 0 and not any(set(k) <= set(e) for e in E):
            return viol(f"simplicial_complex contains {k!r}, which is below no hyperedge")


# ------------------------------------------------------------------------------------------
# histories: the content an object must have, tracked independently of the implementation

def as_edge(kind, e):
    """hyperedge as the API takes it (JSON replays hold lists)"""
    if kind == "d":
        return (tuple(e[0]), tuple(e[1]))
    return tuple(e)


def canon_edge(kind, e):
    if kind == "d":
        return (tuple(osorted(e[0])), tuple(osorted(e[1])))
    return tuple(osorted(e))


def members(kind, e):
    return (set(e[0]) | set(e[1])) if kind == "d" else set(e)


def esize(kind, e):
    return len(e[0]) + len(e[1]) if kind == "d" else len(e)


def map_edge(kind, e, f):
    if kind == "d":
        return (tuple(f(x) for x in e[0]), tuple(f(x) for x in e[1]))
    return tuple(f(x) for x in e)


def map_op(op, kind, f):
    """the op with f applied to every label in it (f = dec: encoded program -> objects; f = present: objects -> program)"""
    op = list(op)
    name = op[0]
    if name in ("ctor", "edges", "rms"):
        op[2] = [map_edge(kind, e, f) for e in op[2]]
    elif name in ("edge", "rm"):
        op[2] = map_edge(kind, op[2], f)
    elif name in ("nodes", "rmnodes"):
        op[2] = [f(x) for x in op[2]]
    elif name in ("node", "rmnode"):
        op[2] = f(op[2])
    elif name == "sub":
        op[3] = [f(x) for x in op[3]]
    return op


class Content:
    """what get_nodes() / get_edges() of an object must list (as sets) after its history"""

    def __init__(self, kind, nodes=(), edges=()):
        self.kind = kind
        self.nodes = set(nodes)
        self.edges = set(edges)

    def copy(self):
        return Content(self.kind, self.nodes, self.edges)

    def add_edge(self, e):
        c = canon_edge(self.kind, e)
        self.edges.add(c)
        self.nodes |= members(self.kind, c)

    def remove_edge(self, e):
        self.edges.remove(canon_edge(self.kind, e))

    def incident(self, n):
        return osorted(e for e in self.edges if n in members(self.kind, e))

    def remove_node(self, n, keep):
        inc = self.incident(n)
        if keep:
            for e in inc:
                if self.kind == "d":
                    s, t = tuple(x for x in e[0] if x != n), tuple(x for x in e[1] if x != n)
                    if s and t:
                        self.edges.add((s, t))
                else:
                    self.edges.add(tuple(x for x in e if x != n))
        for e in inc:
            self.edges.discard(e)
        self.nodes.discard(n)

    def removable(self, n, keep):
        """histories stay inside the documented use of remove_node (see ASSUMPTIONS)"""
        inc = self.incident(n)
        if self.kind == "d":
            return not any(n in e[0] and n in e[1] for e in inc)
        # keep_edges=True on the only node of a hyperedge leaves the node-less hyperedge () in the hyperedge list: a user
        # can hold such an object, and every claim of the property reads on it (a vertex of its own in the bipartite
        # projection and the line graph, joined to nothing)
        return True


def track(T, kind, op):
    """effect of one op (labels are objects) of a program on the tracked contents T (name -> Content)"""
    name, X = op[0], op[1]
    if name == "new":
        T[X] = Content(kind)
    elif name == "ctor":
        T[X] = Content(kind)
        for e in op[2]:
            T[X].add_edge(as_edge(kind, e))
    elif name == "nodes":
        T[X].nodes |= set(op[2])
    elif name == "node":
        T[X].nodes.add(op[2])
    elif name == "edges":
        for e in op[2]:
            T[X].add_edge(as_edge(kind, e))
    elif name == "edge":
        T[X].add_edge(as_edge(kind, op[2]))
    elif name == "rm":
        T[X].remove_edge(as_edge(kind, op[2]))
    elif name == "rms":
        for e in op[2]:
            T[X].remove_edge(as_edge(kind, e))
    elif name == "rmnode":
        T[X].remove_node(op[2], bool(op[3]))
    elif name == "rmnodes":
        for n in op[2]:
            T[X].remove_node(n, bool(op[3]))
    elif name in ("copy", "deepcopy", "pickle", "hgx"):
        T[X] = T[op[2]].copy()
    elif name == "sub":
        src, ns = T[op[2]], set(op[3])
        T[X] = Content(kind, ns, {e for e in src.edges if members(kind, e) <= ns})
    elif name == "subk":
        src = T[op[2]]
        es = {e for e in src.edges if esize(kind, e) == op[3]}
        T[X] = Content(kind, set(src.nodes) if op[4] else set().union(*[members(kind, e) for e in es]), es)
    elif name == "clear":
        T[X] = Content(kind)
    elif name == "hif":
        T[X] = Content(kind, *hif_content(op[2]))
    elif name in ("empty", "empty!"):
        pass            # a record in the registry of node-less hyperedges is no hyperedge: get_edges() does not list it
    elif name != "project":
        raise ValueError(f"unknown op {op!r}")


def hif_content(data):
    """nodes and hyperedges of the object read_hif builds from a HIF document: nodes are renumbered 0, 1, ... in the
    order of their first occurrence (incidence records first, then the node table); a hyperedge is the set of the nodes of
    the incidence records that name it (two names with the same nodes are one hyperedge); an edge record without any
    incidence is no hyperedge (read_hif files it with add_empty_edge)"""
    nid, mem = {}, {}
    for inc in data["incidences"]:
        nid.setdefault(inc["node"], len(nid))
        mem.setdefault(inc["edge"], set()).add(nid[inc["node"]])
    for rec in data["nodes"]:
        nid.setdefault(rec["node"], len(nid))
    return set(nid.values()), {tuple(sorted(m)) for m in mem.values()}


def weight_of(kind, e):
    return 1.0 + 0.5 * (esize(kind, e) % 3)


def perform(H, kind, weighted, op):
    """the same op (labels are objects) on the real objects H (name -> Hypergraph / DirectedHypergraph)"""
    from hypergraphx import Hypergraph, DirectedHypergraph
    cls = DirectedHypergraph if kind == "d" else Hypergraph
    name, X = op[0], op[1]
    if name == "new":
        H[X] = cls(weighted=True) if weighted else cls()
    elif name == "ctor":
        es = [as_edge(kind, e) for e in op[2]]
        H[X] = cls(edge_list=es, weighted=True, weights=[weight_of(kind, e) for e in es]) if weighted else cls(edge_list=es)
    elif name == "nodes":
        H[X].add_nodes(list(op[2]))
    elif name == "node":
        H[X].add_node(op[2])
    elif name == "edges":
        es = [as_edge(kind, e) for e in op[2]]
        if weighted:
            H[X].add_edges(es, weights=[weight_of(kind, e) for e in es])
        else:
            H[X].add_edges(es)
    elif name == "edge":
        e = as_edge(kind, op[2])
        if weighted:
            H[X].add_edge(e, weight=weight_of(kind, e))
        else:
            H[X].add_edge(e)
    elif name == "rm":
        H[X].remove_edge(as_edge(kind, op[2]))
    elif name == "rms":
        H[X].remove_edges([as_edge(kind, e) for e in op[2]])
    elif name == "rmnode":
        H[X].remove_node(op[2], keep_edges=bool(op[3]))
    elif name == "rmnodes":
        H[X].remove_nodes(list(op[2]), keep_edges=bool(op[3]))
    elif name == "copy":
        H[X] = H[op[2]].copy()
    elif name == "deepcopy":
        H[X] = copy.deepcopy(H[op[2]])
    elif name == "pickle":
        H[X] = pickle.loads(pickle.dumps(H[op[2]]))
    elif name == "hgx":
        from hypergraphx.readwrite.save import save_hypergraph
        from hypergraphx.readwrite.load import load_hypergraph
        with tempfile.TemporaryDirectory() as tmp:
            path = os.path.join(tmp, "h.hgx")
            save_hypergraph(H[op[2]], path, binary=True)
            H[X] = load_hypergraph(path)
    elif name == "sub":
        H[X] = H[op[2]].subhypergraph(list(op[3]))
    elif name == "subk":
        H[X] = H[op[2]].get_edges(size=op[3], subhypergraph=True, keep_isolated_nodes=bool(op[4]))
    elif name == "clear":
        H[X].clear()
    elif name == "empty":
        H[X].add_empty_edge(op[2], copy.deepcopy(op[3]))
    elif name == "empty!":
        try:
            H[X].add_empty_edge(op[2], copy.deepcopy(op[3]))     # a name that is registered already: rejected (or ignored)
        except Exception:  # noqa: BLE001
            pass
    elif name == "hif":
        from hypergraphx.readwrite.hif import read_hif
        with tempfile.TemporaryDirectory() as tmp:
            path = os.path.join(tmp, "h.hif.json")
            with open(path, "w") as f:
                json.dump(op[2], f)
            H[X] = read_hif(path)
    else:
        raise ValueError(f"unknown op {op!r}")


EDITS = ("node", "nodes", "edge", "edges", "rm", "rms", "rmnode", "rmnodes", "clear", "empty", "empty!")
REMOVALS = ("rm", "rms", "rmnode", "rmnodes", "clear")


def legacy_prog(case):
    """the one-object cases of the first rounds (fixed corner cases, stored replays) as programs"""
    kind = "d" if case.get("kind") == "d" else "u"
    edges = [as_edge(kind, e) for e in case.get("edges", [])]
    prog = [["new", "A"], ["nodes", "A", list(case.get("nodes", []))]]
    det = case.get("detour")
    if det and edges:
        temp = as_edge(kind, det["temp"])
        e = edges[det["readd"] % len(edges)]
        prog += [["edge", "A", temp], ["edges", "A", edges], ["rm", "A", temp], ["rm", "A", e], ["edge", "A", e]]
    else:
        prog.append(["edges", "A", edges])
    prog.append(["project", "A"])
    return {"kind": kind, "weighted": False, "prog": prog}


def run_program(ctx, drv, case):
    """executes the history on real objects and on the tracker; every `project` step is a checked case.  The program
    holds encoded labels: they are decoded once for the tracker and ONCE MORE for the implementation, so that the real
    objects never receive the same label object in two calls."""
    if "prog" not in case:
        case = legacy_prog(case)
    kind = "d" if case.get("kind") == "d" else "u"
    weighted = bool(case.get("weighted"))
    H, T, info = {}, {}, {}
    for step, op in enumerate(case["prog"]):
        op = list(op)
        name, X = op[0], op[1]
        if name == "project":
            tags = []
            inf = info[X]
            if inf["relative_edited"]:
                tags.append("relative_edited")      # original of an edited copy / copy of an edited original
            if inf["projected"] and inf["dirty"]:
                tags.append("reprojected_after_edit")
            if inf["removals"]:
                tags.append("after_removals")
            if inf["derived"]:
                tags.append("derived_object")
            if inf.get("from_hif"):
                tags.append("read_from_hif")
            try:
                if len(getattr(H[X], "_empty_edges", None) or ()) > 0:
                    tags.append("with_node_less_records")
            except Exception:  # noqa: BLE001
                pass
            vcase = {**case, "at_step": step, "object": X}
            (project_directed if kind == "d" else project_undirected)(ctx, drv, vcase, case, H[X], T[X], tuple(tags))
            inf["projected"], inf["dirty"] = True, False
            if ctx.too_many():
                return
            continue
        track(T, kind, map_op(op, kind, dec))
        try:
            perform(H, kind, weighted, map_op(op, kind, dec))
        except Timeout:
            raise
        except Exception as ex:  # noqa: BLE001
            ctx.violation({**case, "at_step": step},
                          f"step {step} of the history, {op!r}, raised {type(ex).__name__}: {ex}"[:300])
            return
        if name in ("new", "ctor", "hif"):
            info[X] = {"from_hif": name == "hif","projected": False, "dirty": False, "removals": 0, "derived": False, "relative_edited": False,
                       "family": {X}}
        elif name in ("copy", "deepcopy", "pickle", "hgx", "sub", "subk"):
            fam = info[op[2]]["family"]
            fam.add(X)
            info[X] = {"from_hif": info[op[2]].get("from_hif"),
                       "projected": False, "dirty": False, "removals": info[op[2]]["removals"], "derived": True,
                       "relative_edited": False, "family": fam}
        elif name in EDITS:
            info[X]["dirty"] = True
            if name in REMOVALS:
                info[X]["removals"] += 1
            for Y in info[X]["family"]:
                if Y != X:
                    info[Y]["relative_edited"] = True


# ------------------------------------------------------------------------------------------
# one projected object

# relative distances of a threshold from a similarity value (tolerances that a comparison may have been given)
REL = [1e-15, 1e-13, 1e-11, 1e-10, 5e-10, 9.9e-10, 1.01e-9, 1e-8, 1e-7, 1e-6, 1e-5, 1e-4, 1e-3]
# the float of every ratio p/q a Jaccard similarity can be (sizes <= 5: unions <= 10) -> that ratio
RATIO_OF_FLOAT = {p / q: Fraction(p, q) for q in range(1, 13) for p in range(1, q + 1)}
NEAR_PER_DISTANCE = 3


def exact(s_arg):
    """the number a threshold argument IS (floats are dyadic rationals)"""
    if isinstance(s_arg, np.generic):
        s_arg = s_arg.item()
    return Fraction(s_arg)


def model_threshold(dist, s_arg):
    """the rational threshold the model is given.  The implementation compares the FLOAT quotient i/u with the float
    s; by TRUSTED[0] (correctly rounded, monotone division) that is `i/u >= p/q` when s is the float of a ratio p/q a
    similarity can be, and `i/u >= s` (s as the exact dyadic rational) for every other float"""
    S = exact(s_arg)
    if dist == "jaccard":
        try:
            f = float(S)
        except OverflowError:
            return S
        if Fraction(f) == S:
            return RATIO_OF_FLOAT.get(f, S)
    return S


def attained(directed, E):
    """the values of the pairs of hyperedges the projection looks at (overlapping ones)"""
    ints, jacs = set(), set()
    pairs = ((a[1], b[0]) for a in E for b in E if a != b) if directed else itertools.combinations(E, 2)
    for x, y in pairs:
        i = o_inter(x, y)
        if i:
            ints.add(Fraction(i))
            jacs.add(o_jacc(x, y))
    return sorted(ints), sorted(jacs)


def dress(r, s):
    """the float threshold s as the caller may hand it in: float, numpy float64, the equal exact Fraction, an int"""
    m = r.random()
    if s == int(s) and m < 0.4:
        return r.choice([int(s), np.int64(int(s)), Fraction(int(s))])
    if m < 0.75:
        return s
    if m < 0.88:
        return np.float64(s)
    return Fraction(s)


def near_thresholds(r, dist, vals):
    """thresholds exactly ON a similarity value, 1-3 ulps below / above it and within a relative 1e-15 .. 1e-3 of it;
    the values are mostly those that occur between overlapping hyperedges of the object at hand"""
    default = [Fraction(k) for k in (1, 2, 3, 4, 5)] if dist == "intersection" else list(RATIO_OF_FLOAT.values())
    out = []
    for _ in range(NEAR_PER_DISTANCE):
        v = r.choice(vals) if vals and r.random() < 0.85 else r.choice(default)
        f = float(v)
        m = r.random()
        if m < 0.1:
            s = f
        elif m < 0.45:
            to = math.inf if r.random() < 0.6 else -math.inf
            s = f
            for _ in range(r.choice([1, 1, 1, 2, 3])):
                s = math.nextafter(s, to)
        else:
            rel = r.choice(REL)
            s = f * (1 + rel) if r.random() < 0.6 else f * (1 - rel)
        if s > 0:
            out.append(dress(r, s))
    return out


def fresh_num(x):
    """an equal number object of the same type, built anew"""
    return type(x)(x) if isinstance(x, (int, float, Fraction, np.generic)) and not isinstance(x, bool) else x


def thresholds(E, directed=False):
    """(distance, code of the distance in the driver's protocol, threshold argument as it is handed to the code)"""
    for s in INT_S:
        yield "intersection", "i", s
    for s in JAC_S:
        yield "jaccard", "j", float(s)
    # the others depend on the content only, so that a replay sees the same thresholds
    r = random.Random(stable(E))
    x = r.choice(EXTRA_S)
    yield x[0], x[1], x[3]
    ints, jacs = attained(directed, E)
    if r.random() < 0.04:
        yield "jaccard", "j", r.choice([5e-324, 1e-300, 1e-12])
    for s in near_thresholds(r, "intersection", ints):
        yield "intersection", "i", s
    for s in near_thresholds(r, "jaccard", jacs):
        yield "jaccard", "j", s


def spoil(res):
    """scribble on a returned graph / id table after it was examined: the next call must not hand out the same objects"""
    if res[0] != "ok":
        return
    out = res[1] if isinstance(res[1], tuple) else (res[1],)
    try:
        out[0].add_edge("spoiled-a", "spoiled-b", weight=-1)
        if len(out) > 1 and isinstance(out[1], dict):
            out[1]["spoiled"] = ("spoiled",)
    except Exception:  # noqa: BLE001
        pass


def content_ok(ctx, vcase, kind, nodes, E, want):
    """the object holds what its history says (listings duplicate-free)"""
    try:
        ok = (set(nodes) == want.nodes and len(set(nodes)) == len(nodes)
              and set(E) == want.edges and len(set(E)) == len(E))
    except TypeError:
        ok = False
    if not ok:
        ctx.violation(vcase, (f"after the history the object lists nodes {sorted(nodes, key=repr)!r} and hyperedges "
                              f"{sorted(E, key=repr)!r}; the history gives nodes {sorted(want.nodes, key=repr)!r} and "
                              f"hyperedges {sorted(want.edges, key=repr)!r}: the projections describe another hypergraph")[:700])
    return ok


def same_line_graph(directed, a, b):
    return a[0] == b[0] and (a[0] != "ok" or (
        canon_nx(a[1][0], directed, repr) == canon_nx(b[1][0], directed, repr) and a[1][1] == b[1][1]))


def ranks_of(nodes):
    """label -> rank in the total order `okey`"""
    return {x: i for i, x in enumerate(osorted(set(nodes)))}


def rk(rank, x):
    try:
        return rank.get(x, -1)
    except TypeError:
        return -1


VERTEX_NAME = re.compile(r"^[NE]\d+$")


def leaf_types(x):
    if isinstance(x, (tuple, frozenset)):
        out = {"tuple" if isinstance(x, tuple) else "frozenset"}
        for y in x:
            out |= leaf_types(y)
        return out
    if isinstance(x, np.generic):
        return {"numpy"}
    return {type(x).__name__}


def count_labels(ctx, kind, nodes, E):
    """distribution of the kinds of labels over the projected objects"""
    types = set()
    for x in nodes:
        types |= leaf_types(x)
    for t in sorted(types):
        ctx.count("labels_with_" + t)
    classes = {okey(x)[0] for x in nodes}
    if len(classes) > 1:
        ctx.count("labels_of_several_incomparable_classes")
    if any(isinstance(x, str) and VERTEX_NAME.match(x) for x in nodes):
        ctx.count("labels_like_vertex_names")
    if any(isinstance(x, (int, np.integer)) and not isinstance(x, bool) and 0 <= x < len(E) for x in nodes):
        ctx.count("labels_equal_to_hyperedge_ids")
    if kind == "u":
        eset = set(E)
        coll = [x for x in nodes if isinstance(x, tuple) and x in eset]
        if coll:
            ctx.count("label_is_a_hyperedge_tuple")
            pos = {e: i for i, e in enumerate(E)}
            if any(x in e and pos[e] > pos[x] for x in coll for e in E):
                ctx.count("label_is_a_hyperedge_tuple_and_member_of_a_later_hyperedge")
    else:
        sides = {e[0] for e in E} | {e[1] for e in E}
        if any(isinstance(x, tuple) and x in sides for x in nodes):
            ctx.count("label_is_a_side_tuple")
        if any(isinstance(x, tuple) and x in set(E) for x in nodes):
            ctx.count("label_is_a_hyperedge_pair")


def project_undirected(ctx, drv, vcase, case, h, want, tags):
    from hypergraphx.representations import projections as P
    from hypergraphx.representations.simplicial_complex import simplicial_complex
    from hypergraphx.measures import edge_similarity as ES
    nodes = list(h.get_nodes())
    raw = list(h.get_edges())
    E = [tuple(osorted(e)) for e in raw]
    if not content_ok(ctx, vcase, "u", nodes, E, want):
        return
    _VAL.clear()
    rank = ranks_of(nodes)

    def viol(what):
        ctx.violation(vcase, what)

    lines = ["load " + hgxv.enc_list([rank[x] for x in nodes]) + " " + hgxv.enc_lists([[rank[x] for x in e] for e in E])]
    expect = [("plain", "ok")]

    # the table line_graph reads: the per-node incident lists of THIS object (a second piece of container state)
    inc = guarded(lambda: [[tuple(osorted(e)) for e in h.get_incident_edges(n)] for n in nodes])
    if inc[0] == "ok" and all(rk(rank, x) >= 0 for l in inc[1] for e in l for x in e) and all(len(e) for l in inc[1] for e in l):
        lines.append("inc " + hgxv.enc_listss([[[rank[x] for x in e] for e in l] for l in inc[1]]))
        expect.append(("inc",))

    # bipartite
    res = guarded(P.bipartite_projection, h)
    oracle_bipartite(viol, nodes, E, res)
    lines.append("bip")
    if res[0] == "ok":
        g, tab = res[1]
        # the model's table: N<i> -> node, E<j> -> hyperedge (members in the order of the tuple)
        t = sorted((str(k), ("n", rk(rank, v)) if str(k).startswith("N") else
                    ("e",) + (tuple(rk(rank, x) for x in v) if isinstance(v, tuple) else (-1,))) for k, v in tab.items())
        expect.append(("bip", canon_nx(g, False, str), t))
        # extension round: what a reader does with the returned graph - degrees, and the two Gram matrices of the
        # incidence matrix read off the REAL bipartite graph (common neighbours of two vertices of one side)
        rel = guarded(bip_relations, g, len(nodes), len(E))
        if rel[0] == "ok":
            lines.append("deg")
            expect.append(("degs", rel[1][0]))
            lines.append("gram")
            expect.append(("gram", rel[1][1], rel[1][2], rel[1][3]))
    else:
        expect.append(("exc",))
        rel = ("exc", None)
    spoil(res)
    # clique
    for keep in (False, True):
        res = guarded(P.clique_projection, h, keep_isolated=keep)
        oracle_clique(viol, nodes, E, res, keep)
        lines.append(f"clique {int(keep)}")
        expect.append(("graph", canon_nx(res[1], False, lambda v: rk(rank, v)), False) if res[0] == "ok" else ("exc",))
        if res[0] == "ok":
            dg = guarded(lambda: [(rk(rank, v), d) for v, d in res[1].degree()])      # vertex order included
            if dg[0] == "ok":
                lines.append(f"cdeg {int(keep)}")
                expect.append(("degs", dg[1]))
            if keep and rel[0] == "ok":
                # the clique projection is the off-diagonal support of B.B^T of the bipartite projection
                bad = guarded(lambda: [(nodes[p], nodes[q]) for p in range(len(nodes)) for q in range(len(nodes)) if p != q
                                       and (rel[1][1][p][q] > 0) != res[1].has_edge(nodes[p], nodes[q])])
                if bad[0] == "ok" and bad[1]:
                    viol(f"clique_projection and bipartite_projection disagree about the nodes {bad[1][0]!r}: joined in one, "
                         "no common hyperedge vertex in the other (or the reverse)")
        spoil(res)
    # extension round: `distance` is none of the two known strings - `None >= s` raises, but only when a pair is evaluated
    res = guarded(P.line_graph, h, distance="cosine")
    lines.append("lineu")
    expect.append(("graph", canon_nx(res[1][0], False, lambda v: v if isinstance(v, int) else -1), False)
                  if res[0] == "ok" and isinstance(res[1], tuple) else ("exc",))
    spoil(res)
    # extension round: thresholds s <= 0 are outside the property's quantifier (no oracle); the model says what the code
    # does there (C10_line_all_thresholds: only intersecting pairs are ever evaluated, so the graph is NOT complete)
    r0 = random.Random(stable(("s<=0", E)))
    for dist, dcode, s_arg in r0.sample([("intersection", "i", r0.choice([0, -1, -2.5])), ("jaccard", "j", r0.choice([0, 0.0, -0.5, -3]))], 1):
        weighted = r0.random() < 0.5
        res = guarded(P.line_graph, h, distance=dist, s=fresh_num(s_arg), weighted=weighted)
        lines.append(f"line {dcode} {hgxv.enc_num(Fraction(s_arg))} {int(weighted)}")
        if res[0] == "ok":
            g, tab = res[1]
            expect.append(("line", canon_nx(g, False, lambda v: v if isinstance(v, int) else -1), False,
                           [[rk(rank, x) for x in tab.get(i, ())] for i in range(len(tab))]))
        else:
            expect.append(("exc",))
        spoil(res)
    # line graph
    thr = list(thresholds(E))
    for dist, dcode, s_arg in thr:
        for weighted in (False, True):
            res = guarded(P.line_graph, h, distance=dist, s=fresh_num(s_arg), weighted=weighted)
            oracle_line(viol, E, res, dist, s_arg, weighted, False)
            lines.append(f"line {dcode} {hgxv.enc_num(model_threshold(dist, s_arg))} {int(weighted)}")
            if res[0] == "ok":
                g, tab = res[1]
                expect.append(("line", canon_nx(g, False, lambda v: v if isinstance(v, int) else -1), False,
                               [[rk(rank, x) for x in tab.get(i, ())] for i in range(len(tab))]))
                if dist == "intersection" and weighted and s_arg == 1 and rel[0] == "ok":
                    # the weighted intersection line graph (s = 1) is the off-diagonal part of B^T.B of the bipartite projection
                    bad = guarded(lambda: [(i, j) for i in range(len(E)) for j in range(len(E)) if i != j and
                                           (g[i][j].get("weight") if g.has_edge(i, j) else 0) != rel[1][2][i][j]])
                    if bad[0] == "ok" and bad[1]:
                        viol(f"line_graph(weighted) and bipartite_projection disagree about the hyperedges {bad[1][0]}: the "
                             "weight is not the number of common node vertices")
            else:
                expect.append(("exc",))
            spoil(res)
    # the method is the function (given and default arguments)
    if not same_line_graph(False, guarded(h.to_line_graph, "jaccard", 0.5, True), guarded(P.line_graph, h, "jaccard", 0.5, True)):
        viol("Hypergraph.to_line_graph('jaccard', 0.5, True) differs from line_graph(h, 'jaccard', 0.5, True)")
    if not same_line_graph(False, guarded(h.to_line_graph), guarded(P.line_graph, h)):
        viol("Hypergraph.to_line_graph() differs from line_graph(h)")
    d_, _, s_ = thr[-1]
    if not same_line_graph(False, guarded(h.to_line_graph, d_, fresh_num(s_), True), guarded(P.line_graph, h, d_, fresh_num(s_), True)):
        viol(f"Hypergraph.to_line_graph({d_!r}, {s_!r}, True) differs from line_graph(h, {d_!r}, {s_!r}, True)")
    # simplicial complex
    res = guarded(lambda: [tuple(osorted(e)) for e in simplicial_complex(h).get_edges()])
    oracle_simplicial(viol, E, res)
    lines.append("simp")
    expect.append(("simp", sorted([rk(rank, x) for x in e] for e in res[1])) if res[0] == "ok" else ("exc",))
    # similarity functions on all pairs of hyperedges
    n_sim = len(E)
    for a, b in itertools.combinations_with_replacement(E[:5], 2):
        if not a and not b:
            continue                # the Jaccard similarity of the node-less hyperedge with itself is undefined
        # the containers the unchanged functions accept: sets / frozensets (intersection), any collection (Jaccard)
        n_sim += 1
        mk = (set, frozenset)[n_sim % 2]
        mkj = (set, frozenset, list, tuple)[n_sim % 4]
        args = [mk(a), mk(b), mkj(a), mkj(b), mkj(b), mkj(a)]
        ri = guarded(ES.intersection, args[0], args[1])
        rj = guarded(ES.jaccard_similarity, args[2], args[3])
        rd = guarded(ES.jaccard_distance, args[4], args[5])
        if args != [mk(a), mk(b), mkj(a), mkj(b), mkj(b), mkj(a)]:
            viol(f"the similarity functions changed their arguments {a!r}, {b!r}")
        if ri != ("ok", o_inter(a, b)):
            viol(f"intersection({a!r}, {b!r}) = {ri[1]!r}")
        if rj[0] != "ok" or float(rj[1]) != float(o_jacc(a, b)):
            viol(f"jaccard_similarity({a!r}, {b!r}) = {rj[1]!r}, definition gives {o_jacc(a, b)}")
        if rd[0] != "ok" or abs(float(rd[1]) - float(1 - o_jacc(a, b))) > 1e-12:
            viol(f"jaccard_distance({a!r}, {b!r}) = {rd[1]!r}, definition gives {1 - o_jacc(a, b)}")
        lines.append("sim " + hgxv.enc_list([rank[x] for x in a]) + " " + hgxv.enc_list([rank[x] for x in b]))
        expect.append(("sim", ri, rj, rd))

    overlapping = any(set(a) & set(b) for a, b in itertools.combinations(E, 2))
    nontrivial = overlapping and sorted(nodes, key=repr) != sorted(range(len(nodes)), key=repr)
    ctx.case(stable((nodes, E, tags)), nontrivial, sample=case)
    ctx.count("undirected_cases")
    ctx.count("hyperedges_%d" % min(len(E), 6))
    for t in tags:
        ctx.count("undirected_" + t)
    if case.get("weighted"):
        ctx.count("weighted_hypergraph_cases")
    if len(nodes) > len({x for e in E for x in e}):
        ctx.count("with_isolated_nodes")
    if any(set(a) < set(b) or set(b) < set(a) for a, b in itertools.combinations(E, 2)):
        ctx.count("with_nested_hyperedges")
    if () in E:
        ctx.count("undirected_with_node_less_hyperedge_in_the_list")
    if nodes and isinstance(nodes[0], str):
        ctx.count("string_labels")
    count_labels(ctx, "u", nodes, E)
    compare(ctx, drv, vcase, lines, expect)


def project_directed(ctx, drv, vcase, case, h, want, tags):
    from hypergraphx.representations import projections as P
    E = [(tuple(osorted(e[0])), tuple(osorted(e[1]))) for e in h.get_edges()]
    nodes = list(h.get_nodes())
    if not content_ok(ctx, vcase, "d", nodes, E, want):
        return
    _VAL.clear()
    rank = ranks_of(nodes)
    empty_side = any(len(e[0]) == 0 or len(e[1]) == 0 for e in E)

    def viol(what):
        ctx.violation(vcase, what)

    lines = ["dload " + hgxv.enc_lists([[rank[x] for x in e[0]] for e in E]) + " "
             + hgxv.enc_lists([[rank[x] for x in e[1]] for e in E])]
    expect = [("plain", "ok")]
    thr = list(thresholds(E, True))
    for dist, dcode, s_arg in thr:
        for weighted in (False, True):
            res = guarded(P.directed_line_graph, h, distance=dist, s=fresh_num(s_arg), weighted=weighted)
            if not (empty_side and dist == "jaccard"):
                # with an empty side the Jaccard value of two empty sets is undefined: only the correspondence is checked
                oracle_line(viol, E, res, dist, s_arg, weighted, True)
            lines.append(f"dline {dcode} {hgxv.enc_num(model_threshold(dist, s_arg))} {int(weighted)}")
            if res[0] == "ok":
                g, tab = res[1]
                expect.append(("line", canon_nx(g, True, lambda v: v if isinstance(v, int) else -1), True,
                               [[[rk(rank, x) for x in tab.get(i, ((), ()))[side]] for i in range(len(tab))]
                                for side in (0, 1)]))
            else:
                expect.append(("exc",))
            spoil(res)
    # extension round: unknown `distance` (TypeError as soon as two hyperedges are compared) and thresholds s <= 0
    res = guarded(P.directed_line_graph, h, distance="cosine")
    lines.append("dlineu")
    expect.append(("graph", canon_nx(res[1][0], True, lambda v: v if isinstance(v, int) else -1), True)
                  if res[0] == "ok" and isinstance(res[1], tuple) else ("exc",))
    spoil(res)
    r0 = random.Random(stable(("s<=0", E)))
    for dist, dcode, s_arg in r0.sample([("intersection", "i", r0.choice([0, -1, -2.5])), ("jaccard", "j", r0.choice([0, 0.0, -0.5, -3]))], 1):
        weighted = r0.random() < 0.5
        res = guarded(P.directed_line_graph, h, distance=dist, s=fresh_num(s_arg), weighted=weighted)
        lines.append(f"dline {dcode} {hgxv.enc_num(Fraction(s_arg))} {int(weighted)}")
        if res[0] == "ok":
            g, tab = res[1]
            expect.append(("line", canon_nx(g, True, lambda v: v if isinstance(v, int) else -1), True,
                           [[[rk(rank, x) for x in tab.get(i, ((), ()))[side]] for i in range(len(tab))]
                            for side in (0, 1)]))
        else:
            expect.append(("exc",))
        spoil(res)
    if not empty_side:
        if not same_line_graph(True, guarded(h.to_line_graph, "jaccard", 0.5, True),
                               guarded(P.directed_line_graph, h, "jaccard", 0.5, True)):
            viol("DirectedHypergraph.to_line_graph('jaccard', 0.5, True) differs from directed_line_graph")
        d_, _, s_ = thr[-1]
        if not same_line_graph(True, guarded(h.to_line_graph, d_, fresh_num(s_), True),
                               guarded(P.directed_line_graph, h, d_, fresh_num(s_), True)):
            viol(f"DirectedHypergraph.to_line_graph({d_!r}, {s_!r}, True) differs from directed_line_graph")
    if not same_line_graph(True, guarded(h.to_line_graph), guarded(P.directed_line_graph, h)):
        viol("DirectedHypergraph.to_line_graph() differs from directed_line_graph(h)")
    overlapping = any(set(a[1]) & set(b[0]) for a in E for b in E if a != b)
    nontrivial = overlapping and sorted(nodes, key=repr) != sorted(range(len(nodes)), key=repr)
    ctx.case(stable(("d", nodes, E, tags)), nontrivial, sample=case)
    ctx.count("directed_cases")
    for t in tags:
        ctx.count("directed_" + t)
    if case.get("weighted"):
        ctx.count("weighted_hypergraph_cases")
    if empty_side:
        ctx.count("directed_with_empty_side")
    count_labels(ctx, "d", nodes, E)
    compare(ctx, drv, vcase, lines, expect)


_EXT_DIFFS = [0]


def is_extension_line(ln):
    t = ln.split(" ")
    if t[0] in ("deg", "cdeg", "gram", "lineu", "dlineu"):
        return True
    return t[0] in ("line", "dline") and len(t) > 2 and (t[2] == "0" or t[2].startswith("-"))


def compare(ctx, drv, case, lines, expect):
    if drv is None:
        return
    ans = drv.batch(lines)
    for ln, a, ex in zip(lines, ans, expect):
        ok = False
        try:
            kind = ex[0]
            if kind == "plain":
                ok = a == ex[1]
            elif kind == "inc":
                ok = a == "1 1 1"
                if not ok:
                    ctx.disagree({**case, "line": ln},
                                 "the table of get_incident_edges of this object fails the hypotheses of "
                                 "C10_line_checked_incident_table (lists duplicate-free and made of listed hyperedges / "
                                 f"members of a list share a node / intersecting hyperedges listed together = {a!r}): "
                                 "the incident lists are not those of get_edges()")
                    return
            elif kind == "exc":
                ok = a == "exc"
            elif a in ("exc", "bad-op"):
                ok = False
            elif kind == "bip":
                v, adj, tab = a.split(" ")
                mt = []
                if tab != "-":
                    for t in tab.split(","):
                        k, o = t.split("=")
                        mt.append((k, ("n", int(o[1:])) if o[0] == "n" else
                                   ("e",) + tuple(int(x) for x in o[1:].split(".") if x != "_")))
                ok = graphs_agree(parse_model_graph(v, adj, False, str), ex[1]) and sorted(mt) == ex[2]
            elif kind == "graph":
                v, adj = a.split(" ")
                ok = graphs_agree(parse_model_graph(v, adj, ex[2], int), ex[1])
            elif kind == "line":
                parts = a.split(" ")
                v, adj, tab = parts[0], parts[1], parts[2]
                if ex[2]:
                    src, tgt = tab.split("|")
                    mtab = [hgxv.dec_lists(src), hgxv.dec_lists(tgt)]
                else:
                    mtab = hgxv.dec_lists(tab)
                ok = graphs_agree(parse_model_graph(v, adj, ex[2], int), ex[1]) and mtab == ex[3]
            elif kind == "simp":
                ok = hgxv.dec_lists(a) == ex[1]
            elif kind == "degs":
                md = []
                if a != "-":
                    for t in a.split(","):
                        v, dgr = t.rsplit(":", 1)
                        md.append((v if v[:1] in "NE" else int(v), int(dgr)))
                ok = md == list(ex[1])
            elif kind == "gram":
                ng, eg, inc = a.split(" ")
                ok = hgxv.dec_lists(ng) == ex[1] and hgxv.dec_lists(eg) == ex[2] and hgxv.dec_lists(inc) == ex[3]
            elif kind == "sim":
                mi, mj, md = a.split(" ")
                ri, rj, rd = ex[1], ex[2], ex[3]
                ok = (ri[0] == "ok" and not isinstance(ri[1], bool) and ri[1] == int(mi))
                for m, r, tol in ((mj, rj, 0.0), (md, rd, 1e-12)):
                    if m == "exc" or r[0] != "ok":
                        ok = ok and m == "exc" and r[0] != "ok"
                    else:
                        ok = ok and abs(float(Fraction(hgxv.dec_num(m))) - float(r[1])) <= tol
        except Exception as e:  # noqa: BLE001
            ok = False
            a = f"{a!r} (unparsable: {e!r})"
        if not ok:
            if is_extension_line(ln):
                # lines of the extension round speak about behaviour outside the property's words (s <= 0, unknown distance,
                # vertex order, degrees): report them twice per run at most, so that they never use up the reports before
                # the search has found an input on which the property itself fails
                _EXT_DIFFS[0] += 1
                if _EXT_DIFFS[0] > 2:
                    continue
            ctx.disagree({**case, "line": ln}, f"model answers {str(a)[:300]!r} to {ln!r}, implementation gives {str(ex)[:400]}")
            return


def check_case(ctx, drv, case):
    old = signal.signal(signal.SIGALRM, _alarm)
    signal.alarm(30)
    try:
        run_program(ctx, drv, case)
    except Timeout:
        ctx.violation(case, "the history / the projection routines did not return within 30 s on this input")
    except RuntimeError:
        raise                      # the Lean driver died: tool failure
    except Exception as e:  # noqa: BLE001
        # the unchanged tree never gets here (seeds 0-5, thorough); outputs of an unexpected shape do
        ctx.violation(case, f"the outputs could not be examined as graphs / id tables / hyperedge lists: {e!r}"[:300])
    finally:
        signal.alarm(0)
        signal.signal(signal.SIGALRM, old)



# ------------------------------------------------------------------------------------------
# generators: label universes.  A universe is a list of GROUPS; the labels of one group are mutually comparable
# (Python's `<` is a strict total order on them); a hyperedge (directed: a side) takes its nodes from ONE group.

STR_POOL = [chr(97 + i) * k for i in range(12) for k in (1, 2)] + \
           ["E0", "E1", "N0", "N1", "", "E", "N", "N10", "E01", "EN", "NE1", "e0", "n1", "0", "1", "E-1", "N 0",
            "\u00c90", "\u4e2d", "n\u0303", "(1, 2)"]
NAME_POOL = ["N0", "E0", "N1", "E1", "E", "N", "a", "b", "E2", "N2", "0", "1"]


def label_pool(rng, n):
    """n labels of ONE group"""
    r = rng.random()
    if r < 0.22:
        return rng.sample(STR_POOL, n)
    if r < 0.36:
        off = rng.randint(1, 50)
        return rng.sample(range(off, off + n), n)
    if r < 0.45:
        return rng.sample(range(n), n)
    if r < 0.52:
        return rng.sample(list(range(-6, 7)) + [10 ** 9 + 7, 2 ** 63, 2 ** 63 + 1, -10 ** 12], n)
    if r < 0.68:
        return rng.sample(range(0, 60), n)
    if r < 0.76:     # tuples of ints (grid coordinates), the empty tuple, tuples of other lengths
        return rng.sample([(a, b) for a in range(4) for b in range(4)] + [(), (0,), (1,), (0, 1, 2), (3, 0, 0, 1)], n)
    if r < 0.81:     # tuples of strings
        return rng.sample([(a,) for a in "abN"] + [(a, b) for a in ("a", "N0", "E1", "") for b in ("b", "E0", "N0")]
                          + [(), ("a", "b", "c")], n)
    if r < 0.88:     # a chain of frozensets (the only frozensets Python's sorted() can order)
        elems = rng.sample([0, 1, 2, 3, 5, 8, "a", "b", "N0", "E0", (1, 2), 2.5, 10 ** 6, "", -1, 7, 9, 11], n + 1)
        start = rng.randint(0, 1)
        return [frozenset(elems[:k]) for k in range(start, start + n)]
    if r < 0.95:     # numbers of several types: ints, non-integral floats, infinities, beyond 2^53
        return rng.sample(list(range(-3, 9)) + [0.5, 1.5, 2.5, -0.5, 7.25, float("inf"), -float("inf"), 2 ** 53 + 1,
                                                  1e300, 2 ** 63, 0.1], n)
    return rng.sample([bytes([97 + i]) * k for i in range(8) for k in (1, 2)] + [b"N0", b"E0", b"", b"E1"], n)


def leaves(x):
    if isinstance(x, (tuple, frozenset)):
        for y in x:
            yield from leaves(y)
    else:
        yield x


def spares_for(group, taken, want=3):
    """labels that are in no content, comparable with every label of the group: for temporary items and for items of
    the OTHER object"""
    x0 = group[0]
    ls = [y for x in group for y in leaves(x)]
    stringy = any(isinstance(y, str) for y in ls)
    ints = [int(y) for y in ls if isinstance(y, (int, float)) and y == y and abs(y) < 10 ** 15]
    m = max(ints + [0])

    def leaf_spares():
        if isinstance(x0, bytes):
            for i in itertools.count():
                yield b"z" + bytes([120 + i % 3]) + b"y" * (i // 3)
        elif stringy or isinstance(x0, str):
            for i in itertools.count():
                yield "z" + "xyzw"[i % 4] + "q" * (i // 4)
        else:
            for i in itertools.count(1):
                yield m + i * i

    out = []
    if isinstance(x0, frozenset):
        top = frozenset(max(group, key=len))
        for s in leaf_spares():
            top = top | {s}                      # the chain goes on
            if top not in taken:
                out.append(top)
            if len(out) == want:
                return out
    if isinstance(x0, tuple):
        # a tuple of the group made longer: a proper extension compares by length, and its new members repeat an old one
        base = max(group, key=len)
        filler = base[-1] if base else 0
        s = base
        while len(out) < want:
            s = s + (filler,)
            if s not in taken:
                out.append(s)
        return out
    gen = leaf_spares()
    while len(out) < want:
        s = next(gen)
        if s not in taken:
            out.append(s)
    return out


def with_spares(groups):
    taken = {x for g in groups for x in g}
    U = []
    for g in groups:
        sp = spares_for(g, taken)
        taken |= set(sp)
        U.append({"g": osorted(g), "spare": sp})
    return U


def one_group_universe(rng, n):
    return with_spares([label_pool(rng, n)]), []


def multi_universe(rng, n, directed):
    """2-5 groups: a base group B of scalars, tuple labels over B that ARE node tuples of hyperedges (returned as `forced`
    hyperedges), nested ones, frozenset chains, scalars of the other type, bytes"""
    n = max(n, 4)
    if rng.random() < 0.6:
        k = rng.randint(2, min(5, n - 1))
        B = rng.sample(range(0, 7), k)                    # small ints: equal to hyperedge ids and positions
        other = lambda: rng.sample(NAME_POOL, rng.randint(1, 3))      # noqa: E731
        if rng.random() < 0.3:
            B += rng.sample([0.5, 2.5, float("inf"), -1.5], 1)
    else:
        k = rng.randint(2, min(5, n - 1))
        B = rng.sample(NAME_POOL, k)
        other = lambda: rng.sample(range(0, 7), rng.randint(1, 3))    # noqa: E731
    B = osorted(B)
    groups, forced = [B], []
    left = n - len(B)

    def sorted_sub(G, lo=1, hi=3):
        return tuple(osorted(rng.sample(G, rng.randint(lo, min(hi, len(G))))))

    # tuple labels over B
    T = []
    for _ in range(rng.randint(1, 3)):
        t = sorted_sub(B)
        if t not in T:
            T.append(t)
            if directed:
                rest = [x for x in B if x not in t] or list(B)
                o = tuple(rng.sample(rest, rng.randint(1, min(2, len(rest)))))
                forced.append((t, o) if rng.random() < 0.5 else (o, t))      # label == a side of a hyperedge
            else:
                forced.append(t)                                                # label == the hyperedge's node tuple
    for t in ([()] if rng.random() < 0.3 else []) + \
            ([tuple(reversed(T[0]))] if len(T[0]) > 1 and rng.random() < 0.4 else []):
        if t not in T:
            T.append(t)                                   # distractors: the empty tuple, an unsorted tuple
    groups.append(T)
    left -= len(T)
    kinds = ["nested", "chain", "other", "bytes", "chain"]
    rng.shuffle(kinds)
    for kd in kinds:
        if left <= 0 and rng.random() < 0.6:
            break
        if kd == "nested":
            # labels that are hyperedges made of tuple-labelled nodes / (directed) that are (source, target) pairs
            TT = []
            nonempty = [t for t in T if t]
            if directed:
                a, b = sorted_sub(B, 1, 2), sorted_sub(B, 1, 2)
                TT.append((a, b))
                forced.append((a, b))                     # label == the hyperedge itself
            if len(nonempty) >= 1 and (not directed or rng.random() < 0.5):
                tt = tuple(osorted(rng.sample(T, rng.randint(1, min(2, len(T))))))
                if tt not in TT:
                    TT.append(tt)
                    if directed:
                        forced.append((tt, tuple(rng.sample(B, 1))))
                    else:
                        forced.append(tt)
            if TT:
                groups.append(TT)
                left -= len(TT)
        elif kd == "chain":
            elems = rng.sample(list(dict.fromkeys(list(B) + ["a", 9, (1, 2), "N0"])), rng.randint(1, 3))
            start = rng.randint(0, 1)
            ch = [frozenset(elems[:j]) for j in range(start, len(elems) + 1)]
            if ch and all(c not in g for g in groups for c in ch):
                groups.append(ch)
                left -= len(ch)
        elif kd == "other":
            o = [x for x in other() if all(x not in g for g in groups)]
            if o:
                groups.append(o)
                left -= len(o)
        elif kd == "bytes":
            groups.append(rng.sample([b"a", b"b", b"N0", b"E0", b""], rng.randint(1, 2)))
            left -= len(groups[-1])
    return with_spares(groups), forced


def make_universe(rng, n, directed):
    if rng.random() < 0.35:
        return multi_universe(rng, n, directed)
    return one_group_universe(rng, n)


def pick_group(rng, groups, least=1):
    """a group with at least `least` labels, chosen with probability proportional to its size"""
    cand = [g for g in groups if len(g) >= least] or [g for g in groups if g]
    return rng.choices(cand, weights=[len(g) for g in cand])[0]


def group_with(groups, x):
    for g in groups:
        if x in g:
            return g
    return None


ALTS = [[]] * 12 + [["float", "bool"]] * 3 + [["frac"]] + [["np"]] * 2 + [["float", "bool", "np"]] * 2


# ------------------------------------------------------------------------------------------
# generators: contents

def gen_undirected(rng):
    big = rng.random() < 0.03        # a few larger ones: two-digit vertex names and ids
    n = rng.randint(11, 15) if big else rng.randint(3, 9)
    U, forced = make_universe(rng, n, False)
    groups = [u["g"] for u in U]
    labels = [x for g in groups for x in g]
    edges = []
    for _ in range(rng.randint(10, 16) if big else rng.randint(1, 10)):
        g = pick_group(rng, groups)
        size = min(len(g), rng.choice([1, 2, 2, 3, 3, 4, 5]))
        e = tuple(rng.sample(g, size))
        edges.append(e)
        r = rng.random()
        if r < 0.25 and size > 1:
            edges.append(tuple(rng.sample(e, rng.randint(1, size - 1))))          # nested
        elif r < 0.5:
            extra = [x for x in g if x not in e]
            keep = rng.sample(e, rng.randint(1, size))
            add = rng.sample(extra, min(len(extra), rng.randint(0, 2)))
            if 1 <= len(keep) + len(add) <= 5:
                edges.append(tuple(keep + add))                                    # overlapping
    for f in forced:
        if rng.random() < 0.85:
            f = tuple(rng.sample(f, len(f)))
            edges.insert(rng.randint(0, len(edges)), f)
    seen, out = set(), []
    for e in edges:
        if frozenset(e) not in seen:
            seen.add(frozenset(e))
            out.append(e)
    covered = [x for x in labels if any(x in e for e in out)]
    iso = [x for x in labels if x not in covered and rng.random() < 0.7]
    nodes = [x for x in labels if x in covered and rng.random() < 0.5] + iso
    rng.shuffle(nodes)
    return {"kind": "u", "nodes": nodes, "edges": out, "U": U}


def gen_directed(rng, empty_side=False):
    big = rng.random() < 0.03
    n = rng.randint(9, 12) if big else rng.randint(3, 8)
    U, forced = make_universe(rng, n, True)
    groups = [u["g"] for u in U]
    labels = [x for g in groups for x in g]
    edges = []
    for _ in range(rng.randint(9, 14) if big else rng.randint(1, 8)):
        a = rng.randint(0 if empty_side and rng.random() < 0.4 else 1, 3)
        b = rng.randint(0 if empty_side and rng.random() < 0.4 else 1, 3)
        if a + b == 0:
            a = 1
        g1 = pick_group(rng, groups, 2)
        g2 = g1 if rng.random() < 0.75 else pick_group(rng, groups)
        if g1 is not g2 or rng.random() < 0.1:
            src, tgt = rng.sample(g1, min(a, len(g1))), rng.sample(g2, min(b, len(g2)))  # sides may overlap
        else:
            pick = rng.sample(g1, min(len(g1), a + b))
            src, tgt = pick[:a], pick[a:]
            if not tgt and b > 0:
                src, tgt = pick[:-1], pick[-1:]
        if not src and not tgt:
            continue
        if not empty_side and (not src or not tgt):
            continue
        edges.append((tuple(src), tuple(tgt)))
        if rng.random() < 0.4 and edges:
            f = rng.choice(edges)
            if f[1]:
                gf = group_with(groups, f[1][0])
                extra = rng.sample(gf, rng.randint(0, 1))
                src2 = tuple(dict.fromkeys(list(rng.sample(f[1], rng.randint(1, len(f[1])))) + extra))
                g3 = pick_group(rng, groups)
                tgt2 = tuple(x for x in rng.sample(g3, min(len(g3), rng.randint(1, 2))) if x not in src2)
                if tgt2 or empty_side:
                    edges.append((src2, tgt2))
    for f in forced:
        if rng.random() < 0.85:
            edges.insert(rng.randint(0, len(edges)), (tuple(rng.sample(f[0], len(f[0]))), tuple(rng.sample(f[1], len(f[1])))))
    seen, out = set(), []
    for e in edges:
        k = (frozenset(e[0]), frozenset(e[1]))
        if k not in seen:
            seen.add(k)
            out.append(e)
    iso = [x for x in labels if rng.random() < (0.2 if len(groups) == 1 else 0.5)]
    return {"kind": "d", "nodes": iso, "edges": out, "U": U}


HIF_NODE_NAMES = ["a", "b", "c", "d", "e", "f", "g", "n0", "N1", "0", "1", "", "x y", "\u00e9"] + list(range(0, 12)) + [10 ** 9, -3]
HIF_EDGE_NAMES = ["e0", "e1", "e2", "E3", "lonely", "", "0", "edge 5", "f"] + list(range(0, 9))


def gen_hif(rng):
    """a HIF document (nodes / edges / incidences tables): 1-8 named nodes, 0-7 named hyperedges of size 1-5 given by
    incidence records in random order, 0-2 (60%: at least 1) edge records WITHOUT incidences, node records without
    incidences (isolated nodes), nodes and hyperedges that occur only in the incidence table, sometimes two edge names
    with the same node set.  The content of the object read from it: `hif_content`"""
    n = rng.randint(1, 8)
    names = rng.sample(HIF_NODE_NAMES, n)
    enames = rng.sample(HIF_EDGE_NAMES, len(HIF_EDGE_NAMES))
    mem = {}
    for _ in range(rng.randint(0, 7)):
        e = enames.pop()
        if mem and rng.random() < 0.08:
            mem[e] = list(rng.choice(list(mem.values())))
        else:
            mem[e] = rng.sample(names, rng.randint(1, min(5, n)))
            if mem and rng.random() < 0.4:      # overlapping / nested with an earlier one
                o = rng.choice(list(mem.values()))
                mem[e] = list(dict.fromkeys(rng.sample(o, rng.randint(1, len(o))) + mem[e][:rng.randint(0, 2)]))[:5]
    incidences = [{"edge": e, "node": x} for e, m in mem.items() for x in m]
    rng.shuffle(incidences)
    for inc in incidences:
        if rng.random() < 0.2:
            inc["weight"] = rng.choice([1, 0.5, 2])
    lonely = [enames.pop() for _ in range(rng.choice([0, 0, 1, 1, 1, 2]))]
    etab = [e for e in mem if rng.random() < 0.8] + lonely
    rng.shuffle(etab)
    ntab = [x for x in names if rng.random() < 0.8]
    rng.shuffle(ntab)
    data = {"network-type": "undirected", "type": rng.choice(["undirected", "undirected", "asc"]),
            "metadata": {"name": "generated"},
            "nodes": [{"node": x, **({"attrs": {"k": 1}} if rng.random() < 0.3 else {})} for x in ntab],
            "edges": [{"edge": e, **({"weight": 1.5} if rng.random() < 0.3 else {})} for e in etab],
            "incidences": incidences}
    nodes, edges = hif_content(data)
    if not nodes:
        data["nodes"].append({"node": names[0]})
        nodes, edges = hif_content(data)
    return {"kind": "u", "nodes": osorted(nodes), "edges": osorted(edges), "U": with_spares([osorted(nodes)]), "hif": data}


def small_undirected(rng, universe=5, max_edges=4):
    subsets = [c for r in range(1, universe + 1) for c in itertools.combinations(range(universe), r)]
    for m in range(1, max_edges + 1):
        for combo in itertools.combinations(subsets, m):
            yield combo


def small_directed(universe=4, max_edges=3):
    des = []
    for assign in itertools.product((0, 1, 2), repeat=universe):
        s = tuple(i for i in range(universe) if assign[i] == 1)
        t = tuple(i for i in range(universe) if assign[i] == 2)
        if s and t:
            des.append((s, t))
    for m in range(1, max_edges + 1):
        for combo in itertools.combinations(des, m):
            yield combo


def instantiate(rng, combo, universe, directed):
    lab = label_pool(rng, universe)
    lab_sorted = osorted(lab)         # keep the abstract order so that every abstract case is a distinct concrete one
    combo = list(combo)
    rng.shuffle(combo)
    groups = [lab_sorted]
    extra = []
    if rng.random() < 0.15:
        # one more node whose label is the node tuple of a hyperedge (directed: a side / the pair), mostly isolated
        c = rng.choice(combo)
        if directed:
            t = rng.choice([tuple(lab_sorted[i] for i in c[0]), tuple(lab_sorted[i] for i in c[1]),
                            (tuple(lab_sorted[i] for i in c[0]), tuple(lab_sorted[i] for i in c[1]))])
        else:
            t = tuple(lab_sorted[i] for i in c)
        if t not in lab_sorted:
            groups.append([t])
            extra = [t]
    U = with_spares(groups)
    if directed:
        edges = [(tuple(rng.sample([lab_sorted[i] for i in e[0]], len(e[0]))),
                  tuple(rng.sample([lab_sorted[i] for i in e[1]], len(e[1])))) for e in combo]
        if extra and rng.random() < 0.4:
            edges.insert(rng.randint(0, len(edges)), ((extra[0],), (rng.choice(lab_sorted),)))
        return {"kind": "d", "nodes": rng.sample(lab_sorted + extra, universe + len(extra)), "edges": edges, "U": U}
    edges = [tuple(rng.sample([lab_sorted[i] for i in e], len(e))) for e in combo]
    if extra and rng.random() < 0.4:
        edges.insert(rng.randint(0, len(edges)), (extra[0],))
    return {"kind": "u", "nodes": rng.sample(lab_sorted + extra, universe + len(extra)), "edges": edges, "U": U}


# ------------------------------------------------------------------------------------------
# generators: histories

class Prog:
    """a program under construction: ops are tracked with the labels as objects and recorded with every label in an
    encoded presentation of its own (`present`)"""

    def __init__(self, kind, rng, alts):
        self.kind, self.ops, self.T, self.rng, self.alts = kind, [], {}, rng, alts
        self.n_empty = 0

    def empty(self, X):
        """a record in the registry of node-less hyperedges of X (Hypergraph.add_empty_edge - what read_hif does for an
        edge record without incidences); names are used once per program"""
        self.n_empty += 1
        name = self.rng.choice([f"x{self.n_empty}", f"lonely-{self.n_empty}", 1000 + self.n_empty, -self.n_empty])
        self.do("empty", X, name, self.rng.choice([{}, {"note": "no incidences"}, {"edge": name, "weight": 2.5}, None]))
        if self.rng.random() < 0.15:
            self.do("empty!", X, name, {})      # the same name once more: a rejected call inside the history

    def do(self, *op):
        op = list(op)
        track(self.T, self.kind, op)
        self.ops.append(map_op(op, self.kind, lambda x: present(self.rng, x, self.alts)))


def new_edge(rng, kind, have, groups, like=None):
    """a hyperedge whose nodes (directed: each side's nodes) come from one of `groups`, not in `have` (canonical forms);
    `like`: same shape as this one and from the same groups"""
    groups = [list(g) for g in groups if g]
    if not groups:
        return None
    for _ in range(30):
        if kind == "d":
            a, b = (len(like[0]), len(like[1])) if like is not None else (rng.randint(1, 3), rng.randint(1, 3))
            g1 = (group_with(groups, like[0][0]) if like is not None and like[0] else None) or pick_group(rng, groups)
            g2 = (group_with(groups, like[1][0]) if like is not None and like[1] else None) or \
                (g1 if rng.random() < 0.7 else pick_group(rng, groups))
            if a == 0 or b == 0:
                a, b = 1, 1
            if g1 is g2:
                if len(g1) < 2:
                    continue
                if a + b > len(g1):
                    a, b = 1, 1
                pick = rng.sample(g1, a + b)
                e = (tuple(pick[:a]), tuple(pick[a:]))
            else:
                e = (tuple(rng.sample(g1, min(a, len(g1)))), tuple(rng.sample(g2, min(b, len(g2)))))
        else:
            g = (group_with(groups, like[0]) if like is not None and like else None) or pick_group(rng, groups)
            k = len(like) if like is not None else rng.choice([1, 2, 2, 3, 3, 4, 5])
            k = max(1, min(k, len(g)))
            e = tuple(rng.sample(g, k))
        if canon_edge(kind, e) not in have:
            return e
    return None


def restrict(groups, present_nodes):
    return [[x for x in g if x in present_nodes] for g in groups]


def gen_edit(rng, P, X, U, must_remove=False):
    """one edit of object X (one to three ops), valid for its tracked content"""
    kind, T = P.kind, P.T[X]
    E = osorted(T.edges)
    N = osorted(T.nodes)
    everything = [u["g"] + u["spare"] for u in U]
    choices = []
    if E:
        choices += ["rm", "rm", "replace", "readd", "rmnode", "rmnode_keep"] + ([] if must_remove else ["again"])
    if len(E) >= 2:
        choices += ["rms", "rmnodes"]
    if not must_remove or not E:
        choices += ["edge", "edges", "node", "temp"] + (["empty"] if kind == "u" else [])
        if rng.random() < 0.08:
            choices = ["clear"]
    m = rng.choice(choices)
    if m == "empty":
        return P.empty(X)
    if m in ("rmnode", "rmnode_keep", "rmnodes"):
        keep = m == "rmnode_keep"
        cand = [n for n in N if (T.incident(n) or rng.random() < 0.3) and T.removable(n, keep)]
        if m == "rmnodes" and len(cand) >= 2:
            return P.do("rmnodes", X, rng.sample(cand, 2), False)
        if cand:
            return P.do("rmnode", X, rng.choice(cand), keep)
        m = "rm"
    if m == "again":         # an existing hyperedge inserted once more, nodes in another order: nothing changes
        e = rng.choice(E)
        if kind == "d":
            return P.do("edge", X, (tuple(rng.sample(e[0], len(e[0]))), tuple(rng.sample(e[1], len(e[1])))))
        return P.do("edge", X, tuple(rng.sample(e, len(e))))
    if m == "rm":
        return P.do("rm", X, rng.choice(E))
    if m == "rms":
        return P.do("rms", X, rng.sample(E, 2))
    if m == "readd":
        e = rng.choice(E)
        P.do("rm", X, e)
        return P.do("edge", X, e)
    if m == "replace":       # node and hyperedge counts stay what they were
        e = rng.choice(E)
        f = new_edge(rng, kind, T.edges, restrict(everything, T.nodes), like=e)
        P.do("rm", X, e)
        if f is not None:
            P.do("edge", X, f)
        return
    if m == "node":
        free = [x for g in everything for x in g if x not in T.nodes]
        if free:
            return P.do("node", X, rng.choice(free))
        m = "edge"
    if m == "clear":
        P.do("clear", X)
        m = "edges"
    full = [u["g"] + u["spare"][:1] for u in U]
    f = new_edge(rng, kind, P.T[X].edges, full)
    if f is None:
        return
    if m == "temp":
        P.do("edge", X, f)
        return P.do("rm", X, f)
    if m == "edges":
        g = new_edge(rng, kind, P.T[X].edges | {canon_edge(kind, f)}, full)
        return P.do("edges", X, [f] + ([g] if g is not None else []))
    return P.do("edge", X, f)


def build(rng, P, X, nodes, edges, U, style):
    build_content(rng, P, X, nodes, edges, U, style)
    if P.kind == "u" and rng.random() < 0.15:
        for _ in range(rng.randint(1, 2)):
            P.empty(X)


def build_content(rng, P, X, nodes, edges, U, style):
    kind = P.kind
    edges = list(edges)
    if style == "ctor":
        P.do("ctor", X, edges)
        return P.do("nodes", X, list(nodes))
    P.do("new", X)
    P.do("nodes", X, list(nodes))
    if style == "single":
        for e in edges:
            P.do("edge", X, e)
        return
    if style == "detour" and edges:
        # a removed temporary hyperedge (ids get a gap) and a removal + re-insertion (the hyperedge moves to the end)
        temp = new_edge(rng, kind, {canon_edge(kind, e) for e in edges}, [u["g"] for u in U])
        if temp is not None:
            P.do("edge", X, temp)
        P.do("edges", X, edges)
        if temp is not None:
            P.do("rm", X, temp)
        e = rng.choice(edges)
        P.do("rm", X, e)
        return P.do("edge", X, e)
    P.do("edges", X, edges)


def derive(rng, P, Y, X, exact=False):
    """object Y from object X: copy(), subhypergraph(all nodes / some nodes), get_edges(size=k, subhypergraph=True);
    `exact`: only the ways that give Y the whole content of X"""
    kind, T = P.kind, P.T[X]
    N = osorted(T.nodes)
    how = rng.random()
    if how < 0.5 or (exact and kind == "d" and how < 0.8):
        return P.do("copy", Y, X)
    if how < 0.6 or (exact and kind == "d"):
        return P.do(rng.choice(["deepcopy", "pickle", "hgx"]), Y, X)
    if kind == "u" and (how < 0.8 or exact):
        return P.do("sub", Y, X, rng.sample(N, len(N)))
    if kind == "u" and how < 0.9:
        return P.do("sub", Y, X, rng.sample(N, rng.randint(0, len(N))))
    sizes = sorted({esize(kind, e) for e in T.edges} - {0}) or [2]
    P.do("subk", Y, X, rng.choice(sizes + sizes + [7]), rng.random() < 0.5)


ROUTES_RANDOM = ["plain"] * 3 + ["detour"] * 2 + ["copy"] * 4 + ["copied"] * 3 + ["reproject"] * 3 + ["events"] * 5
ROUTES_SMALL = ["plain"] * 11 + ["detour"] * 2 + ["copy"] * 3 + ["copied"] * 2 + ["reproject"] * 2


def make_case(rng, base, route):
    """program whose (last) projection of object A sees the content `base` when the route is not 'events'"""
    kind, nodes, edges, U = base["kind"], base["nodes"], base["edges"], base["U"]
    spare = [x for u in U for x in u["spare"][:1]]
    weighted = rng.random() < 0.15 and route != "hif"       # read_hif builds an unweighted Hypergraph
    alts = rng.choice(ALTS)
    if any(isinstance(x, (tuple, frozenset)) or (isinstance(x, (int, float)) and 2 ** 53 <= abs(x) < float("inf"))
           for u in U for x in u["g"] + u["spare"]):
        # numpy scalars broadcast `==` over tuples (np.int64(1) == (1, 2) is an array) and compare with Python ints after
        # rounding them to float64 (np.float64(2**63) == 2**63 + 1): not usable as labels next to tuple labels / huge ints,
        # in any Python container
        alts = [a for a in alts if a != "np"]
    P = Prog(kind, rng, alts)
    style = rng.choice(["batch", "batch", "ctor", "single", "detour"])
    if route != "hif" and (route in ("plain", "detour") or not edges):
        build(rng, P, "A", nodes, edges, U, "detour" if route == "detour" else rng.choice(["batch", "batch", "ctor", "single"]))
        P.do("project", "A")
    elif route == "copy":
        # A is the ORIGINAL of a copy (or of a sub-hypergraph) that is edited afterwards
        build(rng, P, "A", nodes, edges, U, style)
        if rng.random() < 0.3:
            P.do("project", "A")
        derive(rng, P, "B", "A")
        gen_edit(rng, P, "B", U, must_remove=True)
        for _ in range(rng.randint(0, 2)):
            gen_edit(rng, P, "B", U)
        P.do("project", "A")
        P.do("project", "B")
    elif route == "copied":
        # A is the COPY (or the full sub-hypergraph) of an original that is edited afterwards
        build(rng, P, "O", nodes, edges, U, style)
        if rng.random() < 0.3:
            P.do("project", "O")
        derive(rng, P, "A", "O", exact=True)
        gen_edit(rng, P, "O", U, must_remove=True)
        for _ in range(rng.randint(0, 2)):
            gen_edit(rng, P, "O", U)
        P.do("project", "A")
        P.do("project", "O")
    elif route == "reproject":
        # A is projected, edited in place (same number of nodes and hyperedges when possible), projected again
        iso = [x for x in nodes if not any(x in members(kind, e) for e in edges)]
        r = rng.random()
        if r < 0.15 and iso:
            # only the node set changes: an isolated node arrives between the two projections
            x = rng.choice(iso)
            build(rng, P, "A", [y for y in nodes if y != x], edges, U, style)
            P.do("project", "A")
            P.do("node", "A", x)
        elif r < 0.3:
            # only the node set changes: an isolated node leaves between the two projections
            sp = rng.choice(spare)
            build(rng, P, "A", list(nodes) + [sp], edges, U, style)
            P.do("project", "A")
            P.do("rmnode", "A", sp, rng.random() < 0.5)
        else:
            i = rng.randrange(len(edges))
            present_nodes = set(nodes) | {x for e in edges for x in members(kind, e)}
            f = new_edge(rng, kind, {canon_edge(kind, e) for e in edges}, restrict([u["g"] for u in U], present_nodes),
                         like=edges[i])
            first = edges[:i] + ([f] if f is not None else []) + edges[i + 1:]
            build(rng, P, "A", nodes, first, U, style)
            P.do("project", "A")
            if f is not None:
                P.do("rm", "A", f)
            P.do("edge", "A", edges[i])
        P.do("project", "A")
    else:
        if route == "hif":
            P.do("hif", "A", base["hif"])
            if rng.random() < 0.35:
                P.do("project", "A")
        else:
            build(rng, P, "A", nodes, edges, U, style)
        objs = ["A"]
        for _ in range(rng.randint(0 if route == "hif" else 1, 5)):
            X = rng.choice(objs)
            r = rng.random()
            if r < 0.3 and len(objs) < 3:
                Y = "ABC"[len(objs)]
                derive(rng, P, Y, X)
                objs.append(Y)
            elif r < 0.5:
                P.do("project", X)
            else:
                for _ in range(rng.randint(1, 2)):
                    gen_edit(rng, P, X, U)
        for X in objs:
            P.do("project", X)
    return {"kind": kind, "weighted": weighted, "route": route, "alts": alts, "prog": P.ops}


def low(ctx, reserve=5):
    return ctx.too_many() or (ctx.time_left() is not None and ctx.time_left() < reserve)


def run(ctx):
    _EXT_DIFFS[0] = 0
    drv = ctx.driver() if ctx.model_available else None
    rng = ctx.rng
    thorough = ctx.tier == "thorough"
    # fixed corner cases
    for case in [{"kind": "u", "nodes": [], "edges": []},
                 {"kind": "u", "nodes": [7, 3], "edges": []},
                 {"kind": "u", "nodes": [], "edges": [(5,)]},
                 {"kind": "u", "nodes": ["b"], "edges": [("c", "a"), ("a",), ("c",)]},
                 {"kind": "d", "nodes": [], "edges": []},
                 {"kind": "d", "nodes": [4], "edges": [((2,), (1,))]},
                 # a node labelled by the node tuple of a hyperedge, isolated / member of a later / an earlier hyperedge
                 {"kind": "u", "nodes": [1, 2, {"t": [1, 2]}], "edges": [(1, 2)]},
                 {"kind": "u", "nodes": [], "edges": [(1, 2), ({"t": [1, 2]}, {"t": [3, 4]})]},
                 {"kind": "u", "nodes": [], "edges": [({"t": [1, 2]}, {"t": [3, 4]}), (2, 1), ({"t": [1, 2]},)]},
                 {"kind": "u", "nodes": [{"t": ["N0", "a"]}, "E0"], "edges": [("a", "N0"), ("E0", "N0")]},
                 {"kind": "d", "nodes": [{"t": [2]}, {"t": [{"t": [2]}, {"t": [1]}]}], "edges": [((2,), (1,)), (({"t": [2]},), (2,))]},
                 # labels with equal hashes (hash(-1) == hash(-2)), a string that reads like a tuple, 1 and '1'
                 {"kind": "u", "nodes": ["(1, 2)", "1"], "edges": [(-1, 3), (-2, 3), (-1,), (-2,), (1, 2)]},
                 {"kind": "d", "nodes": ["1"], "edges": [((-1,), (3,)), ((-2,), (3,)), ((3,), (-1, 1)), ((3,), (-2, 1))]}]:
        check_case(ctx, drv, case)
    # random larger inputs
    for _ in range(ctx.scale(400, 1500)):
        if low(ctx):
            break
        check_case(ctx, drv, make_case(rng, gen_undirected(rng), rng.choice(ROUTES_RANDOM)))
    for i in range(ctx.scale(280, 1200)):
        if low(ctx):
            break
        check_case(ctx, drv, make_case(rng, gen_directed(rng, empty_side=(i % 8 == 7)), rng.choice(ROUTES_RANDOM)))
    # objects read from HIF documents (edge records without incidences go to the registry of node-less hyperedges)
    for _ in range(ctx.scale(150, 600)):
        if low(ctx):
            break
        check_case(ctx, drv, make_case(rng, gen_hif(rng), "hif"))
    # small scope: exhaustive in thorough, a random slice in quick
    if thorough:
        it_u = small_undirected(rng)
        it_d = small_directed()
    else:
        all_u = list(small_undirected(rng, 5, 3))
        it_u = rng.sample(all_u, 350)
        all_d = list(small_directed(4, 2))
        it_d = rng.sample(all_d, 200)
    done_u = done_d = 0
    for combo in it_d:
        if low(ctx, 180 if thorough else 5):
            break
        check_case(ctx, drv, make_case(rng, instantiate(rng, combo, 4, True), rng.choice(ROUTES_SMALL)))
        done_d += 1
    for combo in it_u:
        if low(ctx, 20 if thorough else 5):
            break
        check_case(ctx, drv, make_case(rng, instantiate(rng, combo, 5, False), rng.choice(ROUTES_SMALL)))
        done_u += 1
    ctx.extra["small_scope_undirected_done"] = done_u
    ctx.extra["small_scope_directed_done"] = done_d
    if thorough:
        ctx.extra["small_scope_undirected_total"] = 36456
        ctx.extra["small_scope_directed_total"] = 20875


def replay(ctx, case):
    drv = ctx.driver() if ctx.model_available else None
    case = dict(case)
    for k in ("line", "at_step", "object"):
        case.pop(k, None)
    check_case(ctx, drv, case)
