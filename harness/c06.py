"""C06 - save then load returns the same hypergraph (json / hgx), the hMETIS and HIF readers.

Correspondence of lean/Hgxv/Model/C06*.lean (content-level model of save.py / load.py / hif.py) with
hypergraphx.readwrite.* and independent property oracles on the implementation."""
import copy
import json
import random
import re
import struct
import zlib
from fractions import Fraction
import os
import pickle
import shutil
import signal
import tempfile

import hgxv

RULE = ("random objects of the four container classes built by histories of add_node / add_edge / add_edges(weights) / "
        "set_weight / remove_edge / remove_node / metadata replace-set-clear calls (2-9 nodes with integer or string "
        "labels incl. huge / negative integers, numeric-looking, empty, very long, non-ASCII and escaped strings, "
        "isolated nodes, 0-8 hyperedges, node sets repeated across times / layers, times up to 10**20, weighted and "
        "unweighted; weights from one of three streams per object: small multiples of 1/4 with int / equal-valued "
        "float twins, integers beyond 2**53 / 2**63 / 2**64 of both signs, floats that are no multiples of 1/4 "
        "(0.1, 1/3, 1e300, 5e-324, 2.0**53 ...); metadata from a pool of JSON values incl. nested lists/dicts, huge "
        "and fractional numbers (also nested), 1 vs 1.0 vs True, -0.0, 3000-character strings, escapes, keys that "
        "look like numbers / are empty / long / non-ASCII, and the reserved keys weight/time/layer; hypergraph "
        "metadata intact / extended / replaced / cleared), each saved as .json and as .hgx into a temporary "
        "directory, loaded back and compared by full public-API digests and per-node incidence listings; then the "
        "LOADED object and a twin of the original get the same further history (add_edge of new and existing keys, "
        "add_node, then removals / set_weight / metadata edits), are compared again, and the mutated loaded object "
        "is saved and loaded once more (same or other format); generated .hgr files (comments, blank lines, "
        "multiple blanks, node-weight lines, with/without weights) and HIF documents (three record kinds, shared "
        "incidence sets, nodes / edges without incidences). SIZE is a dimension: every run also builds, from compact "
        "recipes, each of the four types with more than 10000 records (1 + nodes + hyperedges), one more object beyond "
        "5000 records, objects with exactly 4095 / 4096 / 4097 and 8191..8193 records (thorough: all six, beyond 5000 and "
        "beyond 65536 records for every type), and objects in which ONE size sits at 255 / 256 / 257 or 4095 / 4096 / 4097 "
        "(thorough: also 127..129, 511..513, 999..1001, 1023..1025, 8191..8193, 9999..10001, 65535..65537): number of "
        "nodes, of hyperedges, members of one hyperedge, entries of one node's / hyperedge's / the hypergraph's metadata, "
        "characters of labels / layer names (labels that differ in their last or first character only), characters / "
        "elements / keys of metadata values, times of one node set / layers / isolated nodes only, nesting depth of a "
        "value (<= 257); unsorted non-contiguous labels, temporary items removed again; both formats, the history after "
        "load as above; .hgr files with 255..8193 (one beyond 5000; thorough 65537 / 70000+) hyperedge lines / nodes on one "
        "line / comment lines in a row / node-weight lines / characters of a comment line, HIF documents with 255..4097 "
        "(thorough ..65537) node records / edges / incidences of one edge / edges sharing one set / edges without "
        "incidences / characters of the names. Every label, time, layer name and weight reaches the implementation as a "
        "fresh equal object, node sets travel as tuple / list / set / frozenset / dict / dict view / generator / iterator, "
        "part of the histories goes through add_edges batches and through the constructor (edge_list, weights, "
        "hypergraph / node / edge metadata); collections handed in are overwritten after the call. "
        "STRING CONTENT is a dimension: a pool of about 165 strings (lone and reversed surrogates such as os.fsdecode gives for "
        "undecodable file names, NUL / C0 / C1 control characters, CR / LF / TAB, every separator of str.splitlines incl. "
        "U+2028 / U+2029 / U+0085, BOM and non-characters, composed vs decomposed accents, case / compatibility twins "
        "(K, k, KELVIN SIGN; ss, SS, sharp s), white space that str.strip removes, zero-width and bidi marks, astral characters, "
        "UTF-8 length boundaries, strings that look like numbers / JSON values / escapes / the format's own field names, numerals of "
        "hundreds of digits) plus a dozen long ones (70001 ASCII, thousands of non-ASCII / astral / surrogate / NUL / quote / "
        "backslash characters, 65535 characters + a lone surrogate); every run saves and loads, for each of the four types, a "
        "CENSUS object in which every string of the pool is a node label, a member of a hyperedge, a metadata key and a "
        "metadata value (plain, nested in lists, key and value of nested dicts) of a node, a hyperedge and the hypergraph, with "
        "layer names from the pool (one of the four also with the long strings), objects with random odd labels / layer names / "
        "keys / values (12 % of the stream) and - in a CHILD PROCESS whose locale encoding is ASCII (LC_ALL=C, UTF-8 mode "
        "off) - a dozen more objects, whose files also cross between the two processes (saved under one locale, loaded under "
        "the other, both directions, both formats); files are saved under names with several dots, blanks, non-ASCII / astral / "
        "undecodable characters and inside a directory whose name holds a dot; .hgr comment and blank lines hold non-ASCII, "
        "astral, NUL and splitlines-separator characters followed by what would be a hyperedge line, CRLF files; HIF names and "
        "attribute keys / values come from the same pool and HIF documents are written as ASCII escapes or as raw UTF-8. "
        "A case is distinct by (kind, type, digest or file text or recipe); "
        "non-trivial: an object with >= 1 isolated node, >= 2 hyperedges and non-empty metadata somewhere; a .hgr file "
        "with a comment or blank line and >= 2 hyperedges; a HIF document with a shared incidence set or an edge "
        "without incidences")
ASSUMPTIONS = ["node labels, layer names and metadata are JSON-representable (str keys; str/int/float/bool/None/list/dict "
               "values, finite floats); strings are arbitrary Python str INCLUDING lone surrogates, except a high surrogate "
               "immediately followed by a low one (json.loads reads the two escapes as one astral character: that str has no JSON "
               "text of its own); labels of one object are all int or all str",
               "the round trip does not depend on the process's locale encoding nor on the process that wrote the file "
               "(the unchanged writer emits ASCII text / pickles): checked under UTF-8 and under LC_ALL=C (ASCII)",
               "'the same weights / metadata' is read as: equal value AND equal numeric type (int stays int, float stays "
               "float, bool stays bool, -0.0 stays -0.0) - JSON text and pickle both keep them apart and the hash of "
               "C07 distinguishes them; integers are compared exactly (no float rounding). For UNWEIGHTED objects only "
               "the value 1 is demanded of the weight (an unweighted temporal / multiplex object stores an accepted "
               "weight=1.0 as given; the text format does not write weights of unweighted objects)",
               "a loaded object is a full object: the same further history applied to it and to the original gives equal "
               "digests again, and its per-node incident-edge listing equals the original's whenever the original's "
               "listing agrees with its own hyperedge list",
               "hyperedges are duplicate-free node tuples; temporal hyperedges are undirected node sets",
               "objects violating the container invariants (a hyperedge naming a node that is not listed), which only "
               "arise from removal defects of C01-C04, are skipped and counted",
               ".hgr: positive integer labels, single blank in the header line, weighted files list distinct node sets",
               "HIF: network-type undirected / asc / absent, all three record lists present, distinct (edge,node) pairs",
               "objects beyond 1500 (thorough 2500) records: every oracle of the property runs in full in Python, the file is "
               "compared record by record with the record list the model's save is known to write (expected_records), its "
               "FRAMING ([, one separator between neighbouring records, ]) goes to the model in full (driver command "
               "frame: readText / writeText), and the model's wf / save / load / populate-expose and its add_node / add_edge "
               "replay run on a SAMPLED sub-content (records around positions 256, 1000, 1024, 4096, 8192, 10000, 16384, "
               "65536 of the file, the first and last two nodes / hyperedges, two dozen random ones, everything the later "
               "history names, closed under membership); the three objects with 4095 / 4096 / 4097 records go through "
               "the model whole in the thorough tier. .hgr files beyond 1100 (4200) hyperedge lines or 5000 (20000) tokens "
               "and HIF documents with an incidence set beyond 300 nodes, beyond 3000 (12000) incidences or 4200 (12000) "
               "records are checked by the Python oracles only (the list-based model functions are quadratic / cubic)",
               "two objects loaded from one file share nothing with each other nor with the saved object; loading a file "
               "again after the first loaded object was used gives the first result again",
               "labels / layer names are mapped to their rank, metadata keys/values to pool indices before they reach the "
               "model; weights reach the model as exact integers 4*w (any magnitude); float weights that are no "
               "multiple of 1/4 as injective opaque codes (the model stores and compares weights on the save/load "
               "path; histories in which such weights add up are compared with the twin object only)"]
TRUSTED = ["json.dump/json.load and pickle.dump/pickle.load are faithful on JSON-representable values (tuples come back as lists); "
           "of json's text layer the STRING LITERALS are modelled (lean/Hgxv/Model/C06Str.lean: C06_str_roundtrip, C06_str_ascii) "
           "and compared with json.dumps / json.loads and with the bytes of the saved files; numbers, nesting and the C "
           "accelerators stay trusted",
           "str.strip / str.split / int of the .hgr tokeniser (the harness tokenises the same text for the model)",
           "json.JSONDecoder.raw_decode as the scanner of ONE top-level value when the saved text is cut into pieces "
           "([ , value ]) for the model's framing grammar",
           "float weights k/4 of small magnitude add exactly in binary64; Python int arithmetic is exact"]
BUDGET_S = {"quick": 50, "thorough": 900}

TYPES = ["H", "D", "T", "M"]
TNAME = {"H": "Hypergraph", "D": "DirectedHypergraph", "T": "TemporalHypergraph", "M": "MultiplexHypergraph"}
UKEYS = ["weighted", "type", "a", "b", "name", "x y", "k\u00fc", "class",
         "1", "0", "-1", "1.5", "1e3", "01", "true", "null", "", " ", "K" * 2000, "\u00e9\n\"\\", "\u0000", "\U0001f600", "a.b"]
RKEYS = {"weight": "w", "time": "t", "layer": "l"}
LONG = "long \u00e4" * 400
VALS = [False, True, "Hypergraph", "DirectedHypergraph", "TemporalHypergraph", "MultiplexHypergraph",
        0, 1, -3, 2.5, "s", "", None, [1, 2, [3]], {"p": 1, "q": [1, {"r": None}]}, [], {}, "\u00fcn\u00ef", 7, "heavy",
        [{"a": []}], 1e-3, 123456789012, "a b",
        # magnitude / numeric type
        2 ** 53 + 1, 2 ** 63, -(2 ** 64) - 1, 10 ** 30 + 7, 0.1, 1e300, 5e-324, -0.0, 0.0, 1.0, 3.0, 1e16, 1 / 3,
        [2 ** 53 + 1, 1.0, {"k": 2 ** 64, "f": 0.1, "t": True}], {"1": 1, "01": "x", "-1": [1.0, 1], "": ""},
        [[[[[[1.5]]]]]], {"weight": 2 ** 53 + 1, "time": 1.0},
        # strings
        LONG, "\u00e9\u0000\n\t\"\\/\u2028 \U0001f600 \x7f", "\\u0041", "1", "1.0", "true", "null", "NaN", "[1]", " "]


def _first(kv):
    return kv[0]


def norm(v):
    """canonical form that keeps apart what JSON text / pickle keep apart: bool / int / float (by repr: -0.0),
    str, None, dict keys by type; tuples and lists are the same (json returns lists)"""
    if v is None or isinstance(v, (bool, str)):
        return (type(v).__name__, v)
    if isinstance(v, int):
        return ("int", v)
    if isinstance(v, float):
        return ("float", repr(v))
    if isinstance(v, (list, tuple)):
        return ("list", tuple(norm(x) for x in v))
    if isinstance(v, dict):
        if all(type(k) is str for k in v):
            return ("dict", tuple([(k, norm(x)) for k, x in sorted(v.items(), key=_first)]))
        return ("dict?", tuple(sorted(((norm(k), norm(x)) for k, x in v.items()), key=repr)))
    if isinstance(v, (set, frozenset)):
        return ("set", tuple(sorted((norm(x) for x in v), key=repr)))
    return ("other", type(v).__name__, repr(v))


VKEY = {norm(v): i for i, v in enumerate(VALS)}
assert len(VKEY) == len(VALS)

BIG_INTS = [2 ** 53 + 1, 2 ** 53 - 1, 2 ** 53, 2 ** 63, 2 ** 63 - 1, 2 ** 64 + 3, -(2 ** 53 + 1), -(2 ** 63) - 1,
            10 ** 18 + 1, 10 ** 30 + 7, 256, 257, 65536, 2 ** 31, 2 ** 32, -(2 ** 31) - 1]
ODD_FLOATS = [0.1, 1 / 3, 2.7, -0.3, 1e-7, 1e300, 5e-324, 1.0000000000000002, 2.0 ** 53, 2.0 ** 70, 1e16, 123456.789,
              -1e-300, 0.30000000000000004, 9007199254740994.0]
QUARTERS = [1, 2, 3, 0.25, 0.5, 1.75, 2.5, 6, -1, 0, 1.0, 2.0, 3.0, 6.0, 0.0, -1.0]
STR_LABELS = ["a", "b", "ab", "B", "c1", "c10", "c2", "d", "e e", "\u00e9", "z", "10", "9",
              "", " ", "0", "1", "01", "-1", "1.0", "\u00fc\n", "a\"b", "back\\slash", "\u0000", "\U0001f600", "x" * 3000,
              "True", "None", "null"]
INT_LABELS = list(range(0, 30)) + [-1, -7, 2 ** 53 + 1, 2 ** 53, 2 ** 63, 2 ** 64 + 1, 10 ** 25,
                                   255, 256, 257, 65535, 65536, 2 ** 31 - 1, 2 ** 31, 2 ** 32, -256, -257]
STR_LAYERS = ["L0", "L1", "social", "z", "", "0", "1", "\u00e9 \u00fc", "l\"q\\", "\U0001f600"]
INT_LAYERS = [0, 1, 2, 3, 4, -1, 2 ** 53 + 1, 2 ** 64, 256, 257, 2 ** 31, 2 ** 32]
TIMES = [0, 1, 2, 5, 40, 0, 1, 2, 2 ** 53 + 1, 2 ** 63, 10 ** 20, 0, 1, 2, 255, 256, 257, 65535, 65536, 2 ** 31, 2 ** 32 + 1]
# STRING CONTENT as a dimension (labels, layer names, metadata keys and values, HIF names): every str that JSON text and
# pickle represent.  (A high surrogate immediately followed by a low one is left out: json.loads reads the two escapes as
# ONE astral character, so that str has no JSON text of its own.)
ODD_SURR = ["\ud800", "\udfff", "\udbff", "\udc00", "caf\udce9.txt", "\udc00\ud800", "a\ud83d", "\ude00b", "\ud83dx\ude00",
            "\ud800\ud800", "\U0001f600\ud83d", "\udc80\x00"]
ODD_CTRL = ["\x00", "a\x00b", "a\x00", "\x00a", "\x01", "\x08", "\x0b", "\x0c", "\x1b", "\x1c", "\x1d", "\x1e", "\x1f", "\x7f", "\x80", "\x85",
            "\x9f", "\r", "\r\n", "\n", "\n\n", "\t", "a\nb", "a\rb", "a\tb"]
ODD_SEP = ["\u2028", "\u2029", "a\u2028b", "a\u2029", "\u2028\u2029", "x\x85y", "x\x1cy"]
ODD_UNI = ["\u00e9", "e\u0301", "\u00df", "ss", "SS", "\u0130", "i\u0307", "\u212a", "K", "k", "\u00c5", "\u212b", "A\u030a", "\ufb01", "fi",
           "\u0660", "\uff11", "\u00b2", "\u4e2d\u6587", "\u05e2\u05d1", "\u200b", "\u200d", "\u202e", "\u00a0", "\u3000", "\u2003a", "a\u00a0",
           "\ufeff", "\ufeffa", "\uffff", "\ufffe", "\ufffd", "\ufdd0", "\u00ff", "\u0100", "\u07ff", "\u0800", "\ud7ff", "\ue000",
           "\U0001f600", "\U00010000", "\U0010ffff", "\U0001f468\u200d\U0001f469", "a\U0001f600b", "\U0001f600\U0001f600", "\U000e0001"]
ODD_LOOK = ['{"a":1}', "[1,2]", '"q"', "NaN", "nan", "Infinity", "-Infinity", "inf", "1e999", "0x10", "1_000", " 1", "1 ", "+1", "-0",
            "1.", ".5", "1e3", "01", "1.0", "null", "true", "false", "None", "True", "False", "{}", "[]", ",", ":", ";", "|", "\\",
            "\\\\", "\\n", "\\u00e9", "\\ud800", "\\ud83d\\ude00", "'", '"', '\\"', '"}', "/", "\\/", "</script>", "%", "%s", "{0}", "#", "a", "A",
            " a", "a ", "a\n", "  ", "idx", "type", "node", "edge", "metadata", "interaction", "hypergraph_type", "hypergraph_metadata",
            "weighted", "weight", "time", "layer", "9" * 400, "1" + "0" * 400, "-" + "7" * 50, "1e-400", "0.1", "1/3"]
ODD_LONG = ["A" * 70001, "\u00e9" * 5000, "\U0001f600" * 3000, "\ud800" * 1000, "\x00" * 4097, "\u2028" * 300, "\\" * 8193, "\"" * 4096,
            "9" * 5000, ("\u00e9" * 4095) + "z", ("x" * 8191) + "\U0001f600", ("x" * 65535) + "\ud83d"]
ODD_STRS = list(dict.fromkeys(ODD_SURR + ODD_CTRL + ODD_SEP + ODD_UNI + ODD_LOOK))
assert not any(re.search("[\ud800-\udbff][\udc00-\udfff]", x) for x in ODD_STRS + ODD_LONG)
ODD_KEYS = [x for x in ODD_STRS if x not in ("weight", "time", "layer", "weighted", "type")]
OPAQUE = 2 ** 1100      # codes of float weights that are no multiples of 1/4 (above 4 * any finite float)


class Timeout(Exception):
    pass


def _alarm(sig, frm):
    raise Timeout()


def plain(text):
    """printable ASCII text of a message (labels with lone surrogates / control characters appear escaped)"""
    return "".join(c if " " <= c <= "~" else c.encode("unicode_escape").decode("ascii") for c in str(text))


def plain_reports(ctx):
    """every report of this module goes through plain(): a message can always be printed and stored"""
    if getattr(ctx, "_c06_plain", False):
        return
    v, d = ctx.violation, ctx.disagree
    ctx.violation = lambda case, what: v(case, plain(what))
    ctx.disagree = lambda case, what: d(case, plain(what))
    ctx._c06_plain = True


def guarded(f, *a, secs=10, **k):
    """run f; any exception (or a hang) becomes an observation"""
    old = signal.signal(signal.SIGALRM, _alarm)
    signal.alarm(secs)
    try:
        return ("ok", f(*a, **k))
    except Timeout:
        return ("exc", "timeout")
    except BaseException as e:  # noqa: BLE001 - also `raise "text"` (TypeError) and SystemExit of mutants
        if isinstance(e, KeyboardInterrupt):
            raise
        return ("exc", plain(type(e).__name__ + ": " + str(e)[:200]))
    finally:
        signal.alarm(0)
        signal.signal(signal.SIGALRM, old)


# ------------------------------------------------------------------------------------------
# generation of objects

def odd_str(rng):
    """one string of the string-content class (now and then a long one)"""
    return rng.choice(ODD_LONG) if rng.random() < 0.03 else rng.choice(ODD_STRS)


def odd_val(rng, depth=0):
    """a metadata value made of odd strings: the string itself, or nested in lists / as keys and values of dicts"""
    r = rng.random()
    if r < 0.55 or depth >= 2:
        return odd_str(rng)
    if r < 0.75:
        return [odd_val(rng, depth + 1) for _ in range(rng.randint(1, 3))]
    if r < 0.95:
        return {rng.choice(ODD_STRS): odd_val(rng, depth + 1) for _ in range(rng.randint(1, 3))}
    return copy.deepcopy(rng.choice(VALS))


def gen_meta(rng, p_empty=0.45, reserved=True, odd=False):
    if rng.random() < p_empty:
        return {}
    m = {}
    if odd:
        for _ in range(rng.randint(1, 3)):
            r = rng.random()
            k = rng.choice(list(RKEYS)) if reserved and r < 0.1 else rng.choice(UKEYS[2:8]) if r < 0.3 else rng.choice(ODD_KEYS)
            m[k] = odd_val(rng)
        return m
    for _ in range(rng.randint(1, 3)):
        r = rng.random()
        if reserved and r < 0.18:
            k = rng.choice(list(RKEYS))
        elif r < 0.6:
            k = rng.choice(UKEYS[2:8])
        else:
            k = rng.choice(UKEYS[2:])
        m[k] = copy.deepcopy(rng.choice(VALS[:24]) if rng.random() < 0.45 else rng.choice(VALS))
    return m


def gen_weight(rng, reg):
    """one weight of the object's stream: 'q' small multiples of 1/4 (int and equal-valued float twins),
    'big' integers beyond the float mantissa / machine words, 'flt' floats off the 1/4 grid (and a few ints)"""
    if reg == "q":
        return rng.choice(QUARTERS)
    if reg == "big":
        r = rng.random()
        if r < 0.5:
            return rng.choice(BIG_INTS)
        if r < 0.75:
            v = rng.getrandbits(rng.randint(54, 130)) | 1
            return -v if rng.random() < 0.3 else v
        return rng.choice([1, 2, 3, 0, -1, 7])
    r = rng.random()
    if r < 0.55:
        return rng.choice(ODD_FLOATS)
    if r < 0.8:
        return rng.uniform(-1, 1) * 10.0 ** rng.randint(-8, 20)
    if r < 0.9:
        return rng.choice(BIG_INTS)
    return rng.choice([1, 3, 1.0, 0.5])


def gen_case(rng, T=None, stringy=None):
    """stringy: the STRING CONTENT of labels, layer names, metadata keys and values is the dimension (ODD_STRS)"""
    T = T or rng.choice(TYPES)
    if stringy is None:
        stringy = rng.random() < 0.12
    if stringy:
        real_gen_meta = globals()["gen_meta"]

        def gen_meta(rng, p_empty=0.45, reserved=True):
            return real_gen_meta(rng, p_empty, reserved, odd=True)
    else:
        gen_meta = globals()["gen_meta"]
    weighted = rng.random() < 0.5
    wreg = rng.choice(["q", "q", "big", "flt"]) if weighted else None
    n = rng.randint(2, 9)
    r = rng.random()
    if r < 0.2:
        pool = STR_LABELS[:13]
    elif r < 0.4:
        pool = STR_LABELS
    elif r < 0.8:
        pool = INT_LABELS[:30]
    else:
        pool = INT_LABELS
    if stringy:
        pool = ODD_STRS if rng.random() < 0.8 else ODD_STRS + ODD_LONG
    both = rng.sample(pool, n + 2)
    labels, xlabels = sorted(both[:n]), both[n:]                # xlabels: nodes that only the later history names
    r = rng.random()
    layers = rng.sample(STR_LAYERS[:4], 3) if r < 0.4 else rng.sample(STR_LAYERS, 3) if r < 0.7 else \
        rng.sample(INT_LAYERS[:5], 3) if r < 0.85 else rng.sample(INT_LAYERS, 3)
    if stringy:
        layers = rng.sample(ODD_STRS, 3)
    ops = []

    def akey(extra=()):
        return rng.choice(ODD_KEYS) if stringy and rng.random() < 0.8 else rng.choice(UKEYS[2:] + list(extra))

    def aval():
        return odd_val(rng) if stringy and rng.random() < 0.8 else copy.deepcopy(rng.choice(VALS))

    def wt():
        if weighted:
            return gen_weight(rng, wreg)
        r = rng.random()
        return None if r < 0.85 else 1 if r < 0.93 else 1.0      # the only weights an unweighted object accepts

    def nodeset(lo=1, names=None):
        names = names or labels
        return tuple(rng.sample(names, rng.randint(lo, min(4, len(names)))))

    def key(names=None):
        if T == "H":
            return (nodeset(1, names),)
        if T == "D":
            s = nodeset(2, names)
            k = rng.randint(1, len(s) - 1)
            return ((s[:k], s[k:]),)
        if T == "T":
            return (nodeset(1, names), rng.choice(TIMES))
        return (nodeset(1, names), rng.choice(layers))

    keys = []

    def gen_op(r, late=False):
        """one history step; late=True: steps applied to a loaded object (may name the extra nodes)"""
        names = labels + xlabels if late else labels
        if r < 0.55 or (not keys and not 0.55 <= r < 0.62):
            if keys and T in "TM" and rng.random() < 0.45:
                k = (rng.choice(keys)[0], key()[1])           # same node set at another time / layer
            elif keys and rng.random() < (0.4 if late else 0.15):
                k = rng.choice(keys)                           # re-insertion
                if rng.random() < 0.5:
                    k = (tuple(reversed(k[0])),) + k[1:] if T != "D" else k
            else:
                k = key(names)
            keys.append(k)
            return ("edge", k, wt(), gen_meta(rng, reserved=not late) if rng.random() < 0.8 else None)
        if r < 0.62:
            if rng.random() < 0.25:
                return gen_bulk(late)
            return ("node", rng.choice(names), gen_meta(rng, 0.3, reserved=False) if rng.random() < 0.8 else None)
        if r < 0.70:
            return ("rmedge", rng.choice(keys))
        if r < 0.76:
            return ("rmnode", rng.choice(labels), rng.random() < 0.3)
        if r < 0.82:
            if rng.random() < 0.35:
                return ("nattr", rng.choice(labels), akey(), aval())
            return ("nmeta", rng.choice(labels), gen_meta(rng, 0.2, reserved=False))
        if r < 0.90:
            return ("emeta", rng.choice(keys), gen_meta(rng, 0.2))
        if r < 0.95:
            return ("setw", rng.choice(keys), wt() if weighted else 1)
        if late and rng.random() < 0.3:
            return ("hattr", akey(["weight"]), aval())
        return ("eattr", rng.choice(keys), akey(list(RKEYS)), aval())

    def gen_bulk(late=False):
        """a batch for add_edges / the constructor: 1-4 hyperedges with distinct keys (some may exist already), weights
        given iff the object is weighted (or left out: every weight is 1), a metadata list or none"""
        names = labels + xlabels if late else labels
        ks = []
        for _ in range(rng.randint(1, 4)):
            k = rng.choice(keys) if keys and rng.random() < 0.2 else key(names)
            # (TemporalHypergraph.add_edges refuses a weighted batch that repeats a node set, also at another time)
            if all(canon_key(T, k) != canon_key(T, q) and (T != "T" or canon_key(T, k)[0] != canon_key(T, q)[0]) for q in ks):
                ks.append(k)
        keys.extend(ks)
        ws = [gen_weight(rng, wreg) for _ in ks] if weighted and rng.random() < 0.8 else None
        mds = [gen_meta(rng, reserved=not late) for _ in ks] if rng.random() < 0.6 else None
        return ("bulk", ks, ws, mds)

    ctor = None
    if rng.random() < 0.12:
        # part of the content goes through the constructor
        ctor = {"hmeta": gen_meta(rng, 0.3, reserved=False) if rng.random() < 0.5 else None,
                "nmeta": [[n, gen_meta(rng, 0.3, reserved=False)] for n in rng.sample(labels, rng.randint(0, min(3, n)))],
                "bulk": list(gen_bulk()[1:]) if rng.random() < 0.8 else None}
    for _ in range(rng.randint(0, 3)):
        ops.append(gen_op(0.6))
    for _ in range(rng.randint(0, 8)):
        ops.append(gen_op(rng.random()))
    r = rng.random()
    if r < 0.25:
        ops.append(("hset", gen_meta(rng, 0.0)))               # replaced: no weighted/type keys (or stale ones)
    elif r < 0.35:
        ops.append(("hset", {}))                               # cleared
    elif r < 0.45:
        ops.append(("hset", {"weighted": not weighted, "type": "x", "a": [1, 2]}))   # stale flag
    elif r < 0.65:
        ops.append(("hattr", akey(["weight"]), aval()))
    if not weighted and T != "M" and rng.random() < 0.12:
        ks = []
        for _ in range(rng.randint(1, 3)):
            k = key()
            if all(canon_key(T, k) != canon_key(T, q) for q in ks):
                ks.append(k)
        keys.extend(ks)
        ops.append(("bulkw", ks, [rng.choice([2, 0.5, 3]) for _ in ks]))   # add_edges(weights=...) flips the flag
    if rng.random() < 0.3:
        ops.append(("node", rng.choice(labels), gen_meta(rng, 0.3, reserved=False)))
    case = {"T": T, "weighted": weighted, "wreg": wreg, "labels": labels, "xlabels": xlabels, "layers": list(layers),
            "ops": ops}
    if stringy:
        case["stringy"] = True
    if ctor:
        case["ctor"] = ctor
    if rng.random() < 0.3:
        case["reload"] = True          # a second load kept aside while the first one is used, a third load afterwards
    if rng.random() < 0.75:
        # the further history of the LOADED object: first add-only steps (also replayed in the model), then anything
        case["post_a"] = [gen_op(rng.choice([0.1, 0.1, 0.6]), late=True) for _ in range(rng.randint(1, 3))]
        case["post_b"] = [gen_op(rng.random(), late=True) for _ in range(rng.randint(0, 3))]
        case["fmt2"] = {"json": rng.choice(["json", "hgx"]), "hgx": rng.choice(["json", "hgx"])}
    return case


# ------------------------------------------------------------------------------------------
# SIZE as a dimension: objects described by a compact recipe (the replay stores the recipe, not the history)

PW2_QUICK = [255, 256, 257, 4095, 4096, 4097]
PW2_MORE = [127, 128, 129, 511, 512, 513, 999, 1000, 1001, 1023, 1024, 1025, 8191, 8192, 8193, 9999, 10000, 10001]
PW2_HUGE = [65535, 65536, 65537]
DIMS = ["records", "nodes", "edges", "edge_size", "meta_entries", "label_len", "value_len", "extras", "depth"]
# (Hypergraph.add_edge hashes the whole node tuple once per member: a hyperedge of 65536 nodes takes half a minute to
#  insert on the unchanged code, read_hif sorts the incidence list once per incidence - sizes bounded accordingly)
DIM_MAX = {"depth": 257, "meta_entries": 10001, "edge_size": 10001, "label_len": 65537, "value_len": 65537}


def sized_labels(rng, n, kind, length=None):
    """n distinct labels in a random (unsorted, non-contiguous) order"""
    if length is not None:
        # strings of exactly `length` characters: all share a long run, they differ in their LAST character(s); one
        # differs from its neighbour in the FIRST character only (a label cut / compared at a fixed length merges them)
        w = len(str(n - 1))
        if length <= w + 1:
            out = [str(i).zfill(length)[-length:] for i in range(n)]
        else:
            out = ["x" + "m" * (length - 1 - w) + str(i).zfill(w) for i in range(n)]
            out[1] = "y" + out[0][1:]
        out = list(dict.fromkeys(out))
        rng.shuffle(out)
        return out
    ids = rng.sample(range(4 * n + 300), n)
    if kind == "int":
        off = rng.choice([0, 0, 250, 65530, 2 ** 31 - 5, 2 ** 53 - 3])
        return [off + i for i in ids]
    return ["v%d" % i for i in ids]


def expand(recipe):
    """recipe -> full case (deterministic: own PRNG).  dim says which size is made exactly `size`:
    records (1 + nodes + hyperedges), nodes, edges, edge_size (members of one hyperedge), meta_entries (entries of one
    node's / one hyperedge's / the hypergraph's metadata), label_len (characters of the labels / layer names), value_len
    (characters / elements of metadata values and keys), extras (times of one node set / layers / isolated nodes only),
    depth (nesting of a metadata value)"""
    rng = random.Random(recipe["seed"])
    T, S, dim, weighted = recipe["T"], recipe["size"], recipe["dim"], recipe["weighted"]
    wreg = recipe.get("wreg") or "q"
    if dim == "strings":
        return expand_strings(recipe, rng)
    kind = recipe.get("labels", "int")
    N, E = 6, 5
    if dim == "records":
        N = rng.randint(max(2, S // 4) if not recipe.get("rich") else 4300, max(3, 3 * S // 4))
        E = S - 1 - N
    elif dim == "nodes":
        N, E = S, rng.randint(3, 40)
    elif dim == "edges":
        N, E = rng.randint(20, 200), S
    elif dim == "edge_size":
        N, E = S + 6, 6
    elif dim == "extras":
        N, E = (S, 0) if T in "HD" else (8, S)
    if dim == "label_len":
        labels = sized_labels(rng, 3, "str", S) + sized_labels(rng, 2, "str", S - 1) + sized_labels(rng, 2, "str", S + 1)
        rng.shuffle(labels)
    else:
        labels = sized_labels(rng, N, kind)
    N = len(labels)
    xl = ["zz-extra-%d" % i for i in range(3)] if isinstance(labels[0], str) else [max(labels) + 7 + i for i in range(3)]
    tmpl = ["zz-temp-%d" % i for i in range(4)] if isinstance(labels[0], str) else [max(labels) + 100 + i for i in range(4)]
    if T == "M":
        if dim == "extras":
            layers = ["L%d" % i for i in rng.sample(range(3 * S), S)]
        elif dim == "label_len":
            layers = ["l" * (S - 1) + c for c in "ab"] + ["l" * (S + 1), "l" * (S - 1)]
        else:
            layers = rng.sample(STR_LAYERS[:4], 3) if rng.random() < 0.5 else rng.sample(INT_LAYERS, 3)
    else:
        layers = ["L0", "L1", "L2"]
    times = rng.sample(range(3 * S + 10), S) if (T == "T" and dim == "extras") else \
        [0, 1, 2, 3, 5, 8, 13, 255, 256, 257, 65536, 2 ** 31, 2 ** 32 + 1, 2 ** 53 + 1, 2 ** 63]

    def wt():
        if weighted:
            return gen_weight(rng, wreg)
        r = rng.random()
        return None if r < 0.9 else 1 if r < 0.95 else 1.0

    def small_meta(p_empty=0.6, reserved=True):
        return gen_meta(rng, p_empty, reserved)

    def mk_key(nodes, j=None):
        nodes = tuple(nodes)
        if T == "H":
            return (nodes,)
        if T == "D":
            if len(nodes) < 2:
                nodes = nodes + tuple(x for x in labels[:3] if x not in nodes)[:1]
            a = rng.randint(1, len(nodes) - 1) if j is None else j
            return ((nodes[:a], nodes[a:]),)
        if T == "T":
            return (nodes, rng.choice(times))
        return (nodes, rng.choice(layers))

    seen, ekeys, eops = set(), [], []

    def add_key(k, w=None, md=None, force=False):
        c = canon_key(T, k)
        if c in seen and not force:
            return False
        if c not in seen:
            ekeys.append(k)
        seen.add(c)
        eops.append(("edge", k, wt() if w is None else w, md))
        return True

    special = None        # the hyperedge that carries the size
    nmeta = {}
    hmeta_op = None
    if dim == "edge_size":
        big = rng.sample(labels, S)
        k = mk_key(big, rng.choice([1, S - 1, max(1, S // 2)]) if T == "D" else None)
        add_key(k, md=small_meta(0.3))
        special = k
        if T in "TM":
            add_key((k[0], rng.choice([t for t in (times if T == "T" else layers) if t != k[1]])), md=small_meta())
    if dim == "extras" and T in "TM":
        base = tuple(rng.sample(labels, rng.randint(1, 3)))
        for x in (times if T == "T" else layers):
            add_key((base, x), md=small_meta())
        special = ekeys[0]
    rich_key = None
    if recipe.get("rich") and N > 4200:
        # a big object that is big in the other dimensions as well: one hyperedge of 4098 members, a node and a
        # hyperedge with 4097 metadata entries, one metadata string beyond 64 KiB
        rich_key = mk_key(rng.sample(labels, 4098), 4097 if T == "D" else None)
        add_key(rich_key, md={"e%d" % i: i for i in range(4097)})
        nmeta[labels[1]] = {"k%d" % i: i for i in range(4097)}
        nmeta[labels[2]] = {"bytes": "b" * 65540}
    tries = 0
    while len(ekeys) < E and tries < 20 * E + 100:
        tries += 1
        if T in "TM" and ekeys and rng.random() < 0.2:
            k = (rng.choice(ekeys)[0],) + mk_key(labels[:1])[1:]          # the same node set at another time / layer
        else:
            k = mk_key(rng.sample(labels, rng.randint(2 if T == "D" else 1, min(4, N))))
        if add_key(k, md=small_meta()) and ekeys and rng.random() < 0.03:
            q = rng.choice(ekeys)                                          # re-insertion: weights add up, metadata replaced
            if rng.random() < 0.5 and T != "D":
                q = (tuple(reversed(q[0])),) + tuple(q[1:])
            add_key(q, md=small_meta(), force=True)
    if special is None and ekeys:
        special = rng.choice(ekeys)
    # the metadata dimensions carry the sizes S-1, S, S+1 in ONE object (three nodes, up to three hyperedges, the
    # hypergraph metadata), so a bound "at most S" / "fewer than S" shows whichever of the three sizes the run picked
    trio = [S - 1, S, S + 1]
    ek3 = (ekeys[:3] if special is None else [special] + [k for k in ekeys if k is not special][:2])

    def deep(depth, leaf):
        for _ in range(depth):
            leaf = [leaf]
        return leaf

    def deepd(depth):
        w = {"z": 1}
        for _ in range(max(depth - 1, 0)):
            w = {"n": w}
        return w
    if dim == "meta_entries":
        for j, n_ in enumerate(trio):
            nmeta[labels[j]] = {"k%d" % i: (i if i % 3 else "v%d" % i) for i in rng.sample(range(2 * n_ + 2), n_)}
        for j, k in enumerate(ek3):
            eops.append(("emeta", k, {"e%d" % i: i for i in range(trio[j])}))
        hm = {"h%d" % i: [i] for i in range(S - 2)}
        hmeta_op = ("hset", {**hm, "weighted": weighted, "type": TNAME[T]})
    elif dim == "value_len":
        for j, n_ in enumerate(trio):
            nmeta[labels[j]] = {"s": "s" * n_, "l": list(range(n_)), "k" * n_: 1}
        for j, k in enumerate(ek3):
            # ... and one record whose text is about 16 * S characters (beyond 64 KiB for S around 4096)
            eops.append(("emeta", k, {"a": "a" * (trio[j] - 1) + "é", "d": {"x%d" % i: i for i in range(trio[j])},
                                      "bytes": "b" * (16 * S + j - 1)}))
        hmeta_op = ("hattr", "long", ["s" * S, {"k" * S: "s" * (S + 1)}])
    elif dim == "depth":
        top = [min(x, 257) for x in trio]
        for j, n_ in enumerate(top):
            nmeta[labels[j]] = {"deep": deep(n_, 1.5)}
        for j, k in enumerate(ek3):
            eops.append(("emeta", k, {"a": deepd(top[j])}))
        hmeta_op = ("hattr", "deep", [deep(min(S, 257), 1.5), deepd(min(S, 257))])
    used = set()
    for k in ekeys:
        used.update(members_of(canon_key(T, k), T))
    nops = []
    for x in labels:
        if x in nmeta:
            nops.append(("node", x, nmeta[x]))
        elif x not in used or rng.random() < 0.3:
            nops.append(("node", x, small_meta(0.5, reserved=False) if rng.random() < 0.9 else None))
    ops = nops + eops
    if dim not in ("meta_entries", "value_len", "depth"):
        rng.shuffle(ops)         # unsorted insertion order: nodes named by hyperedges before / after their own add_node
    else:
        ops = nops + eops        # (the emeta steps follow their hyperedges)
    # temporary items removed again: gaps in the internal ids
    for pos in sorted(rng.sample(range(len(ops) + 1), min(2, len(ops) + 1)), reverse=True):
        a, b = rng.sample(tmpl, 2)
        ops[pos:pos] = [("edge", mk_key((a, b), 1), wt(), None), ("rmnode", a, False), ("rmnode", b, False)]
    r = rng.random()
    if hmeta_op is not None:
        ops.append(hmeta_op)
    elif r < 0.3:
        ops.append(("hset", small_meta(0.0)))
    elif r < 0.6:
        ops.append(("hattr", rng.choice(UKEYS[2:8]), copy.deepcopy(rng.choice(VALS[:24]))))
    case = {"T": T, "weighted": weighted, "wreg": wreg if weighted else None, "labels": labels, "xlabels": xl + tmpl,
            "layers": list(layers), "ops": ops, "reload": True}
    if recipe.get("post_fmt"):
        case["post_fmt"] = recipe["post_fmt"]       # (big objects: the history after load for one of the formats only)
    if recipe.get("full_model"):
        case["full_model"] = True
    if recipe.get("post", True):
        pa = []
        if special is not None:
            pa.append(("edge", special, wt(), small_meta(0.3, reserved=False)))
        pa.append(("edge", mk_key((xl[0], rng.choice(labels)), 1), wt(), None))
        pa.append(("node", xl[1], {"a": 1}))
        pb = []
        if special is not None:
            pb.append(rng.choice([("rmedge", special), ("eattr", special, "x y", [1, 2.5]),
                                  ("rmnode", members_of(canon_key(T, special), T)[0], rng.random() < 0.5)]))
        pb.append(("rmnode", rng.choice(labels), rng.random() < 0.5))
        if ekeys:
            pb.append(("rmedge", rng.choice(ekeys)))
        case["post_a"], case["post_b"] = pa, pb
        case["fmt2"] = {"json": rng.choice(["json", "hgx"]), "hgx": rng.choice(["json", "hgx"])}
    return case


def expand_strings(recipe, rng):
    """the string census: ONE object of type T in which every string of ODD_STRS (size 1: also ODD_LONG) is a node label,
    a member of a hyperedge, a metadata key and a metadata value (plain, in a list, as key and value of a nested dict) of
    its node, of a hyperedge and of the hypergraph; layer names cycle through the strings"""
    T, weighted = recipe["T"], recipe["weighted"]
    wreg = recipe.get("wreg") or "q"
    strs = ODD_STRS + (ODD_LONG if recipe["size"] else [])
    labels = strs[:]
    rng.shuffle(labels)
    layers = rng.sample(ODD_STRS, 6) if T == "M" else ["L0", "L1", "L2"]
    ops = []
    keyable = [x for x in labels if x in ODD_KEYS or x in ODD_LONG]
    for x in labels:
        k = x if x in keyable else "k"
        ops.append(("node", x, {k: x, "v": [x, {k: [x, None]}]} if rng.random() < 0.85 else {}))
    ekeys = []
    n = len(labels)
    for i in range(n):
        mem = tuple(dict.fromkeys([labels[i], labels[(i + 1) % n], labels[(i * 7 + 3) % n]]))[:rng.randint(1, 3)]
        if T == "D":
            mem = mem if len(mem) > 1 else (labels[i], labels[(i + 2) % n])
            key = ((mem[:1], mem[1:]),)
        elif T == "H":
            key = (mem,)
        elif T == "T":
            key = (mem, rng.choice([0, 1, 5, 2 ** 53 + 1]))
        else:
            key = (mem, layers[i % len(layers)])
        kk = keyable[i % len(keyable)]
        md = {kk: labels[(i + 5) % n], "n": {kk: [labels[i]]}} if rng.random() < 0.8 else {}
        ops.append(("edge", key, gen_weight(rng, wreg) if weighted else None, md))
        ekeys.append(key)
    # twins under normalisation / case folding / stripping are keys of ONE dict: hypergraph, one node, one hyperedge
    ops.append(("hattr", "census", {x: x for x in keyable}))
    ops.append(("nmeta", labels[n // 2], {x: [x] for x in keyable if len(x) < 100}))
    if T == "M":
        ops.append(("eattr", ekeys[n // 3], "all", {x: x for x in keyable if len(x) < 100}))
    else:
        ops.append(("emeta", ekeys[n // 3], {x: x for x in keyable if len(x) < 100}))
    ops.append(("hattr", rng.choice(ODD_KEYS), [x for x in labels if len(x) < 100]))
    xl = ["zz-extra-%d" % i for i in range(3)]
    case = {"T": T, "weighted": weighted, "wreg": wreg if weighted else None, "labels": labels, "xlabels": xl,
            "layers": list(layers), "ops": ops, "reload": True, "stringy": True}
    case["post_a"] = [("edge", ekeys[3], gen_weight(rng, wreg) if weighted else None, {labels[0]: labels[1]}),
                      ("node", labels[2], {labels[3]: [labels[4]]}), ("node", xl[0], {"a": ODD_SURR[0]})]
    case["post_b"] = [("rmnode", labels[5], False), ("rmedge", ekeys[0]), ("nattr", labels[6], ODD_KEYS[1], labels[7])]
    case["fmt2"] = {"json": rng.choice(["json", "hgx"]), "hgx": rng.choice(["json", "hgx"])}
    return case


def recipe_plan(rng, tier):
    """the sized objects of one run.  Every run (the first N_MUST entries): each of the four types with more than 10000
    records (thorough: also one beyond 5000 and one beyond 65536 each), one more object beyond 5000 records, and the
    record counts 4095 / 4096 / 4097 and 8191 / 8192 / 8193 (quick: one of the three).  The other (dimension, size)
    pairs: quick - per dimension one size around 256 and, for most dimensions, one around 4096, types rotating;
    thorough - the whole grid.  Quick runs the history after load on big objects for one format and not on all."""
    plan = []

    def rec(T, dim, size, **kw):
        plan.append({"T": T, "dim": dim, "size": size, "weighted": rng.random() < 0.6,
                     "wreg": rng.choice(["q", "q", "big", "flt"]), "labels": rng.choice(["int", "int", "str"]),
                     "seed": rng.getrandbits(32), **kw})
    order = TYPES[:]
    rng.shuffle(order)
    quick = tier != "thorough"
    fm = ["json", "hgx"]
    rng.shuffle(fm)
    for T in order:
        rec(T, "records", rng.randint(10001, 11000 if quick else 20000), rich=True, **({"post": False} if quick else {"post_fmt": rng.choice(fm)}))
    if quick:
        rec(order[0], "records", rng.randint(5001, 6000), post_fmt=fm[0])
        for i, s in enumerate([4095, 4096, 4097, rng.choice([8191, 8192, 8193])]):
            rec(order[(i + 1) % 4], "records", s, **({"post_fmt": fm[1]} if i == 1 else {"post": False}))
        assert len(plan) == N_MUST["quick"]
        j = rng.randrange(4)
        heavy = set(rng.sample(["nodes", "edges", "edge_size", "extras", "meta_entries"], 2))   # around 256 only this run
        for dim in DIMS[1:]:
            for grp in (PW2_QUICK[:3], PW2_QUICK[3:]):
                s = rng.choice(grp)
                if s <= DIM_MAX.get(dim, 10 ** 9) and not (s > 4000 and dim in heavy):
                    rec(TYPES[j % 4], dim, s, **({"post_fmt": fm[j % 2]} if s > 4000 else {}))
                    if s > 4000 and dim in ("meta_entries", "label_len", "value_len"):
                        for d in (1, 2, 3):           # small objects: the other three types as well
                            rec(TYPES[(j + d) % 4], dim, rng.choice(grp), post=False)
                    j += 1
        for _ in range(2):
            rec(rng.choice(TYPES), rng.choice(DIMS[:8]), rng.choice(PW2_MORE[:12]))
        return plan
    for T in order:
        rec(T, "records", rng.randint(5001, 9000))
    for i, s in enumerate([4095, 4096, 4097, 8191, 8192, 8193]):
        rec(order[(i + 1) % 4], "records", s, **({"full_model": True} if s < 5000 else {}))    # the model sees the whole object
    for i, T in enumerate(order):
        rec(T, "records", rng.randint(65537, 70000), **({"post_fmt": fm[0]} if i == 0 else {"post": False}))
    assert len(plan) == N_MUST["thorough"]
    for dim in DIMS:
        for s in PW2_QUICK:
            if s <= DIM_MAX.get(dim, 10 ** 9) and dim != "records":
                for T in TYPES:
                    rec(T, dim, s, **({"post_fmt": rng.choice(fm)} if s > 4000 else {}))
        for s in PW2_MORE:
            if s <= DIM_MAX.get(dim, 10 ** 9) and not (dim == "records" and s in (8191, 8192, 8193)):
                rec(rng.choice(TYPES), dim, s, **({"post_fmt": rng.choice(fm)} if s > 4000 else {}))
        for s in (PW2_HUGE if dim in ("label_len", "value_len") else [rng.choice(PW2_HUGE)]):
            if s <= DIM_MAX.get(dim, 10 ** 9) and dim != "records":
                rec(rng.choice(TYPES), dim, s, post=False)
    return plan


N_MUST = {"quick": 9, "thorough": 18}


def canon_key(T, k):
    if T == "D":
        return (tuple(sorted(k[0][0])), tuple(sorted(k[0][1])))
    if T == "H":
        return tuple(sorted(k[0]))
    return (tuple(sorted(k[0])), k[1])


def tup(x):
    return tuple(tup(y) for y in x) if isinstance(x, (list, tuple)) else x


# ------------------------------------------------------------------------------------------
# how an argument is PRESENTED to the implementation: a fresh equal object for every label / weight in every call,
# a container type per node set.  Everything derives from crc32 of the step, so replays repeat it.

def crc(*parts):
    return zlib.crc32("|".join(map(str, parts)).encode("utf-8", "surrogatepass"))


def fresh(v):
    """an equal object that is not the same object: ints beyond the small-int cache, strings built at run time, floats"""
    if v is None or isinstance(v, bool):
        return v
    if isinstance(v, int):
        return int(str(v))
    if isinstance(v, float):
        return float.fromhex(v.hex())
    if isinstance(v, str):
        return "".join(list(v)) if len(v) >= 2 else v
    if isinstance(v, tuple):
        return tuple(fresh(x) for x in v)
    if isinstance(v, list):
        return [fresh(x) for x in v]
    return v


CONTAINERS = ["tuple", "list", "set", "frozenset", "dict", "keys", "gen", "iter"]


def pick_container(sel, hashable=False):
    """half of the node sets travel as tuples; the others as list / set / frozenset / dict / dict view / generator /
    iterator (all accepted by the four add_edge); inside a weighted batch the code hashes the hyperedges"""
    if hashable:
        return "frozenset" if sel % 4 == 3 else "tuple"
    r = sel % 14
    return "tuple" if r < 7 else CONTAINERS[r - 6]


def contain(xs, kind):
    xs = [fresh(x) for x in xs]
    if kind == "tuple":
        return tuple(xs)
    if kind == "list":
        return xs
    if kind == "set":
        return set(xs)
    if kind == "frozenset":
        return frozenset(xs)
    if kind == "dict":
        return dict.fromkeys(xs)
    if kind == "keys":
        return dict.fromkeys(xs).keys()
    if kind == "gen":
        return (x for x in xs)
    return iter(xs)


def scribble(c):
    """aliasing IN: after the call the caller's mutable collection is overwritten"""
    try:
        if isinstance(c, list):
            c[:] = ["scribbled"]
        elif isinstance(c, set):
            c.clear()
            c.add("scribbled")
        elif isinstance(c, dict):
            c.clear()
            c["scribbled"] = 1
        elif isinstance(c, tuple):
            for x in c:
                scribble(x)
    except Exception:  # noqa: BLE001
        pass


def edge_arg(T, k, sel, hashable=False):
    """the first argument of add_edge for the generated key k (its node sets in some container)"""
    if T == "D":
        a = contain(k[0][0], pick_container(sel, hashable))
        b = contain(k[0][1], pick_container(sel // 16, hashable))
        return (a, b) if hashable or (sel // 256) % 3 else [a, b]
    return contain(k[0], pick_container(sel, hashable))


def quiet():
    import contextlib
    import io
    import warnings
    st = contextlib.ExitStack()
    w = warnings.catch_warnings()
    st.enter_context(w)
    warnings.simplefilter("ignore")
    st.enter_context(contextlib.redirect_stdout(io.StringIO()))
    return st


def cls_of(T):
    import hypergraphx as hx
    return {"H": hx.Hypergraph, "D": hx.DirectedHypergraph, "T": hx.TemporalHypergraph, "M": hx.MultiplexHypergraph}[T]


def bulk_args(T, i, ks, ws, mds):
    """arguments of add_edges / of the constructor for a batch: (edge_list, times or layers or None, weights, metadata)"""
    hashable = ws is not None
    edges = [edge_arg(T, k, crc("bulk", i, j, repr(k)[:120]), hashable) for j, k in enumerate(ks)]
    extra = [fresh(k[1]) for k in ks] if T in "TM" else None
    sel = crc("bulkc", i, len(ks))
    if ws is not None:
        ws = [fresh(w) for w in ws]
        ws = tuple(ws) if sel % 3 == 0 else ws
    if mds is not None:
        mds = [copy.deepcopy(m) for m in mds]
        mds = tuple(mds) if (sel // 3) % 3 == 0 else mds
    return edges, extra, ws, mds


def build(case):
    T = case["T"]
    kw = {"weighted": case["weighted"]}
    ct = case.get("ctor")
    held = []
    if ct:
        # part of the content handed to the constructor (hypergraph / node metadata, a batch of hyperedges)
        if ct.get("hmeta") is not None:
            kw["hypergraph_metadata"] = copy.deepcopy(ct["hmeta"])
        if ct.get("nmeta"):
            kw["node_metadata"] = {fresh(n): copy.deepcopy(m) for n, m in ct["nmeta"]}
        if ct.get("bulk"):
            ks, ws, mds = ct["bulk"]
            edges, extra, ws, mds = bulk_args(T, "ctor", [tup(k) for k in ks], ws, mds)
            kw["edge_list"] = edges
            if T == "T":
                kw["time_list"] = extra
            elif T == "M":
                kw["edge_layer"] = extra
            kw["weights"] = ws
            kw["edge_metadata"] = mds
            held = [edges, extra, ws]
    with quiet():
        h = cls_of(T)(**kw)
    for c in held:
        scribble(c)
    return h, len(apply_ops(h, T, case["ops"]))


def ctor_ops(case):
    """the constructor arguments as the equivalent public calls on an empty object (what the model replays)"""
    ct = case.get("ctor")
    if not ct:
        return []
    out = []
    if ct.get("hmeta") is not None:
        out.append(("hset", {**ct["hmeta"], "weighted": case["weighted"], "type": TNAME[case["T"]]}))
    for n, m in ct.get("nmeta") or []:
        out.append(("node", n, m))
    if ct.get("bulk"):
        out.append(("bulk",) + tuple(ct["bulk"]))
    return out


def apply_ops(h, T, ops):
    """apply history steps through the public API; returns the (index, exception type) of the rejected ones"""
    failed = []
    for i, op in enumerate(ops):
        op = list(op)
        kind = op[0]
        sel = crc(i, kind, repr(op[1])[:160] if len(op) > 1 else "")
        held = None
        try:
            if kind == "node":
                h.add_node(fresh(op[1]), copy.deepcopy(op[2])) if op[2] is not None else h.add_node(fresh(op[1]))
            elif kind == "edge":
                k = tup(op[1])
                md = copy.deepcopy(op[3])
                held = e = edge_arg(T, k, sel)
                if T in "HD":
                    h.add_edge(e, fresh(op[2]), metadata=md)
                else:
                    h.add_edge(e, fresh(k[1]), weight=fresh(op[2]), metadata=md)
            elif kind == "bulk":
                edges, extra, ws, mds = bulk_args(T, i, [tup(k) for k in op[1]], op[2], op[3])
                held = [edges, extra, ws]
                with quiet():
                    if T in "HD":
                        h.add_edges(edges, weights=ws, metadata=mds)
                    else:
                        h.add_edges(edges, extra, weights=ws, metadata=mds)
            elif kind == "rmedge":
                k = fresh(tup(op[1]))
                if T in "HD":
                    h.remove_edge(k[0])
                elif T == "T":
                    h.remove_edge(k[0], k[1])
                else:
                    h.remove_edge((tuple(sorted(k[0])), k[1]))
            elif kind == "rmnode":
                h.remove_node(fresh(op[1]), keep_edges=op[2])
            elif kind == "nmeta":
                h.set_node_metadata(fresh(op[1]), copy.deepcopy(op[2]))
            elif kind == "nattr":
                h.set_attr_to_node_metadata(fresh(op[1]), fresh(op[2]), copy.deepcopy(op[3]))
            elif kind == "emeta":
                k = fresh(tup(op[1]))
                if T in "HD":
                    h.set_edge_metadata(k[0], copy.deepcopy(op[2]))
                elif T == "T":
                    h.set_edge_metadata(k[0], k[1], copy.deepcopy(op[2]))
                else:
                    h.set_attr_to_edge_metadata(k[0], k[1], "a", copy.deepcopy(op[2]))
            elif kind == "eattr":
                k = fresh(tup(op[1]))
                if T in "HD":
                    h.set_attr_to_edge_metadata(k[0], fresh(op[2]), copy.deepcopy(op[3]))
                else:
                    h.set_attr_to_edge_metadata(k[0], k[1], fresh(op[2]), copy.deepcopy(op[3]))
            elif kind == "setw":
                k = fresh(tup(op[1]))
                if T in "HD":
                    h.set_weight(k[0], fresh(op[2]))
                else:
                    h.set_weight(k[0], k[1], fresh(op[2]))
            elif kind == "hset":
                h.set_hypergraph_metadata(copy.deepcopy(op[1]))
            elif kind == "hattr":
                h.set_attr_to_hypergraph_metadata(fresh(op[1]), copy.deepcopy(op[2]))
            elif kind == "bulkw":
                ks = [tup(k) for k in op[1]]
                with quiet():
                    if T in "HD":
                        h.add_edges([fresh(k[0]) for k in ks], weights=list(op[2]))
                    else:
                        h.add_edges([fresh(k[0]) for k in ks], [fresh(k[1]) for k in ks], weights=list(op[2]))
        except Exception as e:  # noqa: BLE001 - a rejected step is an observation
            failed.append((i, type(e).__name__))
        if held is not None:
            scribble(held)
    return failed


# ------------------------------------------------------------------------------------------
# digest through the public API

def snapshot(x):
    """an independent copy of JSON-like data (pickle round trip: C speed, keeps int / float / bool / tuple apart);
    anything pickle refuses is deep-copied"""
    try:
        return pickle.loads(pickle.dumps(x, protocol=pickle.HIGHEST_PROTOCOL))
    except Exception:  # noqa: BLE001
        return copy.deepcopy(x)


def digest(h, T):
    """{'type','weighted','hmeta','nodes': [(label, meta)], 'edges': [(key, weight, meta)]} - independent copies"""
    nodes = list(h.get_nodes(metadata=True).items())
    plain = list(h.get_nodes())
    if plain != [n for n, _ in nodes] and sorted(map(repr, plain)) != sorted(repr(n) for n, _ in nodes):
        raise ValueError("get_nodes() and get_nodes(metadata=True) list different nodes")
    edges = []
    for e in h.get_edges():
        if T == "H":
            k = tuple(e)
            w, m = h.get_weight(e), h.get_edge_metadata(e)
        elif T == "D":
            k = (tuple(e[0]), tuple(e[1]))
            w, m = h.get_weight(e), h.get_edge_metadata(e)
        elif T == "T":
            k = (tuple(e[1]), e[0])
            w, m = h.get_weight(e[1], e[0]), h.get_edge_metadata(e[1], e[0])
        else:
            k = (tuple(e[0]), e[1])
            w, m = h.get_weight(e[0], e[1]), h.get_edge_metadata(e[0], e[1])
        edges.append((k, w, m))
    nodes, edges, hm = snapshot((nodes, edges, h.get_hypergraph_metadata()))
    d = {"type": type(h).__name__, "weighted": h.is_weighted(), "hmeta": hm, "nodes": nodes, "edges": edges}
    if T == "M":
        d["layers"] = sorted(map(repr, h.get_existing_layers()))     # the layer registry (compared for .hgx only)
    return d


def members_of(k, T):
    return list(k[0]) + list(k[1]) if T == "D" else list(k[0] if T in "TM" else k)


def incidence(h, T, d):
    """{node: sorted incident hyperedges (as digest keys)} through get_incident_edges, node by node"""
    out = {}
    memo = {}

    def key_text(e):
        try:
            t = memo.get(e)
        except TypeError:           # unhashable answer
            t = None
        if t is None:
            if T == "H":
                k = tuple(e)
            elif T == "D":
                k = (tuple(e[0]), tuple(e[1]))
            elif T == "T":
                k = (tuple(e[1]), e[0])
            else:
                k = (tuple(e[0]), e[1])
            t = repr(k)
            try:
                memo[e] = t
            except TypeError:
                pass
        return t
    for n, _ in d["nodes"]:
        try:
            out[repr(n)] = sorted(key_text(e) for e in h.get_incident_edges(n))
        except Exception as e:  # noqa: BLE001
            out[repr(n)] = "exc " + type(e).__name__ + ": " + str(e)[:80]
    return out


def incidence_expected(d, T):
    """the same listing by definition: the hyperedges of get_edges() that contain the node"""
    out = {repr(n): [] for n, _ in d["nodes"]}
    for k, _, _ in d["edges"]:
        rk = repr(k)
        for x in members_of(k, T):
            rx = repr(x)
            if rx in out:
                out[rx].append(rk)
    return {n: sorted(v) for n, v in out.items()}


def strip_reserved(m):
    return {k: v for k, v in m.items() if k not in RKEYS} if isinstance(m, dict) else m


def jeq(a, b):
    """equality that keeps apart what JSON keeps apart (True / 1 / 1.0, -0.0 / 0.0, key "1" / key 1)"""
    try:
        if repr(a) == repr(b):      # equal text => equal in the sense of norm (repr keeps 1 / 1.0 / True / -0.0 / '1' apart)
            return True
    except Exception:  # noqa: BLE001
        pass
    return norm(a) == norm(b)


def is_num(a):
    return isinstance(a, (int, float)) and not isinstance(a, bool)


def same_weight(a, b, weighted=True):
    """equal value (Python compares int and float exactly) and, for weighted objects, equal numeric type"""
    if not (is_num(a) and is_num(b) and a == b):
        return False
    return type(a) is type(b) or not weighted


def compare_digests(d0, d1, what):
    """the property's words: same type, nodes (with metadata), hyperedges, weightedness, weights, metadata
    (hyperedge metadata modulo the reserved keys).  Returns a list of differences."""
    out = []
    try:
        # fast path (big objects): same listing order and textually equal items => nothing to report
        def nw(w):      # (an unweighted object: only the value 1 is demanded of a weight)
            return w if d0["weighted"] is True or not (is_num(w) and w == 1) else 1
        if d0["type"] == d1["type"] and d0["weighted"] is d1["weighted"] and repr(d0["hmeta"]) == repr(d1["hmeta"]) \
                and repr(d0["nodes"]) == repr(d1["nodes"]) \
                and repr([(k, nw(w), strip_reserved(m)) for k, w, m in d0["edges"]]) == repr([(k, nw(w), strip_reserved(m)) for k, w, m in d1["edges"]]):
            return out
    except Exception:  # noqa: BLE001
        pass
    if d0["type"] != d1["type"]:
        out.append(f"{what}: type {d1['type']} != {d0['type']}")
    if d0["weighted"] != d1["weighted"]:
        out.append(f"{what}: is_weighted() {d1['weighted']} != saved {d0['weighted']}")
    if not jeq(d0["hmeta"], d1["hmeta"]):
        out.append(f"{what}: hypergraph metadata {d1['hmeta']!r} != saved {d0['hmeta']!r}"[:600])
    n0 = {repr(n): m for n, m in d0["nodes"]}
    n1 = {repr(n): m for n, m in d1["nodes"]}
    if len(n1) != len(d1["nodes"]):
        out.append(f"{what}: a node is listed twice")
    def few(xs):
        return "[" + ", ".join(x if len(x) <= 130 else x[:90] + "...(" + str(len(x)) + " chars)" for x in sorted(xs)[:3]) + \
            (", ..." if len(xs) > 3 else "") + "]"
    if sorted(n0) != sorted(n1):
        if len(n0) + len(n1) <= 24:
            out.append(f"{what}: nodes {sorted(n1)} != saved {sorted(n0)}"[:600])
        else:
            out.append(f"{what}: {len(n1)} nodes != saved {len(n0)}; saved but not there: {few(set(n0) - set(n1))}; "
                       f"there but not saved: {few(set(n1) - set(n0))}"[:900])
    else:
        for n in n0:
            if not jeq(n0[n], n1[n]):
                out.append(f"{what}: metadata of node {n[:60]}: {n1[n]!r} != saved {n0[n]!r}"[:600])
                break
    e0 = {repr(k): (w, m) for k, w, m in d0["edges"]}
    e1 = {repr(k): (w, m) for k, w, m in d1["edges"]}
    if len(e1) != len(d1["edges"]):
        out.append(f"{what}: a hyperedge is listed twice")
    if sorted(e0) != sorted(e1):
        if len(e0) + len(e1) <= 16 and all(len(x) < 100 for x in list(e0) + list(e1)):
            out.append(f"{what}: hyperedges {sorted(e1)} != saved {sorted(e0)}"[:600])
        else:
            out.append(f"{what}: {len(e1)} hyperedges != saved {len(e0)}; saved but not there: {few(set(e0) - set(e1))}; "
                       f"there but not saved: {few(set(e1) - set(e0))}"[:900])
    else:
        for k in e0:
            if not same_weight(e0[k][0], e1[k][0], d0["weighted"] is True):
                out.append(f"{what}: weight of {k}: {e1[k][0]!r} ({type(e1[k][0]).__name__}) != saved {e0[k][0]!r} "
                           f"({type(e0[k][0]).__name__})"[:300])
                break
        for k in e0:
            if not jeq(strip_reserved(e0[k][1]), strip_reserved(e1[k][1])):
                a, b = strip_reserved(e1[k][1]), strip_reserved(e0[k][1])
                if isinstance(a, dict) and isinstance(b, dict) and len(a) + len(b) > 12:
                    dk = [x for x in list(b) + list(a) if x not in a or x not in b or not jeq(a[x], b[x])]
                    out.append(f"{what}: metadata of {k[:80]} (reserved keys erased): {len(a)} entries != saved {len(b)}; "
                               f"first differing keys {dk[:3]!r}"[:600])
                else:
                    out.append(f"{what}: metadata of {k[:80]} (reserved keys erased): {e1[k][1]!r} != saved {e0[k][1]!r}"[:600])
                break
    return out


def wf_digest(d, T):
    """container invariants the property's objects satisfy (checked, not assumed)"""
    names = {repr(n) for n, _ in d["nodes"]}
    for k, w, m in d["edges"]:
        if any(repr(x) not in names for x in members_of(k, T)):
            return False
        if not isinstance(m, dict):
            return False
    return isinstance(d["hmeta"], dict)


# ------------------------------------------------------------------------------------------
# wire encoding for the Lean driver

class Enc:
    def __init__(self, labels, layers):
        self.rank = {repr(x): i for i, x in enumerate(sorted(set(labels), key=lambda x: (str(type(x)), x)))}
        self.lrank = {repr(x): i for i, x in enumerate(layers)}
        self.xk, self.xv = {}, {}      # keys / values outside the pools get codes of their own (injective per case)

    def node(self, x):
        return self.rank.get(repr(x), 10 ** 7 + crc(repr(x)) % 9973)

    def layer(self, x):
        return self.lrank.get(repr(x), 10 ** 6)

    def val(self, v):
        nv = norm(v)
        i = VKEY.get(nv)
        if i is None:
            i = self.xv.setdefault(nv, 1000 + len(self.xv))
        return "p" + str(i)

    def key(self, k):
        if isinstance(k, str) and k in UKEYS:
            return "u" + str(UKEYS.index(k))
        return "u" + str(self.xk.setdefault(repr(k), 1000 + len(self.xk)))

    def meta(self, m, T=None, weighted=False, typed=False):
        """typed=True: the reserved keys carry what save wrote (weight in quanta / time / layer rank)"""
        if not isinstance(m, dict):
            return "u0=p998"
        items = []
        for k, v in m.items():
            if isinstance(k, str) and k in RKEYS:
                kk = RKEYS[k]
                if typed and k == "weight" and weighted:
                    vv = "q" + wcode(v) if wcode(v) != "bad" else "p997"
                elif typed and k == "time" and T == "T":
                    vv = "t" + str(v) if isinstance(v, int) and not isinstance(v, bool) and v >= 0 else "p997"
                elif typed and k == "layer" and T == "M":
                    vv = "l" + str(self.layer(v))
                else:
                    vv = self.val(v)
            else:
                kk = self.key(k)
                vv = self.val(v)
            items.append(kk + "=" + vv)
        return ",".join(items) if items else "-"

    def nodes(self, xs):
        return ".".join(str(self.node(x)) for x in xs) if len(xs) else "_"

    def inter(self, T, k):
        """k is a digest key"""
        if T == "D":
            return self.nodes(k[0]) + ">" + self.nodes(k[1]), "-"
        if T == "H":
            return self.nodes(k), "-"
        if T == "T":
            return self.nodes(k[0]), str(k[1])
        return self.nodes(k[0]), str(self.layer(k[1]))

    def weight(self, w):
        return wcode(w)


def wcode(w):
    """a weight as the model's integer: exactly 4*w (ints of any size, floats on the 1/4 grid); other finite floats
    get an injective code above every 4*float (the model stores / compares them, it never adds them up)"""
    if not is_num(w):
        return "bad"
    if isinstance(w, int):
        return str(4 * w)
    if w != w or w in (float("inf"), float("-inf")):
        return "bad"
    q = Fraction(w) * 4
    if q.denominator == 1:
        return str(q.numerator)
    return str(OPAQUE + struct.unpack(">Q", struct.pack(">d", w))[0])


def canon_meta_str(s):
    return ",".join(sorted(s.split(","))) if s != "-" else "-"


def digest_lines(enc, d, T, typed=False):
    """canonical text of a digest in the driver's output format (sorted)"""
    w = d["weighted"]
    head = f"{T};{int(bool(w))};{canon_meta_str(enc.meta(d['hmeta']))}"
    ns = sorted(f"{enc.node(n)};{canon_meta_str(enc.meta(m))}" for n, m in d["nodes"])
    es = []
    for k, wt, m in d["edges"]:
        it, ex = enc.inter(T, k)
        es.append(f"{it};{ex};{enc.weight(wt)};{canon_meta_str(enc.meta(m, T, w, typed))}")
    return head, ns, sorted(es)


def parse_driver_digest(s):
    """driver prints  head|n;meta|...|#|inter;extra;w;meta|...   -> (head, sorted nodes, sorted edges)"""
    parts = s.split("|")
    if "#" not in parts:
        return None
    i = parts.index("#")
    h = parts[0].split(";")
    head = ";".join(h[:2] + [canon_meta_str(h[2])]) if len(h) == 3 else parts[0]
    ns = sorted(";".join([p.split(";")[0], canon_meta_str(p.split(";")[1])]) for p in parts[1:i])
    es = sorted(";".join(p.split(";")[:3] + [canon_meta_str(p.split(";")[3])]) for p in parts[i + 1:])
    return head, ns, es


def content_cmds(enc, d, T):
    lines = [f"begin {T} {int(bool(d['weighted']))}", "hmeta " + enc.meta(d["hmeta"])]
    for n, m in d["nodes"]:
        lines.append(f"rnode {enc.node(n)} {enc.meta(m)}")
    for k, wt, m in d["edges"]:
        it, ex = enc.inter(T, k)
        lines.append(f"redge {it} {ex} {enc.weight(wt)} {enc.meta(m)}")
    return lines


def file_records(enc, data, T):
    """json.load(file) -> canonical record texts in the driver's format; None if the shape is off"""
    out = []
    weighted = False
    for rec in data:
        if not isinstance(rec, dict):
            return None
        if "hypergraph_type" in rec:
            t = {v: k for k, v in TNAME.items()}.get(rec.get("hypergraph_type"), "?")
            weighted = rec.get("weighted", "absent")
            w = "1" if weighted is True else "0" if weighted is False else "x"
            out.append(f"H;{t};{w};{canon_meta_str(enc.meta(rec.get('hypergraph_metadata')))}")
            weighted = weighted is True
        elif rec.get("type") == "node":
            if sorted(rec) != ["idx", "metadata", "type"]:
                return None
            out.append(f"N;{enc.node(rec['idx'])};{canon_meta_str(enc.meta(rec['metadata']))}")
        elif rec.get("type") == "edge":
            if sorted(rec) != ["interaction", "metadata", "type"]:
                return None
            it = rec["interaction"]
            if T == "D":
                its = enc.nodes(it[0]) + ">" + enc.nodes(it[1])
            else:
                its = enc.nodes(it)
            out.append(f"E;{its};{canon_meta_str(enc.meta(rec['metadata'], T, weighted, True))}")
        else:
            return None
    return out


def canon_records(s):
    out = []
    for p in s.split("|"):
        f = p.split(";")
        out.append(";".join(f[:-1] + [canon_meta_str(f[-1])]))
    return out


def record_cmds(recs):
    """canonical record texts -> driver commands that rebuild the record list"""
    lines = ["rec_clear"]
    for r in recs:
        f = r.split(";")
        if f[0] == "H":
            lines.append(f"rec_h {f[1]} {f[2]} {f[3]}")
        elif f[0] == "N":
            lines.append(f"rec_n {f[1]} {f[2]}")
        else:
            lines.append(f"rec_e {f[1]} {f[2]}")
    return lines


# ------------------------------------------------------------------------------------------
# one object case

def is_nontrivial(d, T):
    used = set()
    for k, _, _ in d["edges"]:
        used |= {repr(x) for x in (list(k[0]) + list(k[1]) if T == "D" else (k[0] if T in "TM" else k))}
    iso = any(repr(n) not in used for n, _ in d["nodes"])
    md = any(m for _, m in d["nodes"]) or any(m for _, _, m in d["edges"])
    return iso and len(d["edges"]) >= 2 and bool(md)


# record positions (0 = header) around which the sampled projection of a big object always looks
BOUNDS = (256, 1000, 1024, 4096, 8192, 10000, 16384, 65536)


def select(d, T, must, seed):
    """sample of a big digest: the nodes / hyperedges whose records sit around the positions BOUNDS of the file, the
    first and last two, a dozen random ones, everything the later history names (`must`), closed under membership.
    Returns (reprs of the selected nodes, reprs of the selected keys)."""
    rng = random.Random(seed)
    N, E = len(d["nodes"]), len(d["edges"])
    ni, ei = set(), set()
    for p in BOUNDS:
        for q in range(p - 2, p + 2):
            if 1 <= q <= N:
                ni.add(q - 1)
            elif N < q <= N + E:
                ei.add(q - 1 - N)
    ni |= {i for i in (0, 1, N - 2, N - 1) if 0 <= i < N} | set(rng.sample(range(N), min(N, 10)))
    ei |= {j for j in (0, 1, E - 2, E - 1) if 0 <= j < E} | set(rng.sample(range(E), min(E, 12)))
    if N + E > 6000:       # (a hyperedge of thousands of members would make the sample the object: the edge_size objects cover it)
        ei = {j for j in ei if len(members_of(d["edges"][j][0], T)) <= 64}
    selN = {repr(d["nodes"][i][0]) for i in ni} | set(must[0])
    selE = {repr(d["edges"][j][0]) for j in ei} | set(must[1])
    for k, _, _ in d["edges"]:
        if repr(k) in selE:
            selN.update(repr(x) for x in members_of(k, T))
    return selN, selE


def project(d, sel, base):
    """the sub-content on the selection (listing order kept); items that are not in `base` (= were added after the
    selection was made) are kept as well"""
    selN, selE = sel
    bN, bE = base if base is not None else (None, None)
    out = dict(d)
    out["nodes"] = [(n, m) for n, m in d["nodes"] if repr(n) in selN or (bN is not None and repr(n) not in bN)]
    out["edges"] = [(k, w, m) for k, w, m in d["edges"] if repr(k) in selE or (bE is not None and repr(k) not in bE)]
    return out


def must_of(case, T):
    """what the history after load names: (node reprs, key reprs) - the sampled projection has to contain it, so that
    the model's add_node / add_edge on the projection meet the same 'already there' cases as the real object"""
    nodes, keys = set(), set()
    for op in list(case.get("post_a", [])) + list(case.get("post_b", [])):
        if op[0] in ("node", "rmnode", "nmeta", "nattr"):
            nodes.add(repr(op[1]))
        elif op[0] in ("edge", "rmedge", "emeta", "eattr", "setw"):
            c = canon_key(T, tup(op[1]))
            keys.add(repr(c))
            nodes.update(repr(x) for x in members_of(c, T))
        elif op[0] in ("bulk", "bulkw"):
            for k in op[1]:
                c = canon_key(T, tup(k))
                keys.add(repr(c))
                nodes.update(repr(x) for x in members_of(c, T))
    return nodes, keys


def expected_records(d, T):
    """the record list save_hypergraph(.json) is modelled to write for the digest d (plain Python twin of the model's
    `save`, used in full on big objects where the model only sees a sample)"""
    recs = [{"hypergraph_type": d["type"], "hypergraph_metadata": d["hmeta"], "weighted": d["weighted"]}]
    for n, m in d["nodes"]:
        recs.append({"type": "node", "idx": n, "metadata": m})
    wtd = d["weighted"] is True
    for k, w, m in d["edges"]:
        md = dict(m)
        if T == "M":
            md["layer"] = k[1]
        if wtd:
            md["weight"] = w
        if T == "T":
            md["time"] = k[1]
        inter = [list(k[0]), list(k[1])] if T == "D" else list(k[0]) if T in "TM" else list(k)
        recs.append({"type": "edge", "interaction": inter, "metadata": md})
    return recs


def scan_pieces(text):
    """top-level pieces of a text file (the trusted tokeniser of the framing check): o `[`  s `,`  c `]`  i one JSON
    value (json's own scanner)  x anything else; white space skipped.  Never raises."""
    dec = json.JSONDecoder()
    out, i, n = [], 0, len(text)
    first = True
    while i < n:
        ch = text[i]
        if ch in " \t\r\n":
            i += 1
        elif first and ch == "[":
            out.append("o")
            i += 1
            first = False
        elif ch == ",":
            out.append("s")
            i += 1
        elif ch == "]":
            out.append("c")
            i += 1
        else:
            first = False
            try:
                _, i = dec.raw_decode(text, i)
                out.append("i")
            except (ValueError, RecursionError):
                out.append("x")
                break
    return "".join(out)


FILE_STEMS = ["c", "c", "c", "d.v2", "\u00e7\u00e9 \u6587", "sp ace", "caf\udce9", "\U0001f600", "sub.dir \u00e9/c", "sub.dir \u00e9/.hid.den"]


def file_path(tmp, case, stage, fmt):
    """where an object is saved: a handful of names (so files of earlier cases are overwritten), among them names with
    several dots, blanks, non-ASCII / astral / undecodable characters and a directory whose name holds a dot"""
    stem = FILE_STEMS[crc(case.get("T"), len(case.get("ops", ())), repr(case.get("labels", ""))[:80]) % len(FILE_STEMS)]
    path = os.path.join(tmp, f"{stem}{1 if stage == 'first' else 2}.{fmt}")
    try:
        os.makedirs(os.path.dirname(path), exist_ok=True)
        os.fsencode(path)
    except Exception:  # noqa: BLE001 - a file system that refuses the name
        path = os.path.join(tmp, f"c{1 if stage == 'first' else 2}.{fmt}")
    return path


class Loaded:
    """result of one save -> load: g the loaded object (None: stop), mok whether the driver now holds the model's
    loaded content, d1 the digest of g, path the file, sel / base the sampled projection in force (big objects)"""
    def __init__(self, path):
        self.g, self.mok, self.d1, self.path, self.sel, self.base = None, False, None, path, None, None

    def view(self, d):
        return d if self.sel is None else project(d, self.sel, self.base)


def save_load(ctx, drv, case, enc, h, T, fmt, tmp, stage, rep=None, must=None):
    """one save -> load of the live object h with every oracle of the property; returns a Loaded.
    With a driver: the model's save / load / populate∘expose on the digest of h against the file and the result;
    afterwards the driver's current content is the model's loaded content.  Objects beyond `limit` records: the Python
    oracles run in full, the file is compared record by record with expected_records, its framing goes to the model in
    full (`frame`), and the model's save / load run on a sampled projection (select / project)."""
    from hypergraphx.readwrite import load_hypergraph, save_hypergraph
    vc = {**(rep if rep is not None else case), "format": fmt, "stage": stage}
    path = file_path(tmp, case, stage, fmt)
    out = Loaded(path)
    # a file of an earlier case usually exists at this path: saving overwrites it
    r = guarded(digest, h, T)
    if r[0] != "ok":
        ctx.violation(vc, f"{stage}: public queries fail on the object: {r[1]}")
        return out
    d0 = r[1]                     # the state just before this save
    if not wf_digest(d0, T):
        ctx.count("skipped_not_wellformed")
        return out
    inc0 = incidence(h, T, d0)
    size = 1 + len(d0["nodes"]) + len(d0["edges"])
    limit = ctx.scale(1500, 2500) if not case.get("full_model") else 10 ** 9
    use_model = drv is not None
    dm0 = d0
    if size > limit:
        ctx.count("big_objects_saved")
        if use_model:
            out.sel = select(d0, T, must or (set(), set()), crc(size, fmt, stage))
            out.base = ({repr(n) for n, _ in d0["nodes"]}, {repr(k) for k, _, _ in d0["edges"]})
            dm0 = project(d0, out.sel, None)
            if len(dm0["nodes"]) + len(dm0["edges"]) > limit:
                use_model = False           # (one hyperedge with thousands of members: the sample is the object)
                ctx.count("model_skipped_sample_too_big")
            else:
                ctx.count("model_on_sampled_projection")
    model_records = None
    if use_model:
        lines = content_cmds(enc, dm0, T) + ["wf", "digest", "save"]
        ans = drv.batch(lines)
        n = len(lines)
        if ans[n - 3] != "1":
            ctx.disagree(vc, f"{stage}: the model's well-formedness predicate (hypothesis of the round-trip theorems) is "
                             f"false on the digest of a real object: {ans[n-3]}")
        if parse_driver_digest(ans[n - 2]) != digest_lines(enc, dm0, T):
            ctx.disagree(vc, f"{stage}: driver echo of the content differs: {ans[n-2][:300]!r} vs {digest_lines(enc, dm0, T)!r}"[:900])
        model_records = canon_records(ans[n - 1])
    r = guarded(save_hypergraph, h, path, binary=(fmt == "hgx"), secs=60)
    if r[0] != "ok":
        ctx.violation(vc, f"{stage}: save_hypergraph(.{fmt}) raised {r[1]}")
        return out
    r = guarded(digest, h, T)
    if r[0] != "ok":
        ctx.violation(vc, f"{stage}: public queries fail on the object after saving: {r[1]}")
        return out
    d_after = r[1]
    if not jeq(d0, d_after):
        diffs = [f"{k}: {d_after[k]!r} != before {d0[k]!r}" for k in d0 if not jeq(d0[k], d_after.get(k))]
        ctx.violation(vc, f"{stage}: save_hypergraph(.{fmt}) modified the saved object: " + "; ".join(diffs)[:400])
        # continue with the round trip against the state BEFORE saving
    elif size <= limit and incidence(h, T, d_after) != inc0:
        ctx.violation(vc, f"{stage}: save_hypergraph(.{fmt}) changed the incident-edge listings of the saved object")
    r = guarded(load_hypergraph, path, secs=60)
    if r[0] != "ok":
        what = f"{stage}: load_hypergraph(.{fmt}) raised {r[1]}"
        if fmt == "json":
            what += file_shape(path, size)
        ctx.violation(vc, what[:900])
        return out
    g = r[1]
    if g is None:
        ctx.violation(vc, f"{stage}: load_hypergraph(.{fmt}) returned None")
        return out
    r = guarded(digest, g, T)
    if r[0] != "ok":
        ctx.violation(vc, f"{stage}: public queries fail on the loaded object / wrong type {type(g).__name__}: {r[1]}")
        return out
    d1 = r[1]
    diffs = compare_digests(d0, d1, f"{stage}: .{fmt} round trip")
    for what in diffs[:2]:
        ctx.violation(vc, what)
    if diffs:
        return out
    if fmt == "hgx" and not jeq(d0, d1):
        # binary: a field-by-field copy - also the reserved keys, the listing order and the layer registry are identical
        ctx.violation(vc, f"{stage}: .hgx round trip: digest (with listing order / layer registry) differs")
        return out
    if inc0 == incidence_expected(d0, T):
        inc1 = incidence(g, T, d1)
        if inc1 != inc0:
            bad = [n for n in inc0 if inc1.get(n) != inc0[n]][:1]
            ctx.violation(vc, f"{stage}: .{fmt} round trip: get_incident_edges({bad[0][:60]}) of the loaded object = "
                              f"{inc1.get(bad[0])!r}, saved object {inc0[bad[0]]!r}"[:700])
            return out
    else:
        ctx.count("incidence_of_original_inconsistent")
    out.g, out.d1 = g, d1
    if fmt == "json":
        # the file itself: record stream and framing (correspondence with the model; the property does not fix the bytes)
        try:
            with open(path, "rb") as f:
                raw = f.read()
            if drv is not None and case.get("stringy") and stage == "first":
                check_file_strings(ctx, drv, vc, raw, d0)
            # (the bytes are read as what the platform's reader makes of them: UTF-8 here; lone surrogates pass)
            text = raw.decode("utf-8", "surrogatepass")
            data = json.loads(text)
            if drv is not None and len(raw) <= 6000 and _LINES["n"] < ctx.scale(80, 3000) and all(b < 128 for b in raw):
                check_file_lines(ctx, drv, vc, raw, data)
        except Exception as e:  # noqa: BLE001
            ctx.violation(vc, f"{stage}: the saved file is not JSON although load_hypergraph read it: {e}")
            return out
        if size > limit or drv is None:
            want = expected_records(d0, T)
            if not isinstance(data, list) or len(data) != len(want):
                ctx.disagree(vc, f"{stage}: the file holds {len(data) if isinstance(data, list) else type(data).__name__} records, "
                                 f"the model writes {len(want)} (1 header + {len(d0['nodes'])} nodes + {len(d0['edges'])} hyperedges)")
                return out
            for i, (a, b) in enumerate(zip(data, want) if repr(data) != repr(want) else []):
                if not jeq(a, b):
                    ctx.disagree(vc, f"{stage}: record {i} of the file is {a!r}, the model's save writes {b!r}"[:900])
                    return out
            ctx.count("files_compared_in_full_in_python")
        if drv is not None:
            letters = scan_pieces(text)
            ans = drv.batch(["frame " + (letters or "x")])[0]
            if ans != f"{size};1":
                ctx.disagree(vc, f"{stage}: framing of the file: model readText / writeText answer {ans} on the piece sequence "
                                 f"{letters[:40]}..{letters[-10:]} ({len(letters)} pieces), expected {size};1 "
                                 f"(= `[`, {size} records with one separator between neighbours, `]`)")
                return out
            ctx.count("framing_checked")
    if use_model and model_records is not None:
        dm1 = out.view(d1)
        if fmt == "json":
            if out.sel is not None:
                # the records of the sample, by position (header, then nodes, then hyperedges in listing order)
                N = len(d0["nodes"])
                keep = [0] + [1 + i for i, (n, _) in enumerate(d0["nodes"]) if repr(n) in out.sel[0]] + \
                       [1 + N + j for j, (k, _, _) in enumerate(d0["edges"]) if repr(k) in out.sel[1]]
                data = [data[i] for i in keep]
            r = guarded(file_records, enc, data, T)
            recs = r[1] if r[0] == "ok" else None
            if recs is None or recs != model_records:
                ctx.disagree(vc, f"{stage}: file records {recs!r} != model save {model_records!r}"[:1500])
                return out
            ans = drv.batch(["load", "digest"])
            if ans[0] != "ok":
                ctx.disagree(vc, f"{stage}: model load of its own save answers {ans[0]}")
                return out
            if parse_driver_digest(ans[1]) != digest_lines(enc, dm1, T, typed=True):
                ctx.disagree(vc, f"{stage}: model load(save c) = {parse_driver_digest(ans[1])!r}, implementation loaded "
                                 f"{digest_lines(enc, dm1, T, typed=True)!r}"[:1500])
                return out
        else:
            ans = drv.batch(["hgx", "digest"])
            if ans[0] != "ok" or parse_driver_digest(ans[1]) != digest_lines(enc, dm1, T):
                ctx.disagree(vc, f"{stage}: model loadPickle(expose c) = {ans[0]} {parse_driver_digest(ans[1])!r}, implementation "
                                 f"loaded {digest_lines(enc, dm1, T)!r}"[:1500])
                return out
        out.mok = True
    return out


def file_shape(path, size):
    """for the report of a file that does not load: where the text stops being the array of records"""
    try:
        with open(path, encoding="utf-8", errors="surrogatepass") as f:
            text = f.read()
        letters = scan_pieces(text)
        want = "o" + "is" * (size - 1) + "ic"
        j = next((i for i, (a, b) in enumerate(zip(letters, want)) if a != b), min(len(letters), len(want)))
        return (f"; the file has {len(text)} characters, its top-level pieces are {len(letters)} (expected {len(want)}: `[`, "
                f"{size} records separated by `,`, `]`); first deviation at piece {j} (record {j // 2}): "
                f"...{letters[max(0, j - 4):j + 4]}... instead of ...{want[max(0, j - 4):j + 4]}...")
    except Exception as e:  # noqa: BLE001
        return f"; (file not readable: {e})"


def api_lines(enc, T, ops):
    def edge_line(k, w, md):
        k = tup(k)
        if T == "D":
            it, ex = enc.nodes(k[0][0]) + ">" + enc.nodes(k[0][1]), "-"
        elif T == "H":
            it, ex = enc.nodes(k[0]), "-"
        elif T == "T":
            it, ex = enc.nodes(k[0]), str(k[1])
        else:
            it, ex = enc.nodes(k[0]), str(enc.layer(k[1]))
        w = "none" if w is None else enc.weight(w)
        return f"api_edge {it} {ex} {w} {'none' if md is None else enc.meta(md)}"
    lines = []
    for op in ops:
        if op[0] == "node":
            lines.append(f"api_node {enc.node(op[1])} {'none' if op[2] is None else enc.meta(op[2])}")
        elif op[0] == "hset":
            lines.append("api_sethmeta " + enc.meta(op[1]))
        elif op[0] == "bulk":
            # a batch is the run of its single calls (weights / metadata left out = None for every hyperedge)
            for j, k in enumerate(op[1]):
                lines.append(edge_line(k, None if op[2] is None else op[2][j], None if op[3] is None else op[3][j]))
        else:
            lines.append(edge_line(op[1], op[2], op[3]))
    return lines


def compare_live(ctx, vc, twin, g, T, fmt, what):
    """the original (twin) and the loaded object after the same further history: equal digests (the text format modulo
    the reserved keys it left in the metadata, the binary format exactly) and equal incidence listings"""
    r0, r1 = guarded(digest, twin, T), guarded(digest, g, T)
    if r0[0] != "ok":
        ctx.count("twin_queries_fail")
        return None
    if r1[0] != "ok":
        ctx.violation(vc, f"{what}: public queries fail on the loaded object: {r1[1]}")
        return None
    d0, d1 = r0[1], r1[1]
    if not wf_digest(d0, T):
        ctx.count("skipped_not_wellformed")
        return None
    diffs = compare_digests(d0, d1, what)
    if not diffs and fmt == "hgx" and not jeq(d0, d1):
        diffs = [f"{what}: digests (with listing order) differ: loaded {d1!r}, original {d0!r}"[:700]]
    for x in diffs[:2]:
        ctx.violation(vc, x)
    if diffs:
        return None
    inc0 = incidence(twin, T, d0)
    if inc0 == incidence_expected(d0, T):
        inc1 = incidence(g, T, d1)
        if inc1 != inc0:
            bad = [n for n in inc0 if inc1.get(n) != inc0[n]][:1]
            ctx.violation(vc, f"{what}: get_incident_edges({bad[0][:60]}) of the loaded object = {inc1.get(bad[0])!r}, "
                              f"original {inc0[bad[0]]!r}"[:700])
            return None
    else:
        ctx.count("incidence_of_original_inconsistent")
    return d1


def model_exact(case):
    """histories whose weights the model adds up exactly: every float on the 1/4 grid and small, and no integer beyond
    2**40 next to a float"""
    ws = []
    for op in ctor_ops(case) + list(case["ops"]) + list(case.get("post_a", [])):
        if op[0] in ("edge", "setw"):
            ws.append(op[2])
        elif op[0] in ("bulkw", "bulk"):
            ws += list(op[2] or [])
    flts = [w for w in ws if isinstance(w, float)]
    if any(abs(w) > 2 ** 40 or (Fraction(w) * 4).denominator != 1 for w in flts):
        return False
    return not (flts and any(isinstance(w, int) and abs(w) > 2 ** 40 for w in ws))


def check_object(ctx, drv, case, tmp):
    rep = case                              # what a report / replay stores (a sized object: its recipe only)
    if "recipe" in case:
        r = guarded(expand, case["recipe"], secs=120)
        if r[0] != "ok":
            raise RuntimeError("recipe does not expand: " + r[1])
        case = r[1]
        ctx.count("sized_" + case_dim(rep))
    T = case["T"]
    r = guarded(build, case, secs=120)
    if r[0] != "ok":
        ctx.count("build_failed")
        return
    h, failed = r[1]
    ctx.count("ops_rejected", failed)
    r = guarded(digest, h, T)
    if r[0] != "ok":
        ctx.violation(rep, f"public queries fail on the built {TNAME[T]}: {r[1]}")
        return
    d0 = r[1]
    if not wf_digest(d0, T):
        ctx.count("skipped_not_wellformed")
        return
    enc = Enc(list(case["labels"]) + list(case.get("xlabels", [])), case["layers"])
    if "recipe" in rep:
        key = ("sized", json.dumps(rep["recipe"], sort_keys=True))
        rc = 1 + len(d0["nodes"]) + len(d0["edges"])
        ctx.count("records_beyond_4096" if rc > 4096 else "records_upto_4096")
        if rc > 10000:
            ctx.count("records_beyond_10000")
    else:
        key = ("obj", T, json.dumps(hgxv.jsonable(d0), sort_keys=True, default=repr), json.dumps(hgxv.jsonable(case.get("post_a", [])), default=repr))
    ctx.case(key, is_nontrivial(d0, T), sample=rep)
    ctx.count("type_" + T)
    ctx.count("weighted" if d0["weighted"] else "unweighted")
    if d0["weighted"]:
        ctx.count("weights_" + str(case.get("wreg") or "q"))
        if any(is_num(w) and abs(w) > 2 ** 53 for _, w, _ in d0["edges"]):
            ctx.count("weight_beyond_2^53")
    if any(op[0] in ("rmedge", "rmnode") for op in case["ops"]):
        ctx.count("with_removals")
    if case.get("ctor"):
        ctx.count("through_constructor")
    if any(op[0] == "bulk" for op in case["ops"]):
        ctx.count("with_add_edges_batches")
    if not (isinstance(d0["hmeta"], dict) and d0["hmeta"].get("weighted") == d0["weighted"]
            and d0["hmeta"].get("type") == TNAME[T]):
        ctx.count("hmeta_replaced_or_stale")
    exact = model_exact(case)
    must = must_of(case, T)
    for fmt in ("json", "hgx"):
        L = save_load(ctx, drv, case, enc, h, T, fmt, tmp, "first", rep, must)
        g = L.g
        if g is None or "post_a" not in case or ctx.too_many() or case.get("post_fmt", fmt) != fmt:
            continue
        # the loaded object is a full object: the same further history on it and on a twin of the original
        vc = {**rep, "format": fmt, "stage": "history after load"}
        g2 = None
        if case.get("reload"):
            from hypergraphx.readwrite import load_hypergraph
            r = guarded(load_hypergraph, L.path, secs=60)
            g2 = r[1] if r[0] == "ok" else None          # a second object from the same file, kept aside
        r = guarded(build, case, secs=120)
        if r[0] != "ok":
            continue
        twin = r[1][0]
        post_a = [tuple(op) for op in case["post_a"]]
        post_b = [tuple(op) for op in case.get("post_b", [])]
        r0, r1 = guarded(apply_ops, twin, T, post_a), guarded(apply_ops, g, T, post_a)
        if r0[0] != "ok":
            continue
        f0, f1 = r0[1], r1[1]
        if f0 != f1:
            ctx.violation(vc, f"after load(.{fmt}): the steps {post_a!r} are rejected differently on the loaded object "
                              f"({f1}) and on the original ({f0})"[:700])
            continue
        ctx.count("history_after_load")
        dA = compare_live(ctx, vc, twin, g, T, fmt, f"after load(.{fmt}) and the steps {post_a!r}"[:500])
        if dA is None:
            continue
        if drv is not None and exact and L.mok:
            ans = drv.batch(api_lines(enc, T, post_a) + ["digest"])
            mine = digest_lines(enc, L.view(dA), T, typed=(fmt == "json"))
            if parse_driver_digest(ans[-1]) != mine:
                ctx.disagree(vc, f"model add_node/add_edge steps {post_a!r} on its loaded content give "
                                 f"{parse_driver_digest(ans[-1])!r}, implementation {mine!r}"[:1500])
        ok = True
        # aliasing probe: a junk attribute written through the public setters into ONE node's, ONE hyperedge's and the
        # hypergraph's metadata (items whose metadata is empty are preferred: shared default dicts) - on both objects
        post_b = probe_ops(dA, T) + post_b
        if post_b:
            r0, r1 = guarded(apply_ops, twin, T, post_b), guarded(apply_ops, g, T, post_b)
            if r0[0] != "ok":
                continue
            f0, f1 = r0[1], r1[1]
            if f0 != f1:
                ctx.violation(vc, f"after load(.{fmt}): the steps {post_a + post_b!r} are rejected differently on the loaded "
                                  f"object ({f1}) and on the original ({f0})"[:700])
                continue
            ok = compare_live(ctx, vc, twin, g, T, fmt, f"after load(.{fmt}) and the steps {post_a + post_b!r}"[:500]) is not None
        if ok:
            # a loaded and further used object is saved and loaded again (same or other format)
            save_load(ctx, drv, case, enc, g, T, case.get("fmt2", {}).get(fmt, fmt), tmp,
                      "second (object loaded from ." + fmt + ", then used)", rep)
        # nothing is shared: using the loaded object changed neither the saved object, nor another object loaded from the
        # same file, nor what the file gives when it is loaded once more
        r = guarded(digest, h, T)
        if r[0] != "ok" or not jeq(r[1], d0):
            ctx.violation(vc, f"after load(.{fmt}): using the LOADED object changed the SAVED object: "
                              f"{(compare_digests(d0, r[1], 'saved object') if r[0] == 'ok' else [r[1]])[:1]}"[:700])
            return
        if g2 is not None:
            r = guarded(digest, g2, T)
            if r[0] != "ok" or not jeq(r[1], L.d1):
                ctx.violation(vc, f"two objects loaded from the same .{fmt} file are not independent: using the first changed the "
                                  f"second: {(compare_digests(L.d1, r[1], 'second object') if r[0] == 'ok' else [r[1]])[:1]}"[:700])
                return
            from hypergraphx.readwrite import load_hypergraph
            r = guarded(load_hypergraph, L.path, secs=60)
            r = guarded(digest, r[1], T) if r[0] == "ok" and r[1] is not None else ("exc", "load raised / returned None: " + str(r[1]))
            if r[0] != "ok" or not jeq(r[1], L.d1):
                ctx.violation(vc, f"loading the same .{fmt} file once more (after the first loaded object was used) gives another "
                                  f"object: {(compare_digests(L.d1, r[1], 'reloaded object') if r[0] == 'ok' else [r[1]])[:1]}"[:700])
                return
            ctx.count("reload_checked")
    # add_node / add_edge semantics of the model on the add-only prefix of the history
    if drv is not None and exact:
        check_api_prefix(ctx, drv, case, enc)


def probe_ops(d, T):
    ops = []
    ns = [n for n, m in d["nodes"] if not m] or [n for n, _ in d["nodes"]]
    if ns:
        ops.append(("nattr", ns[len(ns) // 2], "junk-probe", [1, {"x": 2}]))
    ks = [k for k, _, m in d["edges"] if not strip_reserved(m)] or [k for k, _, _ in d["edges"]]
    if ks:
        k = ks[len(ks) // 2]
        ops.append(("eattr", (k,) if T in "HD" else k, "junk-probe", {"x": [1]}))
    ops.append(("hattr", "junk-probe", 2))
    return ops


def case_dim(rep):
    return str(rep["recipe"].get("dim"))


def check_api_prefix(ctx, drv, case, enc):
    T = case["T"]
    pre = []
    for op in case["ops"]:
        if op[0] not in ("node", "edge", "hset", "bulk"):
            break
        pre.append(op)
    if not pre and not case.get("ctor"):
        return
    pre = pre[:400]           # (a sized object: the first 400 steps of its add-only prefix)
    sub = {**case, "ops": pre}
    sub.pop("post_a", None)
    sub.pop("post_b", None)
    r = guarded(build, sub)
    if r[0] != "ok":
        return
    h, failed = r[1]
    r = guarded(digest, h, T)
    if r[0] != "ok":
        return
    d = r[1]
    if failed and any(op[0] == "bulk" for op in pre):
        return          # a batch refused as a whole is not the run of its single calls: the twin comparisons cover it
    lines = [f"api_new {T} {int(case['weighted'])}"] + api_lines(enc, T, ctor_ops(case) + pre)
    lines.append("digest")
    ans = drv.batch(lines)
    ctx.count("api_prefix_checked")
    if parse_driver_digest(ans[-1]) != digest_lines(enc, d, T):
        ctx.disagree(sub, f"model add_node/add_edge history gives {parse_driver_digest(ans[-1])!r}, implementation "
                          f"{digest_lines(enc, d, T)!r}")


# ------------------------------------------------------------------------------------------
# .hgr

# comment / blank lines whose STRING CONTENT is odd: non-ASCII, astral, separators that str.splitlines() (but not the file
# iterator) treats as line ends followed by what would be a hyperedge line, NUL, white space that str.strip() removes
HGR_ODD = ["% caf\u00e9 \u4e2d\u6587 \U0001f600", "% a\u2028 1 2", "% x\x0c1 2", "% y\x1c 3", "%\x85 1", "% \u20291 2 3", "\x0c", "\x1c", "\u2003",
           "\u00a0 ", "% \x00", "% " + "c" * 9000, "%\ufeff", "  %% 100% 1 2", "\x0b\x0c % 7", "% 1\x1e2", "%\t1 2"]


def gen_hgr(rng):
    weighted = rng.random() < 0.5
    n = rng.randint(1, 9)
    E = rng.randint(0, 7)
    edges, seen = [], set()
    for _ in range(E):
        e = rng.sample(range(1, n + 1), rng.randint(1, min(4, n)))
        if weighted and frozenset(e) in seen:
            continue
        if not weighted and seen and rng.random() < 0.15:
            e = list(rng.choice(sorted(seen, key=sorted)))
            rng.shuffle(e)
        seen.add(frozenset(e))
        edges.append((rng.randint(1, 9) if rng.random() < 0.85 else rng.choice([2 ** 53 + 1, 2 ** 63 + 1, 10 ** 20, 2 ** 31, 10]), e))
    mode = rng.choice([1, 11]) if weighted else rng.choice([None, 0, 10])
    nodew = mode in (10, 11) or rng.random() < 0.15
    out = []

    def noise():
        while rng.random() < 0.3:
            out.append(rng.choice(["% comment", "", "   ", "%", "  % indented comment 1 2", "\t"]) if rng.random() < 0.7 else rng.choice(HGR_ODD))
    noise()
    out.append(f"{len(edges)} {n}" + ("" if mode is None else f" {mode}"))
    for w, e in edges:
        noise()
        toks = ([str(w)] if weighted else []) + [str(x) for x in e]
        sep = rng.choice([" ", " ", "  "])
        out.append(rng.choice(["", " "]) + sep.join(toks) + rng.choice(["", " ", "  "]))
    if nodew:
        for _ in range(rng.randint(0, n)):
            noise()
            out.append(str(rng.randint(1, 5)))
    noise()
    nl = "\r\n" if rng.random() < 0.08 else "\n"          # (a file written on Windows; universal newlines)
    return {"text": nl.join(out) + (nl if rng.random() < 0.8 else ""), "weighted": weighted,
            "edges": [(w, e) for w, e in edges], "n": n}


def hgr_tokenise(text):
    """the trusted tokeniser: what load.py's strip / split(" ") / int see, line by line"""
    lines = []
    for line in text.split("\n")[:-1] if text.endswith("\n") else text.split("\n"):
        s = line.strip()
        if len(s) == 0 or s[0] == "%":
            lines.append("skip")
        else:
            lines.append(",".join(t for t in s.split(" ") if t != ""))
    return lines


def check_hgr(ctx, drv, case, tmp):
    from hypergraphx.readwrite import load_hypergraph
    path = os.path.join(tmp, "f.hgr")
    with open(path, "w", encoding="utf-8", newline="") as f:
        f.write(case["text"])
    r = guarded(load_hypergraph, path, secs=60 if "sized" in case else 10)
    nontriv = len(case["edges"]) >= 2 and any(ln.strip() == "" or ln.strip().startswith("%") for ln in case["text"].split("\n")[:-1])
    ctx.case(("hgr", case["text"]), nontriv, sample=case)
    ctx.count("hgr_weighted" if case["weighted"] else "hgr_unweighted")
    if r[0] != "ok":
        ctx.violation(case, f"load_hypergraph(.hgr) raised on a valid file: {r[1]}")
        return
    g = r[1]
    r = guarded(digest, g, "H")
    if r[0] != "ok" or type(g).__name__ != "Hypergraph":
        ctx.violation(case, f"the .hgr reader did not return a usable Hypergraph: {r[1] if r[0] != 'ok' else type(g).__name__}")
        return
    d = r[1]
    # oracle: exactly the listed node sets, with the listed weights when weighted
    want = {}
    for w, e in case["edges"]:
        want[tuple(sorted(e))] = w if case["weighted"] else 1
    got = {k: w for k, w, _ in d["edges"]}
    if d["weighted"] != case["weighted"]:
        ctx.violation(case, f".hgr: is_weighted() = {d['weighted']}, file mode says {case['weighted']}")
    if sorted(got) != sorted(want) or len(got) != len(d["edges"]):
        miss = sorted(set(want) - set(got))[:3]
        extra = sorted(set(got) - set(want))[:3]
        ctx.violation(case, f".hgr: {len(d['edges'])} hyperedges built, {len(want)} node sets listed; listed but not built: {miss}, "
                            f"built but not listed: {extra}; all built {sorted(got)}"[:700])
    elif any(not same_weight(got[k], want[k]) for k in want):
        bad = [k for k in want if not same_weight(got[k], want[k])][:3]
        ctx.violation(case, f".hgr: weights differ from the listed ones: " + "; ".join(f"{k}: {got[k]!r} != {want[k]!r}" for k in bad))
    if sorted(n for n, _ in d["nodes"]) != sorted({x for _, e in case["edges"] for x in e}):
        ctx.violation(case, ".hgr: node set is not the union of the listed hyperedges")
    ntok = sum(len(e) + 1 for _, e in case["edges"])
    if drv is not None and (len(case["edges"]) > ctx.scale(1100, 4200) or ntok > ctx.scale(5000, 20000)):
        ctx.count("hgr_beyond_model_size")        # (parseHgr on lists is quadratic: big files go through the oracles only)
    elif drv is not None:
        toks = hgr_tokenise(case["text"])
        ans = drv.batch(["hgr " + (" ".join(toks) if toks else "")])[0]
        lab = sorted({x for _, e in case["edges"] for x in e})
        enc = Enc(lab, [])
        enc.rank = {repr(x): x for x in lab}        # .hgr labels are the integers themselves
        mine = digest_lines(enc, d, "H")
        if ans == "rej" or parse_driver_digest(ans) != mine:
            ctx.disagree(case, f"model parseHgr gives {ans!r}, implementation {mine!r}")
        elif len(case["text"]) <= 12000:
            # extension round: the model's own strip / split(" ") / int on the CHARACTERS of the file (HgrText.parseHgrText)
            ans = drv.batch(["hgr_text " + cps(case["text"])])[0]
            ctx.count("hgr_files_lexed_by_the_model")
            if ans == "rej" or parse_driver_digest(ans) != mine:
                ctx.disagree(case, f"model parseHgrText (from the characters of the file) gives {ans[:300]!r}, implementation {mine!r}")


# ------------------------------------------------------------------------------------------
# HIF

def gen_hif(rng):
    nn = rng.randint(1, 7)
    ne = rng.randint(1, 6)
    style = rng.choice(["str", "int", "uid", "numstr", "odd", "oddstr", "oddstr"])
    if style == "str":
        npool, epool = ["n%d" % i for i in range(12)], ["e%d" % i for i in range(12)]
    elif style == "int":
        npool, epool = list(range(10, 40)), list(range(100, 140))
    elif style == "uid":            # names that look like the reader's own 0.. numbering, in another order
        npool, epool = list(range(nn)), list(range(ne))
    elif style == "numstr":
        npool, epool = [str(i) for i in range(nn + 1)], [str(i) for i in range(ne + 1)]
    elif style == "oddstr":         # STRING CONTENT of the names (and, below, of attribute keys / values)
        npool, epool = ODD_STRS + ["n0", "n1"], ODD_STRS + ["e0", "e1"]
    else:
        npool = ["", " ", "\u00e9", "a\"b", "\U0001f600", "x" * 300, "0", "n\n", "back\\", "None"][:max(nn, 7)] + ["p%d" % i for i in range(3)]
        epool = [2 ** 53 + 1, 2 ** 64, -1, 0, 1, 10 ** 20, -(2 ** 63) - 1, 7, 8, 9]
    nnames = rng.sample(npool, nn)
    enames = rng.sample(epool, ne)
    inc = []
    sets = []
    for e in enames:
        r = rng.random()
        if r < 0.2:
            continue                                              # edge without incidences
        if r < 0.45 and sets:
            s = list(rng.choice(sets))                            # shared incidence set
        else:
            s = rng.sample(nnames, rng.randint(1, min(4, nn)))
        sets.append(tuple(s))
        for x in s:
            inc.append({"edge": e, "node": x, **({"weight": rng.choice([1, 2.5, "x", 1.0, 2 ** 53 + 1, 0.1, 0])} if rng.random() < 0.6 else {}),
                        **({"attrs": {"role": rng.choice(["a", "b"])}} if rng.random() < 0.3 else {})})
    rng.shuffle(inc)
    node_recs = [{"node": x, **({"weight": rng.choice([1, 2, 3, 4, 5, 1.0, 10 ** 30 + 7, 1 / 3])} if rng.random() < 0.5 else {}),
                  **({"attrs": {"name": (str(x)[:20] + "~") * 2, **({rng.choice(UKEYS[8:]): copy.deepcopy(rng.choice(VALS))}
                                                           if rng.random() < 0.3 else {})}} if rng.random() < 0.5 else {})}
                 for x in nnames if rng.random() < 0.85]
    edge_recs = [{"edge": e, **({"attrs": {"kind": rng.choice(["p", "q"])}} if rng.random() < 0.6 else {})}
                 for e in enames if rng.random() < 0.8]
    rng.shuffle(node_recs)
    rng.shuffle(edge_recs)
    doc = {"incidences": inc, "nodes": node_recs, "edges": edge_recs}
    if style == "oddstr":
        for rec in node_recs + edge_recs + inc:
            if rng.random() < 0.4:
                rec.setdefault("attrs", {})[rng.choice(ODD_KEYS)] = odd_val(rng)
    r = rng.random()
    if r < 0.4:
        doc["network-type"] = "undirected"
    if r < 0.7:
        doc["type"] = rng.choice(["undirected", "asc"])
    if rng.random() < 0.5:
        doc["metadata"] = {"name": "doc", "v": [1, 2], **({rng.choice(UKEYS[8:]): copy.deepcopy(rng.choice(VALS))} if rng.random() < 0.5 else {}),
                           **({rng.choice(ODD_KEYS): odd_val(rng)} if style == "oddstr" else {})}
    # the document's own text: \uXXXX escapes only (ASCII file), or the characters themselves (UTF-8 file) where they have an encoding
    return {"doc": doc, "raw": rng.random() < 0.4}


def check_hif(ctx, drv, case, tmp):
    from hypergraphx.readwrite.hif import read_hif
    import io
    import contextlib
    doc = case["doc"]
    path = os.path.join(tmp, "d.hif.json")
    r = guarded(json.dumps, doc, ensure_ascii=not case.get("raw"))
    if r[0] != "ok":
        raise RuntimeError("document is not JSON: " + r[1])
    try:
        data = r[1].encode("utf-8")
    except UnicodeEncodeError:               # a lone surrogate has no UTF-8 form: escapes
        data = json.dumps(doc).encode("ascii")
    with open(path, "wb") as f:
        f.write(data)

    def run():
        with contextlib.redirect_stdout(io.StringIO()):
            return read_hif(path)
    r = guarded(run, secs=60 if "sized" in case else 10)
    inc_of = {}
    for i in doc["incidences"]:
        inc_of.setdefault(repr(i["edge"]), []).append(i["node"])
    sets = {}
    for e, ns in inc_of.items():
        sets.setdefault(frozenset(map(repr, ns)), []).append(e)
    shared = any(len(v) > 1 for v in sets.values())
    empties = [e for e in doc["edges"] if repr(e["edge"]) not in inc_of]
    ctx.case(("hif", json.dumps(doc, sort_keys=True)), shared or bool(empties), sample=case)
    ctx.count("hif_docs")
    if r[0] != "ok":
        ctx.violation(case, f"read_hif raised on a valid document: {r[1]}")
        return
    H = r[1]

    def obs():
        nodes = H.get_nodes(metadata=True)
        edges = {tuple(e): H.get_edge_metadata(e) for e in H.get_edges()}
        incs = H.get_all_incidences_metadata()
        return nodes, edges, incs, dict(H._empty_edges), H.get_hypergraph_metadata(), H.is_weighted()
    r = guarded(obs)
    if r[0] != "ok":
        ctx.violation(case, f"queries on the HIF result fail: {r[1]}")
        return
    nodes, edges, incs, empt, hm, wtd = r[1]
    # node uid <-> name through the node records / incidence records themselves
    name_of = {}
    for u, m in nodes.items():
        if isinstance(m, dict) and "node" in m:
            name_of[u] = m["node"]
    for (k, u), m in incs.items():
        if isinstance(m, dict) and "node" in m:
            if u in name_of and repr(name_of[u]) != repr(m["node"]):
                ctx.violation(case, f"HIF: node id {u} carries records of two different nodes")
            name_of[u] = m["node"]
    all_names = {repr(x["node"]) for x in doc["nodes"]} | {repr(i["node"]) for i in doc["incidences"]}
    if len(name_of) != len(nodes) or {repr(v) for v in name_of.values()} != all_names or len({repr(v) for v in name_of.values()}) != len(name_of):
        ctx.violation(case, f"HIF: nodes of the result {name_of} (of {len(nodes)}) do not correspond one-to-one to the named nodes {sorted(all_names)}")
        return
    uid = {repr(v): u for u, v in name_of.items()}
    # one hyperedge per distinct incidence set
    want_keys = {tuple(sorted(uid[x] for x in s)): es for s, es in sets.items()}
    if sorted(edges) != sorted(want_keys):
        ctx.violation(case, f"HIF: hyperedges {sorted(edges)} != one per distinct incidence set {sorted(want_keys)}"[:900])
        return
    from collections import Counter
    set_of = {e: frozenset(map(repr, ns)) for e, ns in inc_of.items()}
    key_of = {e: tuple(sorted(uid[x] for x in st)) for e, st in set_of.items()}
    # node records attached to their node
    node_cnt = Counter(repr(x["node"]) for x in doc["nodes"])
    for rec in doc["nodes"]:
        if node_cnt[repr(rec["node"])] == 1 and not jeq(nodes[uid[repr(rec["node"])]], rec):
            ctx.violation(case, f"HIF: node record {rec} is not the metadata of its node: {nodes[uid[repr(rec['node'])]]}"[:900])
            break
    for u, m in nodes.items():
        if repr(name_of[u]) not in node_cnt and m != {}:
            ctx.violation(case, f"HIF: node {name_of[u]} without a node record has metadata {m}"[:900])
            break
    # edge records attached to the key of their incidence set (unambiguous when no other record shares the set)
    recs_per_set = Counter(set_of[repr(x["edge"])] for x in doc["edges"] if repr(x["edge"]) in inc_of)
    for rec in doc["edges"]:
        e = repr(rec["edge"])
        if e in inc_of:
            k = key_of[e]
            if recs_per_set[set_of[e]] == 1 and not jeq(edges[k], rec):
                ctx.violation(case, f"HIF: edge record {rec} is not the metadata of its hyperedge {k}: {edges[k]}"[:900])
                break
        else:
            try:
                ok = rec["edge"] in empt and jeq(empt[rec["edge"]], rec)
            except Exception:  # noqa: BLE001
                ok = False
            if not ok:
                ctx.violation(case, f"HIF: edge {rec['edge']} has no incidences but is not in the empty-edge table {empt}"[:900])
                break
    if len(empt) != len({repr(e["edge"]) for e in empties}):
        ctx.violation(case, f"HIF: empty-edge table {empt} != edges without incidences"[:900])
    recd_edges = {repr(x["edge"]) for x in doc["edges"]}
    for k, es in want_keys.items():
        if not any(e in recd_edges for e in es) and edges[k] != {}:
            ctx.violation(case, f"HIF: hyperedge {k} without an edge record has metadata {edges[k]}"[:900])
            break
    # incidence records attached to (key, node)
    riv = Counter((set_of[repr(i["edge"])], repr(i["node"])) for i in doc["incidences"])
    for i in doc["incidences"]:
        k = key_of[repr(i["edge"])]
        got = incs.get((k, uid[repr(i["node"])]))
        if riv[(set_of[repr(i["edge"])], repr(i["node"]))] == 1 and not jeq(got, i):
            ctx.violation(case, f"HIF: incidence record {i} is not attached to ({k}, {uid[repr(i['node'])]}): {got}"[:900])
            break
    if len(incs) != len({(key_of[repr(i['edge'])], uid[repr(i['node'])]) for i in doc["incidences"]}):
        ctx.violation(case, "HIF: incidence table has entries no incidence record names")
    if "metadata" in doc and not jeq(hm, doc["metadata"]):
        ctx.violation(case, f"HIF: hypergraph metadata {hm} != document metadata")
    big_edge = max([len(v) for v in inc_of.values()] + [0])
    if drv is not None and (big_edge > 300 or len(doc["incidences"]) > ctx.scale(3000, 12000)
                            or len(doc["nodes"]) + len(doc["edges"]) > ctx.scale(4200, 12000)):
        ctx.count("hif_beyond_model_size")        # (readHif on lists is cubic in the size of an incidence set)
    elif drv is not None:
        # names -> tokens in order of first appearance anywhere; records -> their index (1-based per list)
        ntok, etok = {}, {}
        for i in doc["incidences"]:
            etok.setdefault(repr(i["edge"]), len(etok))
            ntok.setdefault(repr(i["node"]), len(ntok))
        for x in doc["nodes"]:
            ntok.setdefault(repr(x["node"]), len(ntok))
        for x in doc["edges"]:
            etok.setdefault(repr(x["edge"]), len(etok))
        # shuffle the tokens so that the model cannot rely on tokens being first-appearance ranks
        perm_n = list(range(len(ntok)))
        perm_e = list(range(len(etok)))
        ctx.rng.shuffle(perm_n)
        ctx.rng.shuffle(perm_e)
        nt = {k: perm_n[v] + 50 for k, v in ntok.items()}
        et = {k: perm_e[v] + 70 for k, v in etok.items()}
        line = "hif " + (";".join(f"{et[repr(i['edge'])]},{nt[repr(i['node'])]}" for i in doc["incidences"]) or "-") + " " + \
               (",".join(str(nt[repr(x["node"])]) for x in doc["nodes"]) or "-") + " " + \
               (",".join(str(et[repr(x["edge"])]) for x in doc["edges"]) or "-")
        ans = drv.batch([line])[0]
        # implementation in the same format: nodes uid:recIndex(0 = {}), keys key:recIndex, incidences key/uid:recIndex, empties name:recIndex
        tables = {}

        def idx(lst, m):
            """1-based position of the record m in its list (0 = the empty dict of a record-less item); records with
            equal content: the last one (what the reader keeps)"""
            pos = tables.get(id(lst))
            if pos is None:
                pos = tables[id(lst)] = {}
                for j, x in enumerate(lst):
                    pos.setdefault(norm(x), []).append(j + 1)
            js = pos.get(norm(m))
            if js and len(js) == 1:
                return js[0]
            if m == {}:
                return 0
            return js[-1] if js else 999
        a = ",".join(f"{u}:{idx(doc['nodes'], m)}" for u, m in nodes.items()) or "-"
        b = ",".join(f"{'.'.join(map(str, k))}:{idx(doc['edges'], m)}" for k, m in edges.items()) or "-"
        c = ",".join(f"{'.'.join(map(str, k))}/{u}:{idx(doc['incidences'], m)}" for (k, u), m in incs.items()) or "-"
        e = ",".join(f"{et.get(repr(nm), 999)}:{idx(doc['edges'], m)}" for nm, m in empt.items()) or "-"
        mine = f"{a} {b} {c} {e}"
        if ans != mine:
            ctx.disagree(case, f"model readHif gives {ans!r}, implementation {mine!r}")


# ------------------------------------------------------------------------------------------

def gen_hgr_sized(rng, dim, size):
    """a .hgr file in which one size is exactly `size`: edges (hyperedge lines), edge_size (nodes on one line: a line far
    beyond the 8 KiB read buffer), comments (comment / blank lines in a row), nodeweights (node-weight lines after the
    hyperedges), line_len (characters of one comment line)"""
    weighted = rng.random() < 0.5
    E, n = rng.randint(3, 8), rng.randint(4, 9)
    if dim == "edges":
        E, n = size, rng.randint(30, 300)
    elif dim == "edge_size":
        n = size + rng.randint(0, 3)
    elif dim == "nodeweights":
        n = size
    edges, seen = [], set()
    tries = 0
    while len(edges) < E and tries < 30 * E:
        tries += 1
        if dim == "edge_size" and not edges:
            e = rng.sample(range(1, n + 1), size)
        else:
            e = rng.sample(range(1, n + 1), rng.randint(1, min(4, n)))
        if frozenset(e) in seen and (weighted or rng.random() < 0.9):
            continue
        seen.add(frozenset(e))
        edges.append((rng.choice([1, 2, 7, 255, 256, 257, 65536, 2 ** 31, 2 ** 53 + 1, 10 ** 20]), e))
    mode = rng.choice([1, 11]) if weighted else rng.choice([None, 0, 10])
    out = ["% sized " + dim]
    if dim == "line_len":
        out.append("%" + "c" * (size - 1))
    if dim == "comments":
        out += [rng.choice(["% c", "", "  ", "%", "\t"]) for _ in range(size - 1)]
    out.append(f"{len(edges)} {n}" + ("" if mode is None else f" {mode}"))
    for j, (w, e) in enumerate(edges):
        if dim == "comments" and j == 1:
            out += [rng.choice(["% c", "", " "]) for _ in range(size)]
        if rng.random() < 0.02:
            out.append(rng.choice(["% comment", "", "   "]))
        toks = ([str(w)] if weighted else []) + [str(x) for x in e]
        out.append(rng.choice(["", " "]) + rng.choice([" ", " ", "  "]).join(toks) + rng.choice(["", " "]))
    if mode in (10, 11) or dim == "nodeweights":
        for _ in range(n if dim == "nodeweights" else rng.randint(0, min(n, 9))):
            out.append(str(rng.randint(1, 5)))
    return {"text": "\n".join(out) + ("\n" if rng.random() < 0.8 else ""), "weighted": weighted,
            "edges": [(w, e) for w, e in edges], "n": n, "sized": [dim, size]}


def hgr_plan(rng, tier):
    dims = ["edges", "edge_size", "comments", "nodeweights", "line_len"]
    plan = []
    if tier == "thorough":
        for dim in dims:
            for s in PW2_QUICK + PW2_MORE + (PW2_HUGE if dim != "edge_size" else []):
                plan.append(gen_hgr_sized(rng, dim, s))
        plan.append(gen_hgr_sized(rng, "edges", rng.randint(70000, 90000)))
    else:
        for dim in dims:
            plan.append(gen_hgr_sized(rng, dim, rng.choice(PW2_QUICK[:3])))
            plan.append(gen_hgr_sized(rng, dim, rng.choice(PW2_QUICK[3:] + [8191, 8192, 8193])))
        plan.append(gen_hgr_sized(rng, "edges", rng.randint(5001, 12000)))
    return plan


def gen_hif_sized(rng, dim, size):
    """a HIF document in which one size is exactly `size`: nodes (node records), edges (edge records with incidences),
    incidences (incidences of one edge), shared (edges sharing one incidence set), empties (edges without incidences),
    name_len (characters of the node / edge names)"""
    nn, ne = rng.randint(3, 8), rng.randint(2, 6)
    if dim == "nodes":
        nn = size
    elif dim == "edges":
        ne, nn = size, rng.randint(20, 60)
    elif dim == "incidences":
        nn = size + rng.randint(0, 3)
    style = rng.choice(["str", "int", "uid"])
    if dim == "name_len":
        nnames = ["n" * (size - 1) + c for c in "abcdefgh"[:nn]]
        enames = ["e" * (size - 1) + c for c in "abcdef"[:ne]]
    elif style == "str":
        nnames, enames = ["n%d" % i for i in rng.sample(range(3 * nn), nn)], ["e%d" % i for i in rng.sample(range(3 * ne + 9), ne)]
    elif style == "int":
        nnames, enames = rng.sample(range(10, 10 + 4 * nn), nn), rng.sample(range(10 ** 6, 10 ** 6 + 4 * ne + 9), ne)
    else:
        nnames, enames = rng.sample(range(nn), nn), rng.sample(range(ne), ne)
    inc, sets, seen = [], [], set()
    if dim == "empties":
        extra = ["z%d" % i for i in range(size)] if style == "str" or dim == "name_len" else list(range(10 ** 7, 10 ** 7 + size))
    else:
        extra = []
    for j, e in enumerate(enames):
        if dim == "incidences" and j == 0:
            st = rng.sample(nnames, size)
        elif dim == "shared" and sets:
            st = list(sets[0])
        else:
            st = rng.sample(nnames, rng.randint(1, min(4, nn)))
            if dim not in ("shared",) and rng.random() < 0.1:
                continue
        sets.append(tuple(st))
        for x in st:
            inc.append({"edge": e, "node": x, **({"weight": rng.choice([1, 2.5, 0])} if rng.random() < 0.4 else {})})
    if dim == "shared":
        base = list(sets[0]) if sets else nnames[:2]
        more = ["s%d" % i for i in range(size - 1)] if style == "str" or dim == "name_len" else list(range(2 * 10 ** 7, 2 * 10 ** 7 + size - 1))
        for e in more:
            for x in base:
                inc.append({"edge": e, "node": x})
        enames = enames + more
    rng.shuffle(inc)
    node_recs = [{"node": x, **({"attrs": {"name": str(x)[:12]}} if rng.random() < 0.5 else {})} for x in nnames if rng.random() < 0.9]
    edge_recs = [{"edge": e, **({"attrs": {"kind": rng.choice(["p", "q"])}} if rng.random() < 0.5 else {})}
                 for e in enames + extra if e in extra or rng.random() < 0.8]
    rng.shuffle(node_recs)
    rng.shuffle(edge_recs)
    doc = {"incidences": inc, "nodes": node_recs, "edges": edge_recs}
    if rng.random() < 0.5:
        doc["network-type"] = "undirected"
    if rng.random() < 0.5:
        doc["metadata"] = {"name": "sized " + dim, "v": [size]}
    return {"doc": doc, "sized": [dim, size]}


def hif_plan(rng, tier):
    dims = ["nodes", "edges", "incidences", "shared", "empties", "name_len"]
    plan = []
    if tier == "thorough":
        for dim in dims:
            for s in PW2_QUICK + PW2_MORE + (PW2_HUGE if dim in ("nodes", "name_len") else []):
                if dim != "incidences" or s <= 4097:
                    plan.append(gen_hif_sized(rng, dim, s))
    else:
        for dim in dims:
            plan.append(gen_hif_sized(rng, dim, rng.choice(PW2_QUICK[:3])))
            plan.append(gen_hif_sized(rng, dim, rng.choice(PW2_QUICK[3:])))
    return plan


# ------------------------------------------------------------------------------------------
# the string-literal layer of the text format: lean/Hgxv/Model/C06Str.lean (encode / decode on code points)

def cps(s):
    return ",".join(str(ord(c)) for c in s) or "-"


def small_batches(drv, lines, limit=20000):
    """drv.batch writes a chunk of lines before it reads the answers: long lines go in batches of bounded total size"""
    out, cur, n = [], [], 0
    for ln in lines:
        if cur and n + len(ln) > limit:
            out += drv.batch(cur)
            cur, n = [], 0
        cur.append(ln)
        n += len(ln)
    if cur:
        out += drv.batch(cur)
    return out


def units_of(ans):
    return [] if ans == "-" else [int(x) for x in ans.split(",")]


CP_POOL = [0, 8, 9, 10, 12, 13, 31, 32, 34, 47, 92, 117, 126, 127, 128, 0xFF, 0x100, 0x7FF, 0x800, 0x2028, 0xD7FF, 0xD800, 0xDBFF,
           0xDC00, 0xDFFF, 0xD83D, 0xDE00, 0xE000, 0xFEFF, 0xFFFF, 0x10000, 0x1F600, 0x10FFFF, 65, 97, 48]
LITERALS = ['"\\u00E9\\u00e9"', '"\\/"', '"/"', '"\\ud83d\\ude00"', '"\\uD83D\\uDE00"', '"\\ud83d\\u0041"', '"\\ud83d\\n"', '"\\ud83d"',
            '"\\ude00\\ud83d"', '"\\ud83d\\ud83d\\ude00"', '"\\b\\f\\n\\r\\t\\"\\\\"', '"a\u00e9\U0001f600\u2028\x7f"', '""', '"',
            '"\\x41"', '"\\u12"', '"\\u12G4"', '"\\ud83d\\u12"', '"a\nb"', '"a\x00b"', '"a\tb"', '"a"x', '"a""', "'a'", 'a"', '"\\"',
            '"\\u"', '"\\ud83d\\ude0"', '"\\a"', '"\\U0001f600"', '"\\ud83d\\"', '"\\ud83d\\ude00\\ude00"']


def check_strings(ctx, drv, rng):
    """model encode / decode against json.dumps / json.loads: the whole pool, random strings over the boundary code
    points (also a high surrogate followed by a low one: both sides must MERGE them), hand-written literals (upper-case
    hex, `\\/`, pairs, malformed ones: both sides must reject)"""
    strs = list(ODD_STRS) + [x for x in ODD_LONG if len(x) <= ctx.scale(9000, 10 ** 6)]
    for _ in range(ctx.scale(300, 3000)):
        strs.append("".join(chr(rng.choice(CP_POOL)) for _ in range(rng.randint(0, 7))))
    for _ in range(ctx.scale(50, 1000)):
        strs.append("".join(chr(rng.randrange(0x110000)) for _ in range(rng.randint(1, 5))))
    ans = small_batches(drv, ["str_enc " + cps(x) for x in strs])
    for x, a in zip(strs, ans):
        ctx.count("string_literals_checked")
        want = [ord(c) for c in json.dumps(x)]
        back = [ord(c) for c in json.loads(json.dumps(x))]
        parts = a.split(";")
        if len(parts) != 2 or units_of(parts[0]) != want:
            ctx.disagree({"string": x}, f"json.dumps({x[:60]!r}) = {json.dumps(x)[:200]}, model Str.encode = {a[:300]}")
            break
        if parts[1] == "rej" or units_of(parts[1]) != back:
            ctx.disagree({"string": x}, f"json.loads(json.dumps({x[:60]!r})) = {json.loads(json.dumps(x))[:60]!r}, model Str.decode (Str.encode s) = {parts[1][:300]}")
            break
    ans = drv.batch(["str_dec " + cps(x) for x in LITERALS])
    for x, a in zip(LITERALS, ans):
        ctx.count("string_literals_checked")
        try:
            v = json.loads(x)
            mine = cps(v) if isinstance(v, str) else "rej"
        except ValueError:
            mine = "rej"
        if a != mine:
            ctx.disagree({"literal": x}, f"json.loads of the text {x!r} gives {mine}, model Str.decode {a}")
            break


def check_file_strings(ctx, drv, vc, raw, d0):
    """the bytes of a saved text file against the model's string literals: printable ASCII (+ the line feeds of the
    framing) only (theorem C06_str_ascii), and every string node label stands in its node record as Str.encode writes it"""
    bad = [b for b in set(raw) if not (32 <= b <= 126 or b == 10)]
    if bad:
        ctx.disagree(vc, f"the saved text file holds the bytes {sorted(bad)[:8]} - the model's writer (json.dump with "
                         f"ensure_ascii) emits printable ASCII only (theorem C06_str_ascii)")
        return
    labels = [n for n, _ in d0["nodes"] if isinstance(n, str)]
    ans = small_batches(drv, ["str_enc " + cps(x) for x in labels])
    for x, a in zip(labels, ans):
        lit = bytes(units_of(a.split(";")[0]))
        if b'"idx":' + lit + b',"metadata"' not in raw:
            ctx.disagree(vc, f"the node record of the label {x[:60]!r} does not hold the literal the model's Str.encode writes: "
                             f"{lit[:200]!r}")
            return
    ctx.count("files_with_string_literals_compared")


# ------------------------------------------------------------------------------------------
# extension round: the CHARACTER level of the .json format (lean/Hgxv/Model/C06Json.lean): numbers, whole JSON values as
# json.dump(..., separators=(",", ":")) writes them, the file as one record per line, the file read line by line

_LINES = {"n": 0}
INT_LITERALS = ["0", "-0", "00", "01", "-", "", "+1", "1a", "--1", "-01", "10", "1e5", "1.0", "1.", "0x10", "1_000", "-1", "9" * 40,
                "-" + "9" * 40, "0" * 3, "1-", "-a", "12345678901234567890", "1,2", "1\n", "\n1", "NaN", "-Infinity", "٣", "１"]


def jcode(v, out):
    """a JSON value in the prefix form of the driver's `js_emit`"""
    if v is None:
        out.append(0)
    elif v is True or v is False:
        out.append(2 if v else 1)
    elif type(v) is int:
        ds = str(abs(v))
        out += [3, 1 if v < 0 else 0, len(ds)] + [int(c) for c in ds]
    elif type(v) is float:
        # the float layer is a PARAMETER of the model (repr): the text float.__repr__ / json's constants give
        t = float.__repr__(v) if v == v and v not in (float("inf"), float("-inf")) else ("NaN" if v != v else ("Infinity" if v > 0 else "-Infinity"))
        out += [4, len(t)] + [ord(c) for c in t]
    elif type(v) is str:
        out += [5, len(v)] + [ord(c) for c in v]
    elif type(v) is list:
        out += [6, len(v)]
        for x in v:
            jcode(x, out)
    elif type(v) is dict and all(type(k) is str for k in v):
        out += [7, len(v)]
        for k, x in v.items():
            out += [len(k)] + [ord(c) for c in k]
            jcode(x, out)
    else:
        raise TypeError("no JSON value of the model: " + type(v).__name__)
    return out


def rand_json(rng, depth):
    k = rng.randrange(9 if depth > 0 else 6)
    if k == 0:
        return rng.choice([None, True, False])
    if k == 1:
        return rng.choice([0, 1, -1, 9, 10, -10, 2 ** 31, -2 ** 63, 2 ** 64, 10 ** 30, -(10 ** 30) + 1, rng.randrange(-10 ** 40, 10 ** 40)])
    if k == 2:
        return rng.choice([0.0, -0.0, 0.25, 1.0, -2.5, 0.1, 1 / 3, 1e300, 5e-324, 2.0 ** 53, 1e16, 1e-7, 123456789.125])
    if k in (3, 4, 5):
        return "".join(chr(rng.choice(CP_POOL)) for _ in range(rng.randint(0, 6)))
    if k in (6, 7):
        return [rand_json(rng, depth - 1) for _ in range(rng.randint(0, 4))]
    return {"".join(chr(rng.choice(CP_POOL)) for _ in range(rng.randint(0, 4))): rand_json(rng, depth - 1) for _ in range(rng.randint(0, 4))}


def check_json_chars(ctx, drv, rng):
    """model Num.encInt / Num.decInt / J.emit / readFile / render against json.dumps / json.loads"""
    ints = [0, 1, -1, 9, 10, 11, 99, 100, 101, -9, -10, 2 ** 31, -2 ** 31, 2 ** 53 + 1, -2 ** 53 - 1, 2 ** 63, -2 ** 63, 2 ** 64, -2 ** 64 - 1]
    ints += [s * (10 ** k + d) for k in range(1, 31) for d in (-1, 0, 1) for s in (1, -1)]
    ints += [rng.randrange(-10 ** rng.randint(1, 400), 10 ** rng.randint(1, 400)) for _ in range(ctx.scale(60, 1500))]
    ans = small_batches(drv, ["num %d" % i for i in ints])
    for i, a in zip(ints, ans):
        ctx.count("json_numbers_checked")
        want = cps(json.dumps(i)) + ";" + str(json.loads(json.dumps(i)))
        if a != want:
            ctx.disagree({"int": str(i)}, f"json.dumps({i}) / json.loads of it = {want[:300]}, model Num.encInt;decInt = {a[:300]}")
            break
    ans = drv.batch(["num_dec " + cps(x) for x in INT_LITERALS])
    for x, a in zip(INT_LITERALS, ans):
        ctx.count("json_numbers_checked")
        try:
            v = json.loads(x) if x == x.strip() else None
            mine = str(v) if type(v) is int else "rej"
        except ValueError:
            mine = "rej"
        if a != mine:
            ctx.disagree({"literal": x}, f"json.loads of the number text {x!r} gives {mine}, model Num.decInt {a}")
            break
    vals = [rand_json(rng, 4) for _ in range(ctx.scale(150, 4000))]
    vals += [[], {}, [[]], {"": {}}, {"a": [1, [2, [3, {"b": None}]]]}, [True, False, None, -0.0, ""]]
    ans = small_batches(drv, ["js_emit " + ",".join(map(str, jcode(v, []))) for v in vals])
    for v, a in zip(vals, ans):
        ctx.count("json_values_checked")
        want = cps(json.dumps(v, separators=(",", ":")))
        if a != want:
            ctx.disagree({"value": plain(repr(v))[:300]}, f"json.dumps(v, separators=(',', ':')) = {want[:300]}, model J.emit = {a[:300]}")
            break
    # the file text for record texts of our own (any number of records, also none; a record text with a raw LF must be rejected)
    for _ in range(ctx.scale(25, 400)):
        n = rng.choice([0, 1, 1, 2, 3, 5, rng.randint(0, 40)])
        recs = [json.dumps(rand_json(rng, 2), separators=(",", ":")) for _ in range(n)]
        if rng.random() < 0.15 and recs:
            recs[rng.randrange(len(recs))] = '"a\nb"'
        text = "[\n" + ",\n".join(recs) + "\n]"
        a, b = drv.batch(["txt_write " + (";".join(cps(r) if r else "_" for r in recs) if recs else "-"), "txt_read " + cps(text)])
        ctx.count("json_file_texts_checked")
        if n == 0:
            text = "[\n\n]"   # `[` LF, no item, LF `]`
        ok = all("\n" not in r for r in recs)
        want_b = (";".join(cps(r) for r in recs) if ok else "rej") if n > 0 else "-"
        if a != cps(text) or b != want_b:
            ctx.disagree({"records": [plain(r)[:80] for r in recs][:6]}, f"file text of {n} record texts: model render(writeText) = {a[:200]} "
                         f"(expected {cps(text)[:200]}), model readFile = {b[:200]} (expected {want_b[:200]})")
            break


def check_file_lines(ctx, drv, vc, raw, data):
    """a real saved file against the model's character level: `readFile` finds, line by line, exactly the records json.load
    finds (their texts), `render (writeText ·)` of those texts is the file byte for byte, and `J.emit` writes each record"""
    texts = [json.dumps(item, separators=(",", ":")) for item in data]
    lines = ["txt_read " + cps(raw.decode("latin-1")), "txt_write " + (";".join(cps(t) for t in texts) if texts else "-")]
    try:
        lines += ["js_emit " + ",".join(map(str, jcode(item, []))) for item in data]
    except TypeError:
        return
    ans = small_batches(drv, lines)
    _LINES["n"] += 1
    ctx.count("files_read_line_by_line_by_the_model")
    want = ";".join(cps(t) for t in texts) if texts else "rej"
    if ans[0] != want:
        ctx.disagree(vc, f"the saved file read line by line (model readFile) gives {ans[0][:300]}; json.load finds the records {want[:300]}")
        return
    if ans[1] != cps(raw.decode("latin-1")):
        ctx.disagree(vc, f"the characters the model writes for the file's records differ from the file: model {ans[1][:300]}, file {cps(raw.decode('latin-1'))[:300]}")
        return
    for t, a in zip(texts, ans[2:]):
        if a != cps(t):
            ctx.disagree(vc, f"record {plain(t)[:200]}: model J.emit writes {a[:300]}")
            return


# ------------------------------------------------------------------------------------------
# the same round trips in a process whose locale encoding is NOT UTF-8 (LC_ALL=C, UTF-8 mode off: ASCII), and files
# that cross between the two processes.  The unchanged code writes pure ASCII text / pickles, so nothing depends on
# the locale; a writer or reader that relies on the locale encoding shows here with ANY non-ASCII character.

def child_main():
    """python c06.py --child JOB.pickle OUT.pickle   (runs in the other locale; never prints labels)"""
    import sys
    job_path, out_path = sys.argv[2], sys.argv[3]
    with open(job_path, "rb") as f:
        job = pickle.load(f)
    hgxv.use_repo()
    import locale
    from hypergraphx.readwrite import load_hypergraph, save_hypergraph
    res = {"encoding": locale.getpreferredencoding(False), "cases": []}
    for i, case in enumerate(job["cases"]):
        T = case["T"]
        one = {}
        r = guarded(build, case, secs=60)
        if r[0] != "ok":
            one["build"] = r[1]
            res["cases"].append(one)
            continue
        h = r[1][0]
        r = guarded(digest, h, T)
        one["d0"] = r
        for fmt in ("json", "hgx"):
            path = os.path.join(job["dir"], "child%d.%s" % (i, fmt))
            r = guarded(save_hypergraph, h, path, binary=(fmt == "hgx"), secs=60)
            if r[0] != "ok":
                one[fmt] = ("exc", "save_hypergraph raised " + r[1])
                continue
            r = guarded(load_hypergraph, path, secs=60)
            if r[0] != "ok" or r[1] is None:
                one[fmt] = ("exc", "load_hypergraph raised / returned None: " + str(r[1]))
                continue
            one[fmt] = guarded(digest, r[1], T)
            # a file the OTHER process wrote
            path = os.path.join(job["dir"], "parent%d.%s" % (i, fmt))
            if os.path.exists(path):
                r = guarded(load_hypergraph, path, secs=60)
                one["x" + fmt] = guarded(digest, r[1], T) if r[0] == "ok" and r[1] is not None else \
                    ("exc", "load_hypergraph raised / returned None: " + str(r[1]))
        res["cases"].append(one)
    with open(out_path, "wb") as f:
        pickle.dump(res, f)


def check_locale(ctx, cases, tmp):
    import subprocess
    import sys
    from hypergraphx.readwrite import load_hypergraph, save_hypergraph
    d = os.path.join(tmp, "loc")
    os.makedirs(d, exist_ok=True)
    mine = []
    for i, case in enumerate(cases):
        T = case["T"]
        r = guarded(build, case, secs=60)
        dg = guarded(digest, r[1][0], T) if r[0] == "ok" else r
        if dg[0] == "ok" and wf_digest(dg[1], T):
            for fmt in ("json", "hgx"):
                guarded(save_hypergraph, r[1][0], os.path.join(d, "parent%d.%s" % (i, fmt)), binary=(fmt == "hgx"), secs=60)
        mine.append(dg)
    job, outp = os.path.join(d, "job.pickle"), os.path.join(d, "out.pickle")
    with open(job, "wb") as f:
        pickle.dump({"dir": d, "cases": cases}, f)
    env = {k: v for k, v in os.environ.items() if not k.startswith("LC_") and k not in ("LANG", "LANGUAGE", "PYTHONIOENCODING")}
    env.update({"LC_ALL": "C", "PYTHONUTF8": "0", "PYTHONCOERCECLOCALE": "0", "HGX_REPO": hgxv.REPO,
                "PYTHONPATH": os.path.dirname(os.path.abspath(__file__))})
    budget = 60 if ctx.time_left() is None else max(10, min(60, ctx.time_left() - 5))
    try:
        pr = subprocess.run([sys.executable, "-X", "utf8=0", os.path.abspath(__file__), "--child", job, outp], env=env, timeout=budget,
                            stdout=subprocess.PIPE, stderr=subprocess.PIPE)
        err = pr.stderr.decode("ascii", "replace")[-400:] if pr.returncode else None
    except subprocess.TimeoutExpired:
        err = "timeout"
    vc0 = {"locale": "C", "cases": cases}
    if err == "timeout":
        ctx.count("locale_child_out_of_time")        # (a loaded machine: no verdict; hangs are seen by the in-process stream)
        return
    if err is not None or not os.path.exists(outp):
        ctx.violation(vc0, f"save / load of {len(cases)} objects in a process with LC_ALL=C (locale encoding ASCII) did not finish: {err}")
        return
    with open(outp, "rb") as f:
        res = pickle.load(f)
    if res["encoding"].lower().replace("-", "").replace("_", "") in ("utf8",):
        ctx.count("locale_child_is_utf8_after_all")
    for i, (case, m, one) in enumerate(zip(cases, mine, res["cases"])):
        T = case["T"]
        vc = {"locale": "C", "cases": [case]}
        ctx.case(("locale", json.dumps(hgxv.jsonable(case), sort_keys=True, default=repr)), True, sample=None)
        ctx.count("locale_cases")
        if m[0] != "ok" or not wf_digest(m[1], T):
            continue
        d0 = m[1]
        c0 = one.get("d0")
        if c0 is None or c0[0] != "ok" or not jeq(c0[1], d0):
            ctx.violation(vc, f"the same history builds another {TNAME[T]} in a process with LC_ALL=C: {one.get('build') or (c0[1] if c0[0] != 'ok' else compare_digests(d0, c0[1], 'built')[:1])}"[:700])
            continue
        for fmt in ("json", "hgx"):
            for tag, what in ((fmt, f"LC_ALL=C (locale encoding {res['encoding']}): .{fmt} round trip"),
                              ("x" + fmt, f".{fmt} file saved under UTF-8, loaded under LC_ALL=C")):
                r = one.get(tag)
                if r is None:
                    continue
                if r[0] != "ok":
                    ctx.violation(vc, f"{what}: {r[1]}"[:700])
                    continue
                for x in compare_digests(d0, r[1], what)[:1]:
                    ctx.violation(vc, x)
            path = os.path.join(d, "child%d.%s" % (i, fmt))
            if os.path.exists(path) and one.get(fmt, ("exc",))[0] == "ok":
                r = guarded(load_hypergraph, path, secs=60)
                r = guarded(digest, r[1], T) if r[0] == "ok" and r[1] is not None else ("exc", "load_hypergraph raised / returned None: " + str(r[1]))
                what = f".{fmt} file saved under LC_ALL=C, loaded under UTF-8"
                if r[0] != "ok":
                    ctx.violation(vc, f"{what}: {r[1]}"[:700])
                else:
                    for x in compare_digests(d0, r[1], what)[:1]:
                        ctx.violation(vc, x)
                ctx.count("locale_cross_loads")


def run(ctx):
    plain_reports(ctx)
    drv = ctx.driver() if ctx.model_available and not os.environ.get("C06_NODRV") else None
    tmp = tempfile.mkdtemp(prefix="hgxv_c06_")
    try:
        n_obj = ctx.scale(1100, 20000)
        n_hgr = ctx.scale(500, 12000)
        n_hif = ctx.scale(500, 12000)
        plan = [("obj", n_obj), ("hgr", n_hgr), ("hif", n_hif)]
        sized = [{"recipe": r} for r in recipe_plan(ctx.rng, ctx.tier)]
        n_must = N_MUST["thorough" if ctx.tier == "thorough" else "quick"]      # the big objects every run has
        sized_hgr = hgr_plan(ctx.rng, ctx.tier)
        sized_hif = hif_plan(ctx.rng, ctx.tier)
        # interleave so that every kind is reached under a time limit
        todo = [(k, None) for k, n in plan for _ in range(n)] + [("sized", c) for c in sized[n_must:]] + \
               [("hgr", c) for c in sized_hgr] + [("hif", c) for c in sized_hif]
        ctx.rng.shuffle(todo)
        # the four types first, once each, deterministic start; then the big objects every run has
        for T in TYPES:
            check_object(ctx, drv, gen_case(ctx.rng, T), tmp)
        # STRING CONTENT: the census of every type (one of them with the long strings), a few random objects of odd
        # strings in this process and a dozen in a process whose locale encoding is ASCII
        import time
        t_str = time.time()
        long_one = ctx.rng.randrange(4)
        for i, T in enumerate(TYPES):
            check_object(ctx, drv, {"recipe": {"T": T, "dim": "strings", "size": int(i == long_one), "weighted": ctx.rng.random() < 0.5,
                                               "wreg": ctx.rng.choice(["q", "q", "flt"]), "seed": ctx.rng.getrandbits(32)}}, tmp)
        for T in TYPES:
            check_object(ctx, drv, gen_case(ctx.rng, T, stringy=True), tmp)
        if drv is not None:
            check_strings(ctx, drv, ctx.rng)
            _LINES["n"] = 0
            check_json_chars(ctx, drv, ctx.rng)
        loc = [gen_case(ctx.rng, T, stringy=True) for T in TYPES for _ in range(ctx.scale(2, 10))] + \
              [gen_case(ctx.rng, T, stringy=False) for T in TYPES]
        loc.append(expand({"T": ctx.rng.choice(TYPES), "dim": "strings", "size": 0, "weighted": True, "wreg": "q", "seed": ctx.rng.getrandbits(32)}))
        t_loc = time.time()
        check_locale(ctx, loc, tmp)
        ctx.extra["seconds_locale_child"] = round(time.time() - t_loc, 1)
        ctx.extra["seconds_strings_start"] = round(t_loc - t_str, 1)
        # a first slice of every kind BEFORE the big objects every run has (they take a third of the budget; on a loaded
        # machine nearly all of it): the .hgr / HIF readers and small objects are always reached
        first_slice = []
        for kind in ("hgr", "hif", "obj"):
            idx = [i for i, (k, c) in enumerate(todo) if k == kind and c is None][:ctx.scale(60, 200)]
            first_slice += [todo[i] for i in idx]
            for i in reversed(idx):
                del todo[i]
        # (the must-have objects by size: the record counts around 4096 / 8192 and 5000+ before the four beyond 10000)
        todo = first_slice + [("sized", c) for c in sorted(sized[:n_must], key=lambda c: c["recipe"]["size"])] + todo

        def stop():
            # a broken correspondence alone does not stop the search for a failing input
            return len(ctx.violations) >= 5 or len(ctx.disagreements) >= 60 or (ctx.time_left() is not None and ctx.time_left() < 5)
        import time
        spent = {}
        for kind, c in todo:
            t_case = time.time()
            if kind == "obj":
                check_object(ctx, drv, gen_case(ctx.rng), tmp)
            elif kind == "sized":
                check_object(ctx, drv, c, tmp)
            elif kind == "hgr":
                check_hgr(ctx, drv, c if c is not None else gen_hgr(ctx.rng), tmp)
            else:
                check_hif(ctx, drv, c if c is not None else gen_hif(ctx.rng), tmp)
            nm = "seconds_" + kind + ("_sized" if c is not None and kind != "sized" else "")
            spent[nm] = spent.get(nm, 0.0) + time.time() - t_case
            ctx.extra[nm] = round(spent[nm], 1)
            if stop():
                break
    finally:
        shutil.rmtree(tmp, ignore_errors=True)


def replay(ctx, case):
    plain_reports(ctx)
    drv = ctx.driver() if ctx.model_available and not os.environ.get("C06_NODRV") else None
    tmp = tempfile.mkdtemp(prefix="hgxv_c06_")
    try:
        if case.get("locale"):
            for c in case["cases"]:
                if "ops" in c:
                    c["ops"] = [tuple(op) for op in c["ops"]]
            check_locale(ctx, case["cases"], tmp)
        elif any(k in case for k in ("int", "literal", "value", "records", "string")):
            # model against the json library (no implementation object involved): the deterministic streams again
            if drv is not None:
                check_strings(ctx, drv, ctx.rng)
                check_json_chars(ctx, drv, ctx.rng)
        elif "doc" in case:
            check_hif(ctx, drv, case, tmp)
        elif "text" in case:
            case["edges"] = [(w, list(e)) for w, e in case["edges"]]
            check_hgr(ctx, drv, case, tmp)
        else:
            case = dict(case)
            case.pop("format", None)
            case.pop("stage", None)
            if "ops" in case:
                case["ops"] = [tuple(op) for op in case["ops"]]
            check_object(ctx, drv, case, tmp)
    finally:
        shutil.rmtree(tmp, ignore_errors=True)


if __name__ == "__main__":
    import sys as _sys
    if len(_sys.argv) == 4 and _sys.argv[1] == "--child":
        child_main()
