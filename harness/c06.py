"""C06 - save then load returns the same hypergraph (json / hgx), the hMETIS and HIF readers.

Correspondence of lean/Hgxv/Model/C06*.lean (content-level model of save.py / load.py / hif.py) with
hypergraphx.readwrite.* and independent property oracles on the implementation."""
import copy
import json
import struct
from fractions import Fraction
import os
import shutil
import signal
import tempfile

import hgxv

RULE = ("random objects of the four container classes built by histories of add_node / add_edge / add_edges(weights) / "
        "set_weight / remove_edge / remove_node / metadata replace-set-clear calls (2-9 nodes with integer or string "
        "labels incl. huge / negative integers, numeric-looking, empty, very long, non-ASCII and escaped strings, "
        "isolated nodes, 0-8 hyperedges, node sets repeated across times / layers, times up to 10**20, weighted and "
        "unweighted; weights from one of three streams per object: small multiples of 1/4 with int / equal-valued "
        "float twins, integers beyond 2**53 / 2**63 / 2**64 of both signs, floats that are no multiples of 1/4 "
        "(0.1, 1/3, 1e300, 5e-324, 2.0**53 ...); metadata from a pool of JSON values incl. nested lists/dicts, huge "
        "and fractional numbers (also nested), 1 vs 1.0 vs True, -0.0, 3000-character strings, escapes, keys that "
        "look like numbers / are empty / long / non-ASCII, and the reserved keys weight/time/layer; hypergraph "
        "metadata intact / extended / replaced / cleared), each saved as .json and as .hgx into a temporary "
        "directory, loaded back and compared by full public-API digests and per-node incidence listings; then the "
        "LOADED object and a twin of the original get the same further history (add_edge of new and existing keys, "
        "add_node, then removals / set_weight / metadata edits), are compared again, and the mutated loaded object "
        "is saved and loaded once more (same or other format); generated .hgr files (comments, blank lines, "
        "multiple blanks, node-weight lines, with/without weights) and HIF documents (three record kinds, shared "
        "incidence sets, nodes / edges without incidences). A case is distinct by (kind, type, digest or file text); "
        "non-trivial: an object with >= 1 isolated node, >= 2 hyperedges and non-empty metadata somewhere; a .hgr file "
        "with a comment or blank line and >= 2 hyperedges; a HIF document with a shared incidence set or an edge "
        "without incidences")
ASSUMPTIONS = ["node labels, layer names and metadata are JSON-representable (str keys; str/int/float/bool/None/list/dict "
               "values, finite floats, no lone surrogates); labels of one object are all int or all str",
               "'the same weights / metadata' is read as: equal value AND equal numeric type (int stays int, float stays "
               "float, bool stays bool, -0.0 stays -0.0) - JSON text and pickle both keep them apart and the hash of "
               "C07 distinguishes them; integers are compared exactly (no float rounding). For UNWEIGHTED objects only "
               "the value 1 is demanded of the weight (an unweighted temporal / multiplex object stores an accepted "
               "weight=1.0 as given; the text format does not write weights of unweighted objects)",
               "a loaded object is a full object: the same further history applied to it and to the original gives equal "
               "digests again, and its per-node incident-edge listing equals the original's whenever the original's "
               "listing agrees with its own hyperedge list",
               "hyperedges are duplicate-free node tuples; temporal hyperedges are undirected node sets",
               "objects violating the container invariants (a hyperedge naming a node that is not listed), which only "
               "arise from removal defects of C01-C04, are skipped and counted",
               ".hgr: positive integer labels, single blank in the header line, weighted files list distinct node sets",
               "HIF: network-type undirected / asc / absent, all three record lists present, distinct (edge,node) pairs",
               "labels / layer names are mapped to their rank, metadata keys/values to pool indices before they reach the "
               "model; weights reach the model as exact integers 4*w (any magnitude); float weights that are no "
               "multiple of 1/4 as injective opaque codes (the model stores and compares weights on the save/load "
               "path; histories in which such weights add up are compared with the twin object only)"]
TRUSTED = ["json.dump/json.load and pickle.dump/pickle.load are faithful on JSON-representable values (tuples come back as lists)",
           "str.strip / str.split / int of the .hgr tokeniser (the harness tokenises the same text for the model)",
           "float weights k/4 of small magnitude add exactly in binary64; Python int arithmetic is exact"]
BUDGET_S = {"quick": 50, "thorough": 800}

TYPES = ["H", "D", "T", "M"]
TNAME = {"H": "Hypergraph", "D": "DirectedHypergraph", "T": "TemporalHypergraph", "M": "MultiplexHypergraph"}
UKEYS = ["weighted", "type", "a", "b", "name", "x y", "k\u00fc", "class",
         "1", "0", "-1", "1.5", "1e3", "01", "true", "null", "", " ", "K" * 2000, "\u00e9\n\"\\", "\u0000", "\U0001f600", "a.b"]
RKEYS = {"weight": "w", "time": "t", "layer": "l"}
LONG = "long \u00e4" * 400
VALS = [False, True, "Hypergraph", "DirectedHypergraph", "TemporalHypergraph", "MultiplexHypergraph",
        0, 1, -3, 2.5, "s", "", None, [1, 2, [3]], {"p": 1, "q": [1, {"r": None}]}, [], {}, "\u00fcn\u00ef", 7, "heavy",
        [{"a": []}], 1e-3, 123456789012, "a b",
        # magnitude / numeric type
        2 ** 53 + 1, 2 ** 63, -(2 ** 64) - 1, 10 ** 30 + 7, 0.1, 1e300, 5e-324, -0.0, 0.0, 1.0, 3.0, 1e16, 1 / 3,
        [2 ** 53 + 1, 1.0, {"k": 2 ** 64, "f": 0.1, "t": True}], {"1": 1, "01": "x", "-1": [1.0, 1], "": ""},
        [[[[[[1.5]]]]]], {"weight": 2 ** 53 + 1, "time": 1.0},
        # strings
        LONG, "\u00e9\u0000\n\t\"\\/\u2028 \U0001f600 \x7f", "\\u0041", "1", "1.0", "true", "null", "NaN", "[1]", " "]


def _first(kv):
    return kv[0]


def norm(v):
    """canonical form that keeps apart what JSON text / pickle keep apart: bool / int / float (by repr: -0.0),
    str, None, dict keys by type; tuples and lists are the same (json returns lists)"""
    if v is None or isinstance(v, (bool, str)):
        return (type(v).__name__, v)
    if isinstance(v, int):
        return ("int", v)
    if isinstance(v, float):
        return ("float", repr(v))
    if isinstance(v, (list, tuple)):
        return ("list", tuple(norm(x) for x in v))
    if isinstance(v, dict):
        if all(type(k) is str for k in v):
            return ("dict", tuple([(k, norm(x)) for k, x in sorted(v.items(), key=_first)]))
        return ("dict?", tuple(sorted(((norm(k), norm(x)) for k, x in v.items()), key=repr)))
    if isinstance(v, (set, frozenset)):
        return ("set", tuple(sorted((norm(x) for x in v), key=repr)))
    return ("other", type(v).__name__, repr(v))


VKEY = {norm(v): i for i, v in enumerate(VALS)}
assert len(VKEY) == len(VALS)

BIG_INTS = [2 ** 53 + 1, 2 ** 53 - 1, 2 ** 53, 2 ** 63, 2 ** 63 - 1, 2 ** 64 + 3, -(2 ** 53 + 1), -(2 ** 63) - 1,
            10 ** 18 + 1, 10 ** 30 + 7]
ODD_FLOATS = [0.1, 1 / 3, 2.7, -0.3, 1e-7, 1e300, 5e-324, 1.0000000000000002, 2.0 ** 53, 2.0 ** 70, 1e16, 123456.789,
              -1e-300, 0.30000000000000004, 9007199254740994.0]
QUARTERS = [1, 2, 3, 0.25, 0.5, 1.75, 2.5, 6, -1, 0, 1.0, 2.0, 3.0, 6.0, 0.0, -1.0]
STR_LABELS = ["a", "b", "ab", "B", "c1", "c10", "c2", "d", "e e", "\u00e9", "z", "10", "9",
              "", " ", "0", "1", "01", "-1", "1.0", "\u00fc\n", "a\"b", "back\\slash", "\u0000", "\U0001f600", "x" * 3000,
              "True", "None", "null"]
INT_LABELS = list(range(0, 30)) + [-1, -7, 2 ** 53 + 1, 2 ** 53, 2 ** 63, 2 ** 64 + 1, 10 ** 25]
STR_LAYERS = ["L0", "L1", "social", "z", "", "0", "1", "\u00e9 \u00fc", "l\"q\\", "\U0001f600"]
INT_LAYERS = [0, 1, 2, 3, 4, -1, 2 ** 53 + 1, 2 ** 64]
TIMES = [0, 1, 2, 5, 40, 0, 1, 2, 2 ** 53 + 1, 2 ** 63, 10 ** 20]
OPAQUE = 2 ** 1100      # codes of float weights that are no multiples of 1/4 (above 4 * any finite float)


class Timeout(Exception):
    pass


def _alarm(sig, frm):
    raise Timeout()


def guarded(f, *a, secs=10, **k):
    """run f; any exception (or a hang) becomes an observation"""
    old = signal.signal(signal.SIGALRM, _alarm)
    signal.alarm(secs)
    try:
        return ("ok", f(*a, **k))
    except Timeout:
        return ("exc", "timeout")
    except BaseException as e:  # noqa: BLE001 - also `raise "text"` (TypeError) and SystemExit of mutants
        if isinstance(e, KeyboardInterrupt):
            raise
        return ("exc", type(e).__name__ + ": " + str(e)[:200])
    finally:
        signal.alarm(0)
        signal.signal(signal.SIGALRM, old)


# ------------------------------------------------------------------------------------------
# generation of objects

def gen_meta(rng, p_empty=0.45, reserved=True):
    if rng.random() < p_empty:
        return {}
    m = {}
    for _ in range(rng.randint(1, 3)):
        r = rng.random()
        if reserved and r < 0.18:
            k = rng.choice(list(RKEYS))
        elif r < 0.6:
            k = rng.choice(UKEYS[2:8])
        else:
            k = rng.choice(UKEYS[2:])
        m[k] = copy.deepcopy(rng.choice(VALS[:24]) if rng.random() < 0.45 else rng.choice(VALS))
    return m


def gen_weight(rng, reg):
    """one weight of the object's stream: 'q' small multiples of 1/4 (int and equal-valued float twins),
    'big' integers beyond the float mantissa / machine words, 'flt' floats off the 1/4 grid (and a few ints)"""
    if reg == "q":
        return rng.choice(QUARTERS)
    if reg == "big":
        r = rng.random()
        if r < 0.5:
            return rng.choice(BIG_INTS)
        if r < 0.75:
            v = rng.getrandbits(rng.randint(54, 130)) | 1
            return -v if rng.random() < 0.3 else v
        return rng.choice([1, 2, 3, 0, -1, 7])
    r = rng.random()
    if r < 0.55:
        return rng.choice(ODD_FLOATS)
    if r < 0.8:
        return rng.uniform(-1, 1) * 10.0 ** rng.randint(-8, 20)
    if r < 0.9:
        return rng.choice(BIG_INTS)
    return rng.choice([1, 3, 1.0, 0.5])


def gen_case(rng, T=None):
    T = T or rng.choice(TYPES)
    weighted = rng.random() < 0.5
    wreg = rng.choice(["q", "q", "big", "flt"]) if weighted else None
    n = rng.randint(2, 9)
    r = rng.random()
    if r < 0.2:
        pool = STR_LABELS[:13]
    elif r < 0.4:
        pool = STR_LABELS
    elif r < 0.8:
        pool = INT_LABELS[:30]
    else:
        pool = INT_LABELS
    both = rng.sample(pool, n + 2)
    labels, xlabels = sorted(both[:n]), both[n:]                # xlabels: nodes that only the later history names
    r = rng.random()
    layers = rng.sample(STR_LAYERS[:4], 3) if r < 0.4 else rng.sample(STR_LAYERS, 3) if r < 0.7 else \
        rng.sample(INT_LAYERS[:5], 3) if r < 0.85 else rng.sample(INT_LAYERS, 3)
    ops = []

    def wt():
        if weighted:
            return gen_weight(rng, wreg)
        r = rng.random()
        return None if r < 0.85 else 1 if r < 0.93 else 1.0      # the only weights an unweighted object accepts

    def nodeset(lo=1, names=None):
        names = names or labels
        return tuple(rng.sample(names, rng.randint(lo, min(4, len(names)))))

    def key(names=None):
        if T == "H":
            return (nodeset(1, names),)
        if T == "D":
            s = nodeset(2, names)
            k = rng.randint(1, len(s) - 1)
            return ((s[:k], s[k:]),)
        if T == "T":
            return (nodeset(1, names), rng.choice(TIMES))
        return (nodeset(1, names), rng.choice(layers))

    keys = []

    def gen_op(r, late=False):
        """one history step; late=True: steps applied to a loaded object (may name the extra nodes)"""
        names = labels + xlabels if late else labels
        if r < 0.55 or (not keys and not 0.55 <= r < 0.62):
            if keys and T in "TM" and rng.random() < 0.45:
                k = (rng.choice(keys)[0], key()[1])           # same node set at another time / layer
            elif keys and rng.random() < (0.4 if late else 0.15):
                k = rng.choice(keys)                           # re-insertion
                if rng.random() < 0.5:
                    k = (tuple(reversed(k[0])),) + k[1:] if T != "D" else k
            else:
                k = key(names)
            keys.append(k)
            return ("edge", k, wt(), gen_meta(rng, reserved=not late) if rng.random() < 0.8 else None)
        if r < 0.62:
            return ("node", rng.choice(names), gen_meta(rng, 0.3, reserved=False) if rng.random() < 0.8 else None)
        if r < 0.70:
            return ("rmedge", rng.choice(keys))
        if r < 0.76:
            return ("rmnode", rng.choice(labels), rng.random() < 0.3)
        if r < 0.82:
            return ("nmeta", rng.choice(labels), gen_meta(rng, 0.2, reserved=False))
        if r < 0.90:
            return ("emeta", rng.choice(keys), gen_meta(rng, 0.2))
        if r < 0.95:
            return ("setw", rng.choice(keys), wt() if weighted else 1)
        return ("eattr", rng.choice(keys), rng.choice(UKEYS[2:] + list(RKEYS)), copy.deepcopy(rng.choice(VALS)))

    for _ in range(rng.randint(0, 3)):
        ops.append(gen_op(0.6))
    for _ in range(rng.randint(0, 8)):
        ops.append(gen_op(rng.random()))
    r = rng.random()
    if r < 0.25:
        ops.append(("hset", gen_meta(rng, 0.0)))               # replaced: no weighted/type keys (or stale ones)
    elif r < 0.35:
        ops.append(("hset", {}))                               # cleared
    elif r < 0.45:
        ops.append(("hset", {"weighted": not weighted, "type": "x", "a": [1, 2]}))   # stale flag
    elif r < 0.65:
        ops.append(("hattr", rng.choice(UKEYS[2:] + ["weight"]), copy.deepcopy(rng.choice(VALS))))
    if not weighted and T != "M" and rng.random() < 0.12:
        ks = []
        for _ in range(rng.randint(1, 3)):
            k = key()
            if all(canon_key(T, k) != canon_key(T, q) for q in ks):
                ks.append(k)
        keys.extend(ks)
        ops.append(("bulkw", ks, [rng.choice([2, 0.5, 3]) for _ in ks]))   # add_edges(weights=...) flips the flag
    if rng.random() < 0.3:
        ops.append(("node", rng.choice(labels), gen_meta(rng, 0.3, reserved=False)))
    case = {"T": T, "weighted": weighted, "wreg": wreg, "labels": labels, "xlabels": xlabels, "layers": list(layers),
            "ops": ops}
    if rng.random() < 0.75:
        # the further history of the LOADED object: first add-only steps (also replayed in the model), then anything
        case["post_a"] = [gen_op(rng.choice([0.1, 0.1, 0.6]), late=True) for _ in range(rng.randint(1, 3))]
        case["post_b"] = [gen_op(rng.random(), late=True) for _ in range(rng.randint(0, 3))]
        case["fmt2"] = {"json": rng.choice(["json", "hgx"]), "hgx": rng.choice(["json", "hgx"])}
    return case


def canon_key(T, k):
    if T == "D":
        return (tuple(sorted(k[0][0])), tuple(sorted(k[0][1])))
    if T == "H":
        return tuple(sorted(k[0]))
    return (tuple(sorted(k[0])), k[1])


def tup(x):
    return tuple(tup(y) for y in x) if isinstance(x, (list, tuple)) else x


def build(case):
    import hypergraphx as hx
    T = case["T"]
    cls = {"H": hx.Hypergraph, "D": hx.DirectedHypergraph, "T": hx.TemporalHypergraph, "M": hx.MultiplexHypergraph}[T]
    h = cls(weighted=case["weighted"])
    return h, len(apply_ops(h, T, case["ops"]))


def apply_ops(h, T, ops):
    """apply history steps through the public API; returns the (index, exception type) of the rejected ones"""
    failed = []
    for i, op in enumerate(ops):
        op = list(op)
        kind = op[0]
        try:
            if kind == "node":
                h.add_node(op[1], copy.deepcopy(op[2])) if op[2] is not None else h.add_node(op[1])
            elif kind == "edge":
                k = tup(op[1])
                md = copy.deepcopy(op[3])
                if T in "HD":
                    h.add_edge(k[0], op[2], metadata=md)
                else:
                    h.add_edge(k[0], k[1], weight=op[2], metadata=md)
            elif kind == "rmedge":
                k = tup(op[1])
                if T in "HD":
                    h.remove_edge(k[0])
                elif T == "T":
                    h.remove_edge(k[0], k[1])
                else:
                    h.remove_edge((tuple(sorted(k[0])), k[1]))
            elif kind == "rmnode":
                h.remove_node(op[1], keep_edges=op[2])
            elif kind == "nmeta":
                h.set_node_metadata(op[1], copy.deepcopy(op[2]))
            elif kind == "emeta":
                k = tup(op[1])
                if T in "HD":
                    h.set_edge_metadata(k[0], copy.deepcopy(op[2]))
                elif T == "T":
                    h.set_edge_metadata(k[0], k[1], copy.deepcopy(op[2]))
                else:
                    h.set_attr_to_edge_metadata(k[0], k[1], "a", copy.deepcopy(op[2]))
            elif kind == "eattr":
                k = tup(op[1])
                if T in "HD":
                    h.set_attr_to_edge_metadata(k[0], op[2], copy.deepcopy(op[3]))
                else:
                    h.set_attr_to_edge_metadata(k[0], k[1], op[2], copy.deepcopy(op[3]))
            elif kind == "setw":
                k = tup(op[1])
                if T in "HD":
                    h.set_weight(k[0], op[2])
                else:
                    h.set_weight(k[0], k[1], op[2])
            elif kind == "hset":
                h.set_hypergraph_metadata(copy.deepcopy(op[1]))
            elif kind == "hattr":
                h.set_attr_to_hypergraph_metadata(op[1], copy.deepcopy(op[2]))
            elif kind == "bulkw":
                ks = [tup(k) for k in op[1]]
                import warnings
                with warnings.catch_warnings():
                    warnings.simplefilter("ignore")
                    import io
                    import contextlib
                    with contextlib.redirect_stdout(io.StringIO()):
                        if T in "HD":
                            h.add_edges([k[0] for k in ks], weights=list(op[2]))
                        else:
                            h.add_edges([k[0] for k in ks], [k[1] for k in ks], weights=list(op[2]))
        except Exception as e:  # noqa: BLE001 - a rejected step is an observation
            failed.append((i, type(e).__name__))
    return failed


# ------------------------------------------------------------------------------------------
# digest through the public API

def digest(h, T):
    """{'type','weighted','hmeta','nodes': [(label, meta)], 'edges': [(key, weight, meta)]} - deep copies"""
    nodes = [(n, copy.deepcopy(m)) for n, m in h.get_nodes(metadata=True).items()]
    if sorted(map(repr, h.get_nodes())) != sorted(repr(n) for n, _ in nodes):
        raise ValueError("get_nodes() and get_nodes(metadata=True) list different nodes")
    edges = []
    for e in h.get_edges():
        if T == "H":
            k = tuple(e)
            w, m = h.get_weight(e), h.get_edge_metadata(e)
        elif T == "D":
            k = (tuple(e[0]), tuple(e[1]))
            w, m = h.get_weight(e), h.get_edge_metadata(e)
        elif T == "T":
            k = (tuple(e[1]), e[0])
            w, m = h.get_weight(e[1], e[0]), h.get_edge_metadata(e[1], e[0])
        else:
            k = (tuple(e[0]), e[1])
            w, m = h.get_weight(e[0], e[1]), h.get_edge_metadata(e[0], e[1])
        edges.append((k, w, copy.deepcopy(m)))
    d = {"type": type(h).__name__, "weighted": h.is_weighted(), "hmeta": copy.deepcopy(h.get_hypergraph_metadata()),
         "nodes": nodes, "edges": edges}
    if T == "M":
        d["layers"] = sorted(map(repr, h.get_existing_layers()))     # the layer registry (compared for .hgx only)
    return d


def members_of(k, T):
    return list(k[0]) + list(k[1]) if T == "D" else list(k[0] if T in "TM" else k)


def incidence(h, T, d):
    """{node: sorted incident hyperedges (as digest keys)} through get_incident_edges, node by node"""
    out = {}
    for n, _ in d["nodes"]:
        try:
            es = h.get_incident_edges(n)
            ks = []
            for e in es:
                if T == "H":
                    ks.append(tuple(e))
                elif T == "D":
                    ks.append((tuple(e[0]), tuple(e[1])))
                elif T == "T":
                    ks.append((tuple(e[1]), e[0]))
                else:
                    ks.append((tuple(e[0]), e[1]))
            out[repr(n)] = sorted(map(repr, ks))
        except Exception as e:  # noqa: BLE001
            out[repr(n)] = "exc " + type(e).__name__ + ": " + str(e)[:80]
    return out


def incidence_expected(d, T):
    """the same listing by definition: the hyperedges of get_edges() that contain the node"""
    out = {repr(n): [] for n, _ in d["nodes"]}
    for k, _, _ in d["edges"]:
        for x in members_of(k, T):
            if repr(x) in out:
                out[repr(x)].append(repr(k))
    return {n: sorted(v) for n, v in out.items()}


def strip_reserved(m):
    return {k: v for k, v in m.items() if k not in RKEYS} if isinstance(m, dict) else m


def jeq(a, b):
    """equality that keeps apart what JSON keeps apart (True / 1 / 1.0, -0.0 / 0.0, key "1" / key 1)"""
    return norm(a) == norm(b)


def is_num(a):
    return isinstance(a, (int, float)) and not isinstance(a, bool)


def same_weight(a, b, weighted=True):
    """equal value (Python compares int and float exactly) and, for weighted objects, equal numeric type"""
    if not (is_num(a) and is_num(b) and a == b):
        return False
    return type(a) is type(b) or not weighted


def compare_digests(d0, d1, what):
    """the property's words: same type, nodes (with metadata), hyperedges, weightedness, weights, metadata
    (hyperedge metadata modulo the reserved keys).  Returns a list of differences."""
    out = []
    if d0["type"] != d1["type"]:
        out.append(f"{what}: type {d1['type']} != {d0['type']}")
    if d0["weighted"] != d1["weighted"]:
        out.append(f"{what}: is_weighted() {d1['weighted']} != saved {d0['weighted']}")
    if not jeq(d0["hmeta"], d1["hmeta"]):
        out.append(f"{what}: hypergraph metadata {d1['hmeta']!r} != saved {d0['hmeta']!r}"[:600])
    n0 = {repr(n): m for n, m in d0["nodes"]}
    n1 = {repr(n): m for n, m in d1["nodes"]}
    if len(n1) != len(d1["nodes"]):
        out.append(f"{what}: a node is listed twice")
    if sorted(n0) != sorted(n1):
        out.append(f"{what}: nodes {sorted(n1)} != saved {sorted(n0)}"[:600])
    else:
        for n in n0:
            if not jeq(n0[n], n1[n]):
                out.append(f"{what}: metadata of node {n[:60]}: {n1[n]!r} != saved {n0[n]!r}"[:600])
                break
    e0 = {repr(k): (w, m) for k, w, m in d0["edges"]}
    e1 = {repr(k): (w, m) for k, w, m in d1["edges"]}
    if len(e1) != len(d1["edges"]):
        out.append(f"{what}: a hyperedge is listed twice")
    if sorted(e0) != sorted(e1):
        out.append(f"{what}: hyperedges {sorted(e1)} != saved {sorted(e0)}"[:600])
    else:
        for k in e0:
            if not same_weight(e0[k][0], e1[k][0], d0["weighted"] is True):
                out.append(f"{what}: weight of {k}: {e1[k][0]!r} ({type(e1[k][0]).__name__}) != saved {e0[k][0]!r} "
                           f"({type(e0[k][0]).__name__})"[:300])
                break
        for k in e0:
            if not jeq(strip_reserved(e0[k][1]), strip_reserved(e1[k][1])):
                out.append(f"{what}: metadata of {k[:80]} (reserved keys erased): {e1[k][1]!r} != saved {e0[k][1]!r}"[:600])
                break
    return out


def wf_digest(d, T):
    """container invariants the property's objects satisfy (checked, not assumed)"""
    names = {repr(n) for n, _ in d["nodes"]}
    for k, w, m in d["edges"]:
        if any(repr(x) not in names for x in members_of(k, T)):
            return False
        if not isinstance(m, dict):
            return False
    return isinstance(d["hmeta"], dict)


# ------------------------------------------------------------------------------------------
# wire encoding for the Lean driver

class Enc:
    def __init__(self, labels, layers):
        self.rank = {repr(x): i for i, x in enumerate(sorted(set(labels), key=lambda x: (str(type(x)), x)))}
        self.lrank = {repr(x): i for i, x in enumerate(layers)}

    def node(self, x):
        return self.rank.get(repr(x), 900 + (hash(repr(x)) % 97))

    def layer(self, x):
        return self.lrank.get(repr(x), 900)

    def val(self, v):
        i = VKEY.get(norm(v))
        return "p" + str(999 if i is None else i)

    def meta(self, m, T=None, weighted=False, typed=False):
        """typed=True: the reserved keys carry what save wrote (weight in quanta / time / layer rank)"""
        if not isinstance(m, dict):
            return "u0=p998"
        items = []
        for k, v in m.items():
            if k in RKEYS:
                kk = RKEYS[k]
                if typed and k == "weight" and weighted:
                    vv = "q" + wcode(v) if wcode(v) != "bad" else "p997"
                elif typed and k == "time" and T == "T":
                    vv = "t" + str(v) if isinstance(v, int) and not isinstance(v, bool) and v >= 0 else "p997"
                elif typed and k == "layer" and T == "M":
                    vv = "l" + str(self.layer(v))
                else:
                    vv = self.val(v)
            else:
                kk = "u" + str(UKEYS.index(k)) if k in UKEYS else "u99"
                vv = self.val(v)
            items.append(kk + "=" + vv)
        return ",".join(items) if items else "-"

    def nodes(self, xs):
        return ".".join(str(self.node(x)) for x in xs) if len(xs) else "_"

    def inter(self, T, k):
        """k is a digest key"""
        if T == "D":
            return self.nodes(k[0]) + ">" + self.nodes(k[1]), "-"
        if T == "H":
            return self.nodes(k), "-"
        if T == "T":
            return self.nodes(k[0]), str(k[1])
        return self.nodes(k[0]), str(self.layer(k[1]))

    def weight(self, w):
        return wcode(w)


def wcode(w):
    """a weight as the model's integer: exactly 4*w (ints of any size, floats on the 1/4 grid); other finite floats
    get an injective code above every 4*float (the model stores / compares them, it never adds them up)"""
    if not is_num(w):
        return "bad"
    if isinstance(w, int):
        return str(4 * w)
    if w != w or w in (float("inf"), float("-inf")):
        return "bad"
    q = Fraction(w) * 4
    if q.denominator == 1:
        return str(q.numerator)
    return str(OPAQUE + struct.unpack(">Q", struct.pack(">d", w))[0])


def canon_meta_str(s):
    return ",".join(sorted(s.split(","))) if s != "-" else "-"


def digest_lines(enc, d, T, typed=False):
    """canonical text of a digest in the driver's output format (sorted)"""
    w = d["weighted"]
    head = f"{T};{int(bool(w))};{canon_meta_str(enc.meta(d['hmeta']))}"
    ns = sorted(f"{enc.node(n)};{canon_meta_str(enc.meta(m))}" for n, m in d["nodes"])
    es = []
    for k, wt, m in d["edges"]:
        it, ex = enc.inter(T, k)
        es.append(f"{it};{ex};{enc.weight(wt)};{canon_meta_str(enc.meta(m, T, w, typed))}")
    return head, ns, sorted(es)


def parse_driver_digest(s):
    """driver prints  head|n;meta|...|#|inter;extra;w;meta|...   -> (head, sorted nodes, sorted edges)"""
    parts = s.split("|")
    if "#" not in parts:
        return None
    i = parts.index("#")
    h = parts[0].split(";")
    head = ";".join(h[:2] + [canon_meta_str(h[2])]) if len(h) == 3 else parts[0]
    ns = sorted(";".join([p.split(";")[0], canon_meta_str(p.split(";")[1])]) for p in parts[1:i])
    es = sorted(";".join(p.split(";")[:3] + [canon_meta_str(p.split(";")[3])]) for p in parts[i + 1:])
    return head, ns, es


def content_cmds(enc, d, T):
    lines = [f"begin {T} {int(bool(d['weighted']))}", "hmeta " + enc.meta(d["hmeta"])]
    for n, m in d["nodes"]:
        lines.append(f"rnode {enc.node(n)} {enc.meta(m)}")
    for k, wt, m in d["edges"]:
        it, ex = enc.inter(T, k)
        lines.append(f"redge {it} {ex} {enc.weight(wt)} {enc.meta(m)}")
    return lines


def file_records(enc, data, T):
    """json.load(file) -> canonical record texts in the driver's format; None if the shape is off"""
    out = []
    weighted = False
    for rec in data:
        if not isinstance(rec, dict):
            return None
        if "hypergraph_type" in rec:
            t = {v: k for k, v in TNAME.items()}.get(rec.get("hypergraph_type"), "?")
            weighted = rec.get("weighted", "absent")
            w = "1" if weighted is True else "0" if weighted is False else "x"
            out.append(f"H;{t};{w};{canon_meta_str(enc.meta(rec.get('hypergraph_metadata')))}")
            weighted = weighted is True
        elif rec.get("type") == "node":
            if sorted(rec) != ["idx", "metadata", "type"]:
                return None
            out.append(f"N;{enc.node(rec['idx'])};{canon_meta_str(enc.meta(rec['metadata']))}")
        elif rec.get("type") == "edge":
            if sorted(rec) != ["interaction", "metadata", "type"]:
                return None
            it = rec["interaction"]
            if T == "D":
                its = enc.nodes(it[0]) + ">" + enc.nodes(it[1])
            else:
                its = enc.nodes(it)
            out.append(f"E;{its};{canon_meta_str(enc.meta(rec['metadata'], T, weighted, True))}")
        else:
            return None
    return out


def canon_records(s):
    out = []
    for p in s.split("|"):
        f = p.split(";")
        out.append(";".join(f[:-1] + [canon_meta_str(f[-1])]))
    return out


def record_cmds(recs):
    """canonical record texts -> driver commands that rebuild the record list"""
    lines = ["rec_clear"]
    for r in recs:
        f = r.split(";")
        if f[0] == "H":
            lines.append(f"rec_h {f[1]} {f[2]} {f[3]}")
        elif f[0] == "N":
            lines.append(f"rec_n {f[1]} {f[2]}")
        else:
            lines.append(f"rec_e {f[1]} {f[2]}")
    return lines


# ------------------------------------------------------------------------------------------
# one object case

def is_nontrivial(d, T):
    used = set()
    for k, _, _ in d["edges"]:
        used |= {repr(x) for x in (list(k[0]) + list(k[1]) if T == "D" else (k[0] if T in "TM" else k))}
    iso = any(repr(n) not in used for n, _ in d["nodes"])
    md = any(m for _, m in d["nodes"]) or any(m for _, _, m in d["edges"])
    return iso and len(d["edges"]) >= 2 and bool(md)


def save_load(ctx, drv, case, enc, h, T, fmt, tmp, stage):
    """one save -> load of the live object h with every oracle of the property; returns (loaded object or None, whether
    the driver now holds the model's loaded content).
    With a driver: the model's save / load / populate∘expose on the digest of h against the file and the result;
    afterwards the driver's current content is the model's loaded content."""
    from hypergraphx.readwrite import load_hypergraph, save_hypergraph
    vc = {**case, "format": fmt, "stage": stage}
    path = os.path.join(tmp, f"c{1 if stage == 'first' else 2}.{fmt}")
    # a file of an earlier case usually exists at this path: saving overwrites it
    r = guarded(digest, h, T)
    if r[0] != "ok":
        ctx.violation(vc, f"{stage}: public queries fail on the object: {r[1]}")
        return None, False
    d0 = r[1]                     # the state just before this save
    if not wf_digest(d0, T):
        ctx.count("skipped_not_wellformed")
        return None, False
    inc0 = incidence(h, T, d0)
    model_records = None
    if drv is not None:
        lines = content_cmds(enc, d0, T) + ["wf", "digest", "save"]
        ans = drv.batch(lines)
        n = len(lines)
        if ans[n - 3] != "1":
            ctx.disagree(vc, f"{stage}: the model's well-formedness predicate (hypothesis of the round-trip theorems) is "
                             f"false on the digest of a real object: {ans[n-3]}")
        if parse_driver_digest(ans[n - 2]) != digest_lines(enc, d0, T):
            ctx.disagree(vc, f"{stage}: driver echo of the content differs: {ans[n-2][:300]!r} vs {digest_lines(enc, d0, T)!r}"[:900])
        model_records = canon_records(ans[n - 1])
    r = guarded(save_hypergraph, h, path, binary=(fmt == "hgx"))
    if r[0] != "ok":
        ctx.violation(vc, f"{stage}: save_hypergraph(.{fmt}) raised {r[1]}")
        return None, False
    r = guarded(digest, h, T)
    if r[0] != "ok":
        ctx.violation(vc, f"{stage}: public queries fail on the object after saving: {r[1]}")
        return None, False
    d_after = r[1]
    if not jeq(d0, d_after):
        diffs = [f"{k}: {d_after[k]!r} != before {d0[k]!r}" for k in d0 if not jeq(d0[k], d_after.get(k))]
        ctx.violation(vc, f"{stage}: save_hypergraph(.{fmt}) modified the saved object: " + "; ".join(diffs)[:400])
        # continue with the round trip against the state BEFORE saving
    elif incidence(h, T, d_after) != inc0:
        ctx.violation(vc, f"{stage}: save_hypergraph(.{fmt}) changed the incident-edge listings of the saved object")
    r = guarded(load_hypergraph, path)
    if r[0] != "ok":
        ctx.violation(vc, f"{stage}: load_hypergraph(.{fmt}) raised {r[1]}")
        return None, False
    g = r[1]
    if g is None:
        ctx.violation(vc, f"{stage}: load_hypergraph(.{fmt}) returned None")
        return None, False
    r = guarded(digest, g, T)
    if r[0] != "ok":
        ctx.violation(vc, f"{stage}: public queries fail on the loaded object / wrong type {type(g).__name__}: {r[1]}")
        return None, False
    d1 = r[1]
    diffs = compare_digests(d0, d1, f"{stage}: .{fmt} round trip")
    for what in diffs[:2]:
        ctx.violation(vc, what)
    if diffs:
        return None, False
    if fmt == "hgx" and not jeq(d0, d1):
        # binary: a field-by-field copy - also the reserved keys, the listing order and the layer registry are identical
        ctx.violation(vc, f"{stage}: .hgx round trip: digest (with listing order / layer registry) differs")
        return None, False
    if inc0 == incidence_expected(d0, T):
        inc1 = incidence(g, T, d1)
        if inc1 != inc0:
            bad = [n for n in inc0 if inc1.get(n) != inc0[n]][:1]
            ctx.violation(vc, f"{stage}: .{fmt} round trip: get_incident_edges({bad[0][:60]}) of the loaded object = "
                              f"{inc1.get(bad[0])!r}, saved object {inc0[bad[0]]!r}"[:700])
            return None, False
    else:
        ctx.count("incidence_of_original_inconsistent")
    if drv is not None and model_records is not None:
        if fmt == "json":
            try:
                data = json.load(open(path))
            except Exception as e:
                ctx.violation(vc, f"{stage}: the saved file is not JSON: {e}")
                return None, False
            r = guarded(file_records, enc, data, T)
            recs = r[1] if r[0] == "ok" else None
            if recs is None or recs != model_records:
                ctx.disagree(vc, f"{stage}: file records {recs!r} != model save {model_records!r}"[:1500])
                return g, False
            ans = drv.batch(["load", "digest"])
            if ans[0] != "ok":
                ctx.disagree(vc, f"{stage}: model load of its own save answers {ans[0]}")
                return g, False
            if parse_driver_digest(ans[1]) != digest_lines(enc, d1, T, typed=True):
                ctx.disagree(vc, f"{stage}: model load(save c) = {parse_driver_digest(ans[1])!r}, implementation loaded "
                                 f"{digest_lines(enc, d1, T, typed=True)!r}"[:1500])
                return g, False
        else:
            ans = drv.batch(["hgx", "digest"])
            if ans[0] != "ok" or parse_driver_digest(ans[1]) != digest_lines(enc, d1, T):
                ctx.disagree(vc, f"{stage}: model loadPickle(expose c) = {ans[0]} {parse_driver_digest(ans[1])!r}, implementation "
                                 f"loaded {digest_lines(enc, d1, T)!r}"[:1500])
                return g, False
        return g, True
    return g, False


def api_lines(enc, T, ops):
    lines = []
    for op in ops:
        if op[0] == "node":
            lines.append(f"api_node {enc.node(op[1])} {'none' if op[2] is None else enc.meta(op[2])}")
        elif op[0] == "hset":
            lines.append("api_sethmeta " + enc.meta(op[1]))
        else:
            k = tup(op[1])
            if T == "D":
                it, ex = enc.nodes(k[0][0]) + ">" + enc.nodes(k[0][1]), "-"
            elif T == "H":
                it, ex = enc.nodes(k[0]), "-"
            elif T == "T":
                it, ex = enc.nodes(k[0]), str(k[1])
            else:
                it, ex = enc.nodes(k[0]), str(enc.layer(k[1]))
            w = "none" if op[2] is None else enc.weight(op[2])
            lines.append(f"api_edge {it} {ex} {w} {'none' if op[3] is None else enc.meta(op[3])}")
    return lines


def compare_live(ctx, vc, twin, g, T, fmt, what):
    """the original (twin) and the loaded object after the same further history: equal digests (the text format modulo
    the reserved keys it left in the metadata, the binary format exactly) and equal incidence listings"""
    r0, r1 = guarded(digest, twin, T), guarded(digest, g, T)
    if r0[0] != "ok":
        ctx.count("twin_queries_fail")
        return None
    if r1[0] != "ok":
        ctx.violation(vc, f"{what}: public queries fail on the loaded object: {r1[1]}")
        return None
    d0, d1 = r0[1], r1[1]
    if not wf_digest(d0, T):
        ctx.count("skipped_not_wellformed")
        return None
    diffs = compare_digests(d0, d1, what)
    if not diffs and fmt == "hgx" and not jeq(d0, d1):
        diffs = [f"{what}: digests (with listing order) differ: loaded {d1!r}, original {d0!r}"[:700]]
    for x in diffs[:2]:
        ctx.violation(vc, x)
    if diffs:
        return None
    inc0 = incidence(twin, T, d0)
    if inc0 == incidence_expected(d0, T):
        inc1 = incidence(g, T, d1)
        if inc1 != inc0:
            bad = [n for n in inc0 if inc1.get(n) != inc0[n]][:1]
            ctx.violation(vc, f"{what}: get_incident_edges({bad[0][:60]}) of the loaded object = {inc1.get(bad[0])!r}, "
                              f"original {inc0[bad[0]]!r}"[:700])
            return None
    else:
        ctx.count("incidence_of_original_inconsistent")
    return d1


def model_exact(case):
    """histories whose weights the model adds up exactly: every float on the 1/4 grid and small, and no integer beyond
    2**40 next to a float"""
    ws = []
    for op in list(case["ops"]) + list(case.get("post_a", [])):
        if op[0] in ("edge", "setw"):
            ws.append(op[2])
        elif op[0] == "bulkw":
            ws += list(op[2])
    flts = [w for w in ws if isinstance(w, float)]
    if any(abs(w) > 2 ** 40 or (Fraction(w) * 4).denominator != 1 for w in flts):
        return False
    return not (flts and any(isinstance(w, int) and abs(w) > 2 ** 40 for w in ws))


def check_object(ctx, drv, case, tmp):
    T = case["T"]
    r = guarded(build, case)
    if r[0] != "ok":
        ctx.count("build_failed")
        return
    h, failed = r[1]
    ctx.count("ops_rejected", failed)
    r = guarded(digest, h, T)
    if r[0] != "ok":
        ctx.violation(case, f"public queries fail on the built {TNAME[T]}: {r[1]}")
        return
    d0 = r[1]
    if not wf_digest(d0, T):
        ctx.count("skipped_not_wellformed")
        return
    enc = Enc(list(case["labels"]) + list(case.get("xlabels", [])), case["layers"])
    key = ("obj", T, json.dumps(hgxv.jsonable(d0), sort_keys=True, default=repr), json.dumps(hgxv.jsonable(case.get("post_a", [])), default=repr))
    ctx.case(key, is_nontrivial(d0, T), sample=case)
    ctx.count("type_" + T)
    ctx.count("weighted" if d0["weighted"] else "unweighted")
    if d0["weighted"]:
        ctx.count("weights_" + str(case.get("wreg") or "q"))
        if any(is_num(w) and abs(w) > 2 ** 53 for _, w, _ in d0["edges"]):
            ctx.count("weight_beyond_2^53")
    if any(op[0] in ("rmedge", "rmnode") for op in case["ops"]):
        ctx.count("with_removals")
    if not (isinstance(d0["hmeta"], dict) and d0["hmeta"].get("weighted") == d0["weighted"]
            and d0["hmeta"].get("type") == TNAME[T]):
        ctx.count("hmeta_replaced_or_stale")
    exact = model_exact(case)
    for fmt in ("json", "hgx"):
        g, mok = save_load(ctx, drv, case, enc, h, T, fmt, tmp, "first")
        if g is None or "post_a" not in case or ctx.too_many():
            continue
        # the loaded object is a full object: the same further history on it and on a twin of the original
        vc = {**case, "format": fmt, "stage": "history after load"}
        r = guarded(build, case)
        if r[0] != "ok":
            continue
        twin = r[1][0]
        post_a = [tuple(op) for op in case["post_a"]]
        post_b = [tuple(op) for op in case.get("post_b", [])]
        r0, r1 = guarded(apply_ops, twin, T, post_a), guarded(apply_ops, g, T, post_a)
        if r0[0] != "ok":
            continue
        f0, f1 = r0[1], r1[1]
        if f0 != f1:
            ctx.violation(vc, f"after load(.{fmt}): the steps {post_a!r} are rejected differently on the loaded object "
                              f"({f1}) and on the original ({f0})"[:700])
            continue
        ctx.count("history_after_load")
        dA = compare_live(ctx, vc, twin, g, T, fmt, f"after load(.{fmt}) and the steps {post_a!r}"[:500])
        if dA is None:
            continue
        if drv is not None and exact and mok:
            ans = drv.batch(api_lines(enc, T, post_a) + ["digest"])
            mine = digest_lines(enc, dA, T, typed=(fmt == "json"))
            if parse_driver_digest(ans[-1]) != mine:
                ctx.disagree(vc, f"model add_node/add_edge steps {post_a!r} on its loaded content give "
                                 f"{parse_driver_digest(ans[-1])!r}, implementation {mine!r}"[:1500])
        if post_b:
            r0, r1 = guarded(apply_ops, twin, T, post_b), guarded(apply_ops, g, T, post_b)
            if r0[0] != "ok":
                continue
            f0, f1 = r0[1], r1[1]
            if f0 != f1:
                ctx.violation(vc, f"after load(.{fmt}): the steps {post_a + post_b!r} are rejected differently on the loaded "
                                  f"object ({f1}) and on the original ({f0})"[:700])
                continue
            if compare_live(ctx, vc, twin, g, T, fmt, f"after load(.{fmt}) and the steps {post_a + post_b!r}"[:500]) is None:
                continue
        # a loaded and further used object is saved and loaded again (same or other format)
        save_load(ctx, drv, case, enc, g, T, case.get("fmt2", {}).get(fmt, fmt), tmp, "second (object loaded from ." + fmt + ", then used)")
    # add_node / add_edge semantics of the model on the add-only prefix of the history
    if drv is not None and exact:
        check_api_prefix(ctx, drv, case, enc)


def check_api_prefix(ctx, drv, case, enc):
    T = case["T"]
    pre = []
    for op in case["ops"]:
        if op[0] not in ("node", "edge", "hset"):
            break
        pre.append(op)
    if not pre:
        return
    sub = {**case, "ops": pre}
    r = guarded(build, sub)
    if r[0] != "ok":
        return
    h, failed = r[1]
    r = guarded(digest, h, T)
    if r[0] != "ok":
        return
    d = r[1]
    lines = [f"api_new {T} {int(case['weighted'])}"] + api_lines(enc, T, pre)
    lines.append("digest")
    ans = drv.batch(lines)
    ctx.count("api_prefix_checked")
    if parse_driver_digest(ans[-1]) != digest_lines(enc, d, T):
        ctx.disagree(sub, f"model add_node/add_edge history gives {parse_driver_digest(ans[-1])!r}, implementation "
                          f"{digest_lines(enc, d, T)!r}")


# ------------------------------------------------------------------------------------------
# .hgr

def gen_hgr(rng):
    weighted = rng.random() < 0.5
    n = rng.randint(1, 9)
    E = rng.randint(0, 7)
    edges, seen = [], set()
    for _ in range(E):
        e = rng.sample(range(1, n + 1), rng.randint(1, min(4, n)))
        if weighted and frozenset(e) in seen:
            continue
        if not weighted and seen and rng.random() < 0.15:
            e = list(rng.choice(sorted(seen, key=sorted)))
            rng.shuffle(e)
        seen.add(frozenset(e))
        edges.append((rng.randint(1, 9) if rng.random() < 0.85 else rng.choice([2 ** 53 + 1, 2 ** 63 + 1, 10 ** 20, 2 ** 31, 10]), e))
    mode = rng.choice([1, 11]) if weighted else rng.choice([None, 0, 10])
    nodew = mode in (10, 11) or rng.random() < 0.15
    out = []

    def noise():
        while rng.random() < 0.3:
            out.append(rng.choice(["% comment", "", "   ", "%", "  % indented comment 1 2", "\t"]))
    noise()
    out.append(f"{len(edges)} {n}" + ("" if mode is None else f" {mode}"))
    for w, e in edges:
        noise()
        toks = ([str(w)] if weighted else []) + [str(x) for x in e]
        sep = rng.choice([" ", " ", "  "])
        out.append(rng.choice(["", " "]) + sep.join(toks) + rng.choice(["", " ", "  "]))
    if nodew:
        for _ in range(rng.randint(0, n)):
            noise()
            out.append(str(rng.randint(1, 5)))
    noise()
    return {"text": "\n".join(out) + ("\n" if rng.random() < 0.8 else ""), "weighted": weighted,
            "edges": [(w, e) for w, e in edges], "n": n}


def hgr_tokenise(text):
    """the trusted tokeniser: what load.py's strip / split(" ") / int see, line by line"""
    lines = []
    for line in text.split("\n")[:-1] if text.endswith("\n") else text.split("\n"):
        s = line.strip()
        if len(s) == 0 or s[0] == "%":
            lines.append("skip")
        else:
            lines.append(",".join(t for t in s.split(" ") if t != ""))
    return lines


def check_hgr(ctx, drv, case, tmp):
    from hypergraphx.readwrite import load_hypergraph
    path = os.path.join(tmp, "f.hgr")
    with open(path, "w") as f:
        f.write(case["text"])
    r = guarded(load_hypergraph, path)
    nontriv = len(case["edges"]) >= 2 and any(ln.strip() == "" or ln.strip().startswith("%") for ln in case["text"].split("\n")[:-1])
    ctx.case(("hgr", case["text"]), nontriv, sample=case)
    ctx.count("hgr_weighted" if case["weighted"] else "hgr_unweighted")
    if r[0] != "ok":
        ctx.violation(case, f"load_hypergraph(.hgr) raised on a valid file: {r[1]}")
        return
    g = r[1]
    r = guarded(digest, g, "H")
    if r[0] != "ok" or type(g).__name__ != "Hypergraph":
        ctx.violation(case, f"the .hgr reader did not return a usable Hypergraph: {r[1] if r[0] != 'ok' else type(g).__name__}")
        return
    d = r[1]
    # oracle: exactly the listed node sets, with the listed weights when weighted
    want = {}
    for w, e in case["edges"]:
        want[tuple(sorted(e))] = w if case["weighted"] else 1
    got = {k: w for k, w, _ in d["edges"]}
    if d["weighted"] != case["weighted"]:
        ctx.violation(case, f".hgr: is_weighted() = {d['weighted']}, file mode says {case['weighted']}")
    if sorted(got) != sorted(want) or len(got) != len(d["edges"]):
        ctx.violation(case, f".hgr: hyperedges {sorted(got)} != listed node sets {sorted(want)}")
    elif any(not same_weight(got[k], want[k]) for k in want):
        ctx.violation(case, f".hgr: weights {got} != listed {want}")
    if sorted(n for n, _ in d["nodes"]) != sorted({x for _, e in case["edges"] for x in e}):
        ctx.violation(case, ".hgr: node set is not the union of the listed hyperedges")
    if drv is not None:
        toks = hgr_tokenise(case["text"])
        ans = drv.batch(["hgr " + (" ".join(toks) if toks else "")])[0]
        lab = sorted({x for _, e in case["edges"] for x in e})
        enc = Enc(lab, [])
        enc.rank = {repr(x): x for x in lab}        # .hgr labels are the integers themselves
        mine = digest_lines(enc, d, "H")
        if ans == "rej" or parse_driver_digest(ans) != mine:
            ctx.disagree(case, f"model parseHgr gives {ans!r}, implementation {mine!r}")


# ------------------------------------------------------------------------------------------
# HIF

def gen_hif(rng):
    nn = rng.randint(1, 7)
    ne = rng.randint(1, 6)
    style = rng.choice(["str", "int", "uid", "numstr", "odd"])
    if style == "str":
        npool, epool = ["n%d" % i for i in range(12)], ["e%d" % i for i in range(12)]
    elif style == "int":
        npool, epool = list(range(10, 40)), list(range(100, 140))
    elif style == "uid":            # names that look like the reader's own 0.. numbering, in another order
        npool, epool = list(range(nn)), list(range(ne))
    elif style == "numstr":
        npool, epool = [str(i) for i in range(nn + 1)], [str(i) for i in range(ne + 1)]
    else:
        npool = ["", " ", "\u00e9", "a\"b", "\U0001f600", "x" * 300, "0", "n\n", "back\\", "None"][:max(nn, 7)] + ["p%d" % i for i in range(3)]
        epool = [2 ** 53 + 1, 2 ** 64, -1, 0, 1, 10 ** 20, -(2 ** 63) - 1, 7, 8, 9]
    nnames = rng.sample(npool, nn)
    enames = rng.sample(epool, ne)
    inc = []
    sets = []
    for e in enames:
        r = rng.random()
        if r < 0.2:
            continue                                              # edge without incidences
        if r < 0.45 and sets:
            s = list(rng.choice(sets))                            # shared incidence set
        else:
            s = rng.sample(nnames, rng.randint(1, min(4, nn)))
        sets.append(tuple(s))
        for x in s:
            inc.append({"edge": e, "node": x, **({"weight": rng.choice([1, 2.5, "x", 1.0, 2 ** 53 + 1, 0.1, 0])} if rng.random() < 0.6 else {}),
                        **({"attrs": {"role": rng.choice(["a", "b"])}} if rng.random() < 0.3 else {})})
    rng.shuffle(inc)
    node_recs = [{"node": x, **({"weight": rng.choice([1, 2, 3, 4, 5, 1.0, 10 ** 30 + 7, 1 / 3])} if rng.random() < 0.5 else {}),
                  **({"attrs": {"name": str(x)[:20] * 2, **({rng.choice(UKEYS[8:]): copy.deepcopy(rng.choice(VALS))}
                                                           if rng.random() < 0.3 else {})}} if rng.random() < 0.5 else {})}
                 for x in nnames if rng.random() < 0.85]
    edge_recs = [{"edge": e, **({"attrs": {"kind": rng.choice(["p", "q"])}} if rng.random() < 0.6 else {})}
                 for e in enames if rng.random() < 0.8]
    rng.shuffle(node_recs)
    rng.shuffle(edge_recs)
    doc = {"incidences": inc, "nodes": node_recs, "edges": edge_recs}
    r = rng.random()
    if r < 0.4:
        doc["network-type"] = "undirected"
    if r < 0.7:
        doc["type"] = rng.choice(["undirected", "asc"])
    if rng.random() < 0.5:
        doc["metadata"] = {"name": "doc", "v": [1, 2], **({rng.choice(UKEYS[8:]): copy.deepcopy(rng.choice(VALS))} if rng.random() < 0.5 else {})}
    return {"doc": doc}


def check_hif(ctx, drv, case, tmp):
    from hypergraphx.readwrite.hif import read_hif
    import io
    import contextlib
    doc = case["doc"]
    path = os.path.join(tmp, "d.hif.json")
    with open(path, "w") as f:
        json.dump(doc, f)

    def run():
        with contextlib.redirect_stdout(io.StringIO()):
            return read_hif(path)
    r = guarded(run)
    inc_of = {}
    for i in doc["incidences"]:
        inc_of.setdefault(repr(i["edge"]), []).append(i["node"])
    sets = {}
    for e, ns in inc_of.items():
        sets.setdefault(frozenset(map(repr, ns)), []).append(e)
    shared = any(len(v) > 1 for v in sets.values())
    empties = [e for e in doc["edges"] if repr(e["edge"]) not in inc_of]
    ctx.case(("hif", json.dumps(doc, sort_keys=True)), shared or bool(empties), sample=case)
    ctx.count("hif_docs")
    if r[0] != "ok":
        ctx.violation(case, f"read_hif raised on a valid document: {r[1]}")
        return
    H = r[1]

    def obs():
        nodes = H.get_nodes(metadata=True)
        edges = {tuple(e): H.get_edge_metadata(e) for e in H.get_edges()}
        incs = H.get_all_incidences_metadata()
        return nodes, edges, incs, dict(H._empty_edges), H.get_hypergraph_metadata(), H.is_weighted()
    r = guarded(obs)
    if r[0] != "ok":
        ctx.violation(case, f"queries on the HIF result fail: {r[1]}")
        return
    nodes, edges, incs, empt, hm, wtd = r[1]
    # node uid <-> name through the node records / incidence records themselves
    name_of = {}
    for u, m in nodes.items():
        if isinstance(m, dict) and "node" in m:
            name_of[u] = m["node"]
    for (k, u), m in incs.items():
        if isinstance(m, dict) and "node" in m:
            if u in name_of and repr(name_of[u]) != repr(m["node"]):
                ctx.violation(case, f"HIF: node id {u} carries records of two different nodes")
            name_of[u] = m["node"]
    all_names = {repr(x["node"]) for x in doc["nodes"]} | {repr(i["node"]) for i in doc["incidences"]}
    if len(name_of) != len(nodes) or {repr(v) for v in name_of.values()} != all_names or len({repr(v) for v in name_of.values()}) != len(name_of):
        ctx.violation(case, f"HIF: nodes of the result {name_of} (of {len(nodes)}) do not correspond one-to-one to the named nodes {sorted(all_names)}")
        return
    uid = {repr(v): u for u, v in name_of.items()}
    # one hyperedge per distinct incidence set
    want_keys = {tuple(sorted(uid[x] for x in s)): es for s, es in sets.items()}
    if sorted(edges) != sorted(want_keys):
        ctx.violation(case, f"HIF: hyperedges {sorted(edges)} != one per distinct incidence set {sorted(want_keys)}")
        return
    # node records attached to their node
    for rec in doc["nodes"]:
        same = [x for x in doc["nodes"] if repr(x["node"]) == repr(rec["node"])]
        if len(same) == 1 and not jeq(nodes[uid[repr(rec["node"])]], rec):
            ctx.violation(case, f"HIF: node record {rec} is not the metadata of its node: {nodes[uid[repr(rec['node'])]]}")
    for u, m in nodes.items():
        if repr(name_of[u]) not in {repr(x["node"]) for x in doc["nodes"]} and m != {}:
            ctx.violation(case, f"HIF: node {name_of[u]} without a node record has metadata {m}")
    # edge records attached to the key of their incidence set (unambiguous when no other record shares the set)
    for rec in doc["edges"]:
        e = repr(rec["edge"])
        if e in inc_of:
            k = tuple(sorted(uid[repr(x)] for x in inc_of[e]))
            rivals = [x for x in doc["edges"] if repr(x["edge"]) in inc_of and
                      frozenset(map(repr, inc_of[repr(x["edge"])])) == frozenset(map(repr, inc_of[e]))]
            if len(rivals) == 1 and not jeq(edges[k], rec):
                ctx.violation(case, f"HIF: edge record {rec} is not the metadata of its hyperedge {k}: {edges[k]}")
        else:
            if not (rec["edge"] in empt and jeq(empt[rec["edge"]], rec)):
                ctx.violation(case, f"HIF: edge {rec['edge']} has no incidences but is not in the empty-edge table {empt}")
    if len(empt) != len({repr(e["edge"]) for e in empties}):
        ctx.violation(case, f"HIF: empty-edge table {empt} != edges without incidences")
    for k, es in want_keys.items():
        if not any(repr(x["edge"]) in es for x in doc["edges"]) and edges[k] != {}:
            ctx.violation(case, f"HIF: hyperedge {k} without an edge record has metadata {edges[k]}")
    # incidence records attached to (key, node)
    for i in doc["incidences"]:
        k = tuple(sorted(uid[repr(x)] for x in inc_of[repr(i["edge"])]))
        rivals = [x for x in doc["incidences"] if repr(x["node"]) == repr(i["node"]) and
                  frozenset(map(repr, inc_of[repr(x["edge"])])) == frozenset(map(repr, inc_of[repr(i["edge"])]))]
        got = incs.get((k, uid[repr(i["node"])]))
        if len(rivals) == 1 and not jeq(got, i):
            ctx.violation(case, f"HIF: incidence record {i} is not attached to ({k}, {uid[repr(i['node'])]}): {got}")
    if len(incs) != len({(tuple(sorted(uid[repr(x)] for x in inc_of[repr(i['edge'])])), uid[repr(i['node'])]) for i in doc["incidences"]}):
        ctx.violation(case, "HIF: incidence table has entries no incidence record names")
    if "metadata" in doc and not jeq(hm, doc["metadata"]):
        ctx.violation(case, f"HIF: hypergraph metadata {hm} != document metadata")
    if drv is not None:
        # names -> tokens in order of first appearance anywhere; records -> their index (1-based per list)
        ntok, etok = {}, {}
        for i in doc["incidences"]:
            etok.setdefault(repr(i["edge"]), len(etok))
            ntok.setdefault(repr(i["node"]), len(ntok))
        for x in doc["nodes"]:
            ntok.setdefault(repr(x["node"]), len(ntok))
        for x in doc["edges"]:
            etok.setdefault(repr(x["edge"]), len(etok))
        # shuffle the tokens so that the model cannot rely on tokens being first-appearance ranks
        perm_n = list(range(len(ntok)))
        perm_e = list(range(len(etok)))
        ctx.rng.shuffle(perm_n)
        ctx.rng.shuffle(perm_e)
        nt = {k: perm_n[v] + 50 for k, v in ntok.items()}
        et = {k: perm_e[v] + 70 for k, v in etok.items()}
        line = "hif " + (";".join(f"{et[repr(i['edge'])]},{nt[repr(i['node'])]}" for i in doc["incidences"]) or "-") + " " + \
               (",".join(str(nt[repr(x["node"])]) for x in doc["nodes"]) or "-") + " " + \
               (",".join(str(et[repr(x["edge"])]) for x in doc["edges"]) or "-")
        ans = drv.batch([line])[0]
        # implementation in the same format: nodes uid:recIndex(0 = {}), keys key:recIndex, incidences key/uid:recIndex, empties name:recIndex
        def idx(lst, m):
            for j, x in enumerate(lst):
                if x is m or jeq(x, m) and sum(1 for y in lst if jeq(y, m)) == 1:
                    return j + 1
            if m == {}:
                return 0
            # duplicates with equal content: take the last equal one (what the reader keeps)
            js = [j + 1 for j, x in enumerate(lst) if jeq(x, m)]
            return js[-1] if js else 999
        a = ",".join(f"{u}:{idx(doc['nodes'], m)}" for u, m in nodes.items()) or "-"
        b = ",".join(f"{'.'.join(map(str, k))}:{idx(doc['edges'], m)}" for k, m in edges.items()) or "-"
        c = ",".join(f"{'.'.join(map(str, k))}/{u}:{idx(doc['incidences'], m)}" for (k, u), m in incs.items()) or "-"
        e = ",".join(f"{et.get(repr(nm), 999)}:{idx(doc['edges'], m)}" for nm, m in empt.items()) or "-"
        mine = f"{a} {b} {c} {e}"
        if ans != mine:
            ctx.disagree(case, f"model readHif gives {ans!r}, implementation {mine!r}")


# ------------------------------------------------------------------------------------------

def run(ctx):
    drv = ctx.driver() if ctx.model_available and not os.environ.get("C06_NODRV") else None
    tmp = tempfile.mkdtemp(prefix="hgxv_c06_")
    try:
        n_obj = ctx.scale(1600, 40000)
        n_hgr = ctx.scale(700, 12000)
        n_hif = ctx.scale(700, 12000)
        plan = [("obj", n_obj), ("hgr", n_hgr), ("hif", n_hif)]
        # interleave so that every kind is reached under a time limit
        todo = [k for k, n in plan for _ in range(n)]
        ctx.rng.shuffle(todo)
        # the four types first, once each, deterministic start
        for T in TYPES:
            check_object(ctx, drv, gen_case(ctx.rng, T), tmp)
        for kind in todo:
            if kind == "obj":
                check_object(ctx, drv, gen_case(ctx.rng), tmp)
            elif kind == "hgr":
                check_hgr(ctx, drv, gen_hgr(ctx.rng), tmp)
            else:
                check_hif(ctx, drv, gen_hif(ctx.rng), tmp)
            # a broken correspondence alone does not stop the search for a failing input
            if len(ctx.violations) >= 5 or len(ctx.disagreements) >= 60 or (ctx.time_left() is not None and ctx.time_left() < 5):
                break
    finally:
        shutil.rmtree(tmp, ignore_errors=True)


def replay(ctx, case):
    drv = ctx.driver() if ctx.model_available and not os.environ.get("C06_NODRV") else None
    tmp = tempfile.mkdtemp(prefix="hgxv_c06_")
    try:
        if "doc" in case:
            check_hif(ctx, drv, case, tmp)
        elif "text" in case:
            case["edges"] = [(w, list(e)) for w, e in case["edges"]]
            check_hgr(ctx, drv, case, tmp)
        else:
            case = dict(case)
            case.pop("format", None)
            case.pop("stage", None)
            case["ops"] = [tuple(op) for op in case["ops"]]
            check_object(ctx, drv, case, tmp)
    finally:
        shutil.rmtree(tmp, ignore_errors=True)
