"""C18 - random walks (hypergraphx.dynamics.randwalk) and simplicial contagion
(hypergraphx.dynamics.contagion): correspondence of lean/Hgxv/Model/C18.lean with the real routines
(recorded np.random draws are replayed by the model) and independent property oracles.

The hypergraph OBJECT handed to the routines is reached through a history (`ops`): fresh insertion, constructor /
batched insertion, temporary hyperedges and nodes removed again (id gaps), removal + re-insertion, repeated insertion,
copies (the copy or the original is used, the other one is mutated afterwards), save + load (.json and binary .hgx)
followed by mutations, induced sub-hypergraphs, remove_node(keep_edges), the same object used -> rewired -> used again.
A pure-Python picture of the history (`Sim`) says which content the object must have; the oracles and the model
only see that content."""
import collections
import copy as _copy
import os
import signal
import tempfile
import warnings
from fractions import Fraction

import hgxv
from hgxv import Q

RULE = ("random-walk cases: hypergraphs on nodes 0..N-1 (N 2..7, rarely 1), hyperedge sizes 2-5, built connected by "
        "attaching every new hyperedge to a covered node (12% deliberately disconnected to exercise the assertion); the "
        "Hypergraph object is reached by a generated history (fresh / constructor / add_edges / id gaps by temporary "
        "hyperedges and nodes / removal + re-insertion / repeated insertion / copy-of-mutated-original and "
        "original-of-mutated-copy / save+load .json and .hgx then mutated / subhypergraph / remove_node(keep_edges) / "
        "used -> rewired in place -> used again; 12% weighted); per case the transition matrix, the stationary state, "
        "densities from every unit vector, two random rational and one dyadic density (horizons 0-5, sometimes 8 or 13) "
        "given as exact hgxv.Q object arrays, float64/32/16 arrays, int/uint/bool arrays, Python lists / tuples of "
        "ints, bools, floats, Fractions, a 1xN row; a sampled walk from every start node (int / np.int64 start and "
        "horizon, horizons 0-8, sometimes 30) with np.random.choice recorded. Contagion cases: hypergraphs on 3..8 nodes "
        "(sizes 2-5, mostly 2 and 3, possibly disconnected / isolated nodes / extra keys in I_0; node labels 0..n-1, "
        "integers with gaps, negative, huge, strings), reached by the same histories; random 0/1 initial condition given "
        "as dict / OrderedDict / dict subclass with int, bool, float, np.int64 values (np.int64 keys), rarely with nodes "
        "missing where the routine does not read them (T = 1 or nobody infected); horizon 1-9 (int / np.int64; T = 0 "
        "must be rejected), all 8 rate triples in {0,1}^3 plus 6 random triples (mu=0, beta=beta_D=0, dyadic, arbitrary "
        "floats) passed as int / float / np.float64 / bool / Fraction, np.random.random recorded and replayed by the "
        "model. Distinct = canonical text of the case; non-trivial = non-regular hypergraph (random walk) / trajectory "
        "that changes at >= 2 steps (contagion). Starting densities also with negative entries (signed integer / rational / "
        "dyadic vectors summing to 1, all container kinds) and, on exact Q arrays, entries of 1e-9..1e-320 and 1e6..1e40. "
        "SIZE: per run 6 medium systems (13-1000 nodes, around 64/128/256/512/1000) and 3 large ones (one just above 1000 nodes, "
        "one just above 2000 or 2048, one uniform with overlapping hyperedges above 1000; thorough: 7 "
        "large up to 4156 nodes, 55 medium) generated from a seed stored in the case, reached by ctor / add_edge / "
        "add_edges / id gaps / save+load .hgx .json / copy / used-rewired-used, every routine of both anchors called "
        "(matrix, stationary state, 5 densities incl. signed ones in several container kinds, 3 sampled walks; contagion "
        "with all 8 deterministic triples + 3 random ones, string / gapped labels, possibly cut into pieces) and judged "
        "by sparse oracles built from the hyperedge list; non-trivial = irregular weighted degrees / trajectory changes. "
        "Extension round: per random-walk case 3 matrix powers K**t (t in 0, 1-3, one of 2/4/5/8/13) of the implementation's K "
        "against the model's kPowMat, the last vector of every density run against the model's closed form s @ K**t, three "
        "float starts whose total is off by +-5e-6 / +-9e-6 / 1e-9 (np.isclose accepts) or +-1.2e-5 / +-1e-4 / 0.25 / +-1 "
        "(rejects) against the model's randomWalkDensity, every sampled walk replayed by the model from the uniform draws "
        "behind np.random.choice (inverse cdf); per contagion run a twin run on a dict subclass with a snapshotting copy(): "
        "the infected SET after every sweep against the model's infectedSets")
ASSUMPTIONS = ["nodes are labelled 0..N-1 (random walk) and hyperedges have distinct members (what Hypergraph.get_edges() returns)",
               "N >= 2 for the random-walk clauses (the one-node hypergraph has an all-nan matrix; counted, not judged)",
               "I_0 maps every node of the hypergraph to 0 or 1 (nodes may be missing only when no sweep is run); T >= 1",
               "np.random.choice(n, p=...) returns an index of positive probability; np.random.random() lies in [0, 1)"]
TRUSTED = ["systems above 14 nodes are judged by the property oracles only (float64 sparse products, tolerance 1e-12 relative "
           "to the L1 norm of the start, 1e-9 for the solve); the model's executable definitions are cubic and are not run there",
           "np.linalg.solve (LAPACK gesv) returns the solution of the repaired non-singular system up to rounding: "
           "RW_stationary_state is compared with d/sum(d) within 1e-9",
           "binary64 rounding of T/rowsum and of s @ K: matrices and densities are compared with the exact Rat model "
           "within 1e-12 (densities additionally exactly, on hgxv.Q object arrays, against the implementation's own K)",
           "np.random.choice / np.random.random honour their contracts (recorded draws are replayed, not re-derived)",
           "legacy RandomState.choice(n, p=p) consumes one random_sample() and returns cdf.searchsorted(u, side='right') "
           "(re-checked on every walk by the walku correspondence; draws within 1e-9 of a cdf boundary are skipped)",
           "the pure-Python picture of a history (sets of nodes and hyperedges under add/remove/copy/save+load/"
           "subhypergraph) is what the container operations mean (C01/C08 prove it for the container model)"]
BUDGET_S = {"quick": 50, "thorough": 800}

TOL = 1e-12
TOL_SOLVE = 1e-9


class _Timeout(Exception):
    pass


def _alarm(signum, frame):
    raise _Timeout()


def call(fn, *a, limit=5, **k):
    """run an implementation call; an exception / hang is an observation, never a crash of the harness"""
    old = signal.signal(signal.SIGALRM, _alarm)
    signal.alarm(limit)
    try:
        with warnings.catch_warnings():
            warnings.simplefilter("ignore")
            return ("ok", fn(*a, **k))
    except _Timeout:
        return ("exc", "timeout")
    except BaseException as e:  # noqa: BLE001 - mutated code may raise anything
        if isinstance(e, KeyboardInterrupt):
            raise
        return ("exc", type(e).__name__ + ": " + str(e)[:120])
    finally:
        signal.alarm(0)
        signal.signal(signal.SIGALRM, old)


# ------------------------------------------------------------------------------------------
# generators

def gen_edges(rng, n, connected, sizes):
    """hyperedges (sorted tuples, distinct) on 0..n-1; `connected`: every new one touches a covered node"""
    edges = set()
    if n < 2:
        return []
    covered = set()
    order = list(range(n))
    rng.shuffle(order)
    guard = 0
    while len(covered) < n and guard < 200:
        guard += 1
        k = min(n, rng.choice(sizes))
        if not covered:
            e = rng.sample(order, k)
        else:
            rest = [x for x in order if x not in covered]
            anchor = rng.choice(sorted(covered))
            new = rng.sample(rest, min(len(rest), rng.randint(1, k - 1)))
            fill = [x for x in order if x != anchor and x not in new]
            e = [anchor] + new + rng.sample(fill, max(0, min(len(fill), k - 1 - len(new))))
        edges.add(tuple(sorted(set(e))))
        covered |= set(e)
    for _ in range(rng.randint(0, 4)):
        k = min(n, rng.choice(sizes))
        edges.add(tuple(sorted(rng.sample(order, k))))
    edges = sorted(edges)
    rng.shuffle(edges)
    if not connected and n >= 3:
        # cut: keep only hyperedges inside one of two blocks
        a = set(rng.sample(order, rng.randint(1, n - 1)))
        edges = [e for e in edges if set(e) <= a or not (set(e) & a)]
    return edges


# ------------------------------------------------------------------------------------------
# histories: how the Hypergraph object of a case is reached
#
# ops (JSON lists; nodes are model indices, mapped to the case's labels for the real object):
#   ["new", weighted]                         Hypergraph(weighted=...)
#   ["ctor", [e..], weighted, [w..]|None]     Hypergraph(edge_list=..., weighted=..., weights=...)
#   ["node", x] / ["nodes", [x..]]            add_node / add_nodes
#   ["edge", e, w|None, "t"|"l"]              add_edge(tuple / list in the given member order, weight)
#   ["edges", [e..], [w..]|None]              add_edges
#   ["rm_edge", e] / ["rm_edges", [e..]]      remove_edge / remove_edges
#   ["rm_node", x, keep]                      remove_node(x, keep_edges=keep)
#   ["copy", "use_copy"|"use_orig"]           c = h.copy(); go on with c (h is kept) / with h (c is kept)
#   ["other", j, "edge"|"rm_edge"|"rm_node", arg]   mutate the j-th kept object
#   ["saveload", "json"|"hgx"]                save_hypergraph + load_hypergraph through a temporary file
#   ["sub", [x..]]                            h = h.subhypergraph([x..])
#   ["clear"]                                 h.clear()  (the same object is refilled afterwards)
#   ["use"]                                   call the routines under test on the current object, ignore the results

class Sim:
    """pure-Python picture of a history: per object the set of nodes and the set of hyperedges (sorted tuples)"""

    def __init__(self):
        self.objs = []
        self.cur = None
        self.others = []

    @property
    def nodes(self):
        return self.objs[self.cur][0]

    @property
    def edges(self):
        return self.objs[self.cur][1]


def _s_add(obj, e):
    t = tuple(sorted(e))
    if len(set(t)) != len(t):
        raise RuntimeError("harness bug: hyperedge with repeated members in a history")
    obj[1].add(t)
    obj[0].update(t)


def _s_rm(obj, e):
    obj[1].remove(tuple(sorted(e)))


def _s_rmnode(obj, x, keep):
    if x not in obj[0]:
        raise KeyError(x)
    inc = [e for e in obj[1] if x in e]
    if keep:
        for e in inc:
            obj[1].add(tuple(v for v in e if v != x))
    for e in inc:
        obj[1].discard(e)
    obj[0].discard(x)


def sim_apply(sim, op):
    k = op[0]
    if k == "new":
        sim.objs.append((set(), set()))
        sim.cur = len(sim.objs) - 1
    elif k == "ctor":
        sim.objs.append((set(), set()))
        sim.cur = len(sim.objs) - 1
        for e in op[1]:
            _s_add(sim.objs[sim.cur], e)
    elif k == "node":
        sim.nodes.add(op[1])
    elif k == "nodes":
        sim.nodes.update(op[1])
    elif k == "edge":
        _s_add(sim.objs[sim.cur], op[1])
    elif k == "edges":
        for e in op[1]:
            _s_add(sim.objs[sim.cur], e)
    elif k == "rm_edge":
        _s_rm(sim.objs[sim.cur], op[1])
    elif k == "rm_edges":
        for e in op[1]:
            _s_rm(sim.objs[sim.cur], e)
    elif k == "rm_node":
        _s_rmnode(sim.objs[sim.cur], op[1], op[2])
    elif k == "copy":
        sim.objs.append((set(sim.nodes), set(sim.edges)))
        if op[1] == "use_copy":
            sim.others.append(sim.cur)
            sim.cur = len(sim.objs) - 1
        else:
            sim.others.append(len(sim.objs) - 1)
    elif k == "other":
        obj = sim.objs[sim.others[op[1]]]
        if op[2] == "edge":
            _s_add(obj, op[3])
        elif op[2] == "rm_edge":
            _s_rm(obj, op[3])
        else:
            _s_rmnode(obj, op[3], False)
    elif k == "saveload":
        sim.objs.append((set(sim.nodes), set(sim.edges)))
        sim.cur = len(sim.objs) - 1
    elif k == "sub":
        keep = set(op[1])
        if not keep <= sim.nodes:
            raise KeyError(op)
        sim.objs.append((set(keep), {e for e in sim.edges if set(e) <= keep}))
        sim.cur = len(sim.objs) - 1
    elif k == "clear":
        sim.nodes.clear()
        sim.edges.clear()
    elif k == "use":
        pass
    else:
        raise ValueError(op)


def content_of(ops):
    sim = Sim()
    for op in ops:
        sim_apply(sim, op)
    return sorted(sim.nodes), sorted(sim.edges)


def fresh_ops(edges, node_order):
    return [["new", False]] + [["node", x] for x in node_order] + [["edge", list(e), None, "t"] for e in edges]


def legacy_ops(case):
    """cases stored before histories existed: `edges`, `node_order` and the optional earlier content `warm`"""
    edges, warm = [list(e) for e in case["edges"]], case.get("warm")
    if not warm:
        return fresh_ops(edges, case["node_order"])
    ops = fresh_ops(warm, case["node_order"]) + [["use"]]
    ws, es = {tuple(sorted(e)) for e in warm}, {tuple(sorted(e)) for e in edges}
    return ops + [["rm_edge", list(e)] for e in sorted(ws - es)] + [["edge", list(e), None, "t"] for e in sorted(es - ws)]


def run_history(case, use_cb=None):
    """execute the history on the real code; returns the Hypergraph object the case is about"""
    from hypergraphx import Hypergraph
    from hypergraphx.readwrite.load import load_hypergraph
    from hypergraphx.readwrite.save import save_hypergraph
    labels = case.get("labels")
    L = (lambda x: labels[x]) if labels else (lambda x: x)
    LE = lambda e: tuple(L(v) for v in e)  # noqa: E731
    h, others = None, []
    for op in case["ops"]:
        k = op[0]
        if k == "new":
            h = Hypergraph(weighted=bool(op[1]))
        elif k == "ctor":
            h = Hypergraph(edge_list=[LE(e) for e in op[1]], weighted=bool(op[2]), weights=op[3])
        elif k == "node":
            h.add_node(L(op[1]))
        elif k == "nodes":
            h.add_nodes([L(x) for x in op[1]])
        elif k == "edge":
            e = LE(op[1])
            h.add_edge(list(e) if op[3] == "l" else e, weight=op[2])
        elif k == "edges":
            h.add_edges([LE(e) for e in op[1]], weights=op[2])
        elif k == "rm_edge":
            h.remove_edge(LE(op[1]))
        elif k == "rm_edges":
            h.remove_edges([LE(e) for e in op[1]])
        elif k == "rm_node":
            h.remove_node(L(op[1]), keep_edges=bool(op[2]))
        elif k == "copy":
            c = h.copy()
            if op[1] == "use_copy":
                others.append(h)
                h = c
            else:
                others.append(c)
        elif k == "other":
            o = others[op[1]]
            if op[2] == "edge":
                o.add_edge(LE(op[3]), weight=2.5 if o.is_weighted() else None)
            elif op[2] == "rm_edge":
                o.remove_edge(LE(op[3]))
            else:
                o.remove_node(L(op[3]))
        elif k == "saveload":
            with tempfile.TemporaryDirectory(prefix="hgxv-c18-") as d:
                fn = os.path.join(d, "h." + op[1])
                save_hypergraph(h, fn, binary=(op[1] == "hgx"))
                h = load_hypergraph(fn)
        elif k == "sub":
            h = h.subhypergraph([L(x) for x in op[1]])
        elif k == "clear":
            h.clear()
        elif k == "use":
            if use_cb is not None:
                use_cb(h)
        else:
            raise ValueError(op)
    return h, others


def _pick(rng, table):
    r = rng.random() * sum(w for _, w in table)
    for name, w in table:
        r -= w
        if r < 0:
            return name
    return table[-1][0]


ROUTES = [("fresh", 20), ("ctor", 6), ("warm", 13), ("gaps", 9), ("reinsert", 8), ("copy", 12), ("json", 9), ("hgx", 11),
          ("sub", 4), ("keep", 3), ("mixed", 5)]


def gen_history(rng, n, node_order, edges, route=None):
    """a history whose final object has nodes 0..n-1 and exactly the hyperedges `edges`; returns (route, ops)"""
    tgt = {tuple(sorted(e)) for e in edges}
    route = route or _pick(rng, ROUTES)
    if n < 2 or route == "fresh":
        return "fresh", fresh_ops(edges, node_order)
    weighted = rng.random() < 0.12
    sim, ops = Sim(), []

    def do(op):
        sim_apply(sim, op)
        ops.append(op)

    def wt():
        return rng.choice([0.5, 1, 2, 3.25]) if weighted else None

    def shuffled(e):
        e = list(e)
        rng.shuffle(e)
        return e

    def add(e):
        do(["edge", shuffled(e), wt(), rng.choice("ttl")])

    # ---- what the object contains before the stages
    temps_n = {"gaps": rng.randint(1, 4), "copy": rng.randint(0, 2), "json": rng.randint(0, 2), "hgx": rng.randint(0, 2),
               "sub": rng.randint(1, 3), "keep": rng.randint(1, 3), "mixed": rng.randint(0, 3)}.get(route, 0)
    p_keep = {"copy": 0.8, "json": 0.6, "hgx": 0.6, "mixed": 0.7}.get(route, 1.0)
    extra_nodes = route in ("sub", "keep") or (temps_n > 0 and rng.random() < 0.35)
    pool = list(range(n + 2)) if extra_nodes else list(range(n))
    pre = [e for e in sorted(tgt) if rng.random() < p_keep]
    if route in ("json", "hgx") and len(pre) == len(tgt) and pre:
        pre.pop(rng.randrange(len(pre)))          # something is left to add after loading
    rng.shuffle(pre)
    if route == "warm":
        # same numbers of nodes and hyperedges before and after the rewiring
        for _ in range(10):
            e2 = tuple(sorted(rng.sample(range(n), min(n, rng.choice([2, 2, 3])))))
            if e2 not in tgt and pre:
                pre[rng.randrange(len(pre))] = e2
                break
    temps = []
    first = node_order[:rng.randint(0, n)] if route != "warm" else list(node_order)
    style = rng.random()
    if style < 0.3 or route == "ctor":
        seq = [tuple(e) for e in pre]
        for _ in range(temps_n):
            cand = tuple(sorted(rng.sample(pool, min(len(pool), rng.choice([2, 2, 3, 3, 4])))))
            if cand not in tgt and cand not in seq:
                seq.append(cand)
        rng.shuffle(seq)
        do(["ctor", [list(e) for e in seq], weighted, [wt() for _ in seq] if weighted and rng.random() < 0.7 else None])
        if first:
            do(["nodes", list(first)]) if rng.random() < 0.5 else [do(["node", x]) for x in first]
    else:
        do(["new", weighted])
        if first:
            do(["nodes", list(first)]) if rng.random() < 0.3 else [do(["node", x]) for x in first]
        seq = [tuple(e) for e in pre]
        for _ in range(temps_n):
            cand = tuple(sorted(rng.sample(pool, min(len(pool), rng.choice([2, 2, 3, 3, 4])))))
            if cand not in tgt and cand not in seq:
                seq.insert(rng.randint(0, len(seq)), cand)
        if style < 0.5 and seq:
            do(["edges", [list(e) for e in seq], [wt() for _ in seq] if weighted else None])
        else:
            for e in seq:
                add(e)

    def moves(k):
        for _ in range(k):
            missing = sorted(tgt - sim.edges)
            extra = sorted(sim.edges - tgt)
            present = sorted(tgt & sim.edges)
            m = rng.random()
            if m < 0.35 and missing:
                add(rng.choice(missing))
            elif m < 0.55 and extra:
                do(["rm_edge", shuffled(rng.choice(extra))])
            elif m < 0.8 and present:
                e = rng.choice(present)
                do(["rm_edge", list(e)])
                if rng.random() < 0.8:
                    add(e)
            elif present:
                add(rng.choice(present))           # repeated insertion of a stored hyperedge

    def stage(name):
        if name == "reinsert":
            present = sorted(tgt & sim.edges)
            if present:
                out = rng.sample(present, min(len(present), rng.randint(1, 3)))
                if len(out) > 1 and rng.random() < 0.4:
                    do(["rm_edges", [list(e) for e in out]])
                else:
                    for e in out:
                        do(["rm_edge", shuffled(e)])
                rng.shuffle(out)
                for e in out:
                    add(e)
                if rng.random() < 0.4:
                    add(rng.choice(present))
        elif name in ("json", "hgx"):
            do(["saveload", name])
        elif name == "copy":
            do(["copy", rng.choice(["use_copy", "use_orig"])])
        elif name == "sub":
            keep = [x for x in sorted(sim.nodes) if x < n or rng.random() < 0.3]
            rng.shuffle(keep)
            do(["sub", keep])
        elif name == "keep":
            for x in sorted(sim.nodes):
                if x >= n:
                    do(["rm_node", x, True])
        elif name == "use":
            do(["use"])
        elif name == "clear":
            do(["use"])
            do(["clear"])

    stages = {"ctor": [], "warm": ["use"], "gaps": [], "reinsert": ["reinsert"], "copy": ["copy"], "json": ["json"],
              "hgx": ["hgx"], "sub": ["sub"], "keep": ["keep"]}.get(route)
    if stages is None:
        stages = [rng.choice(["reinsert", "json", "hgx", "copy", "sub", "use", "keep", "clear"]) for _ in range(rng.randint(2, 3))]
    if route in ("json", "hgx", "copy") and rng.random() < 0.3:
        stages = [rng.choice(["reinsert", "use"])] + stages
    for s in stages:
        if route not in ("warm", "ctor", "gaps"):
            moves(rng.randint(0, 1))
        stage(s)
        if route not in ("warm", "ctor", "gaps"):
            moves(rng.randint(0, 2))
    # ---- reach the target content
    for x in sorted(sim.nodes):
        if x >= n:
            do(["rm_node", x, rng.random() < 0.4])
    extra = sorted(sim.edges - tgt)
    rng.shuffle(extra)
    if len(extra) > 1 and rng.random() < 0.3:
        do(["rm_edges", [list(e) for e in extra]])
    else:
        for e in extra:
            do(["rm_edge", shuffled(e)])
    missing = sorted(tgt - sim.edges)
    rng.shuffle(missing)
    for e in missing:
        add(e)
    for x in node_order:
        if x not in sim.nodes:
            do(["node", x])
    # ---- the kept objects (the other side of every copy) are mutated afterwards
    for j, idx in enumerate(sim.others):
        for _ in range(rng.randint(1, 3)):
            onodes, oedges = sorted(sim.objs[idx][0]), sorted(sim.objs[idx][1])
            m = rng.random()
            if m < 0.45 and len(onodes) >= 2:
                pool2 = sorted(set(onodes) | {n + 2})
                do(["other", j, "edge", rng.sample(pool2, min(len(pool2), rng.choice([2, 3])))])
            elif m < 0.8 and oedges:
                do(["other", j, "rm_edge", list(rng.choice(oedges))])
            elif onodes:
                do(["other", j, "rm_node", rng.choice(onodes)])
    if (sorted(sim.nodes), sim.edges) != (list(range(n)), tgt):
        raise RuntimeError("harness bug: history does not reach the target content")
    return route, ops


def is_connected_oracle(n, edges):
    if n == 0:
        return True
    seen, todo = {0}, [0]
    while todo:
        v = todo.pop()
        for e in edges:
            if v in e:
                for u in e:
                    if u not in seen:
                        seen.add(u)
                        todo.append(u)
    return len(seen) == n


def frac_of(x):
    if isinstance(x, (Fraction, int)):
        return Fraction(x)
    return Fraction(float(x))


def make_start(np, kind, s):
    """the starting density `s` (Fractions) in one of the forms a user may hand to random_walk_density"""
    if kind == "Q":
        return np.array([Q(x) for x in s], dtype=object)
    if kind in ("f64", "f32", "f16"):
        return np.array([float(x) for x in s], dtype={"f64": np.float64, "f32": np.float32, "f16": np.float16}[kind])
    if kind in ("i64", "i32", "i8", "u8"):
        return np.array([int(x) for x in s], dtype={"i64": np.int64, "i32": np.int32, "i8": np.int8, "u8": np.uint8}[kind])
    if kind == "bool":
        return np.array([bool(x) for x in s])
    if kind == "list_int":
        return [int(x) for x in s]
    if kind == "tuple_int":
        return tuple(int(x) for x in s)
    if kind == "list_bool":
        return [bool(x) for x in s]
    if kind == "list_float":
        return [float(x) for x in s]
    if kind == "tuple_float":
        return tuple(float(x) for x in s)
    if kind == "list_frac":
        return [Fraction(x) for x in s]
    if kind == "row":
        return np.array([[float(x) for x in s]])
    raise ValueError(kind)


def close(a, b, tol):
    return abs(frac_of(a) - frac_of(b)) <= Fraction(tol)


# ------------------------------------------------------------------------------------------
# random walk

def prepare(case):
    """fill in `ops` for cases stored in the old format and check the case against its own history"""
    if "ops" not in case:
        case = {**case, "ops": legacy_ops(case)}
    nodes, edges = content_of(case["ops"])
    return case, nodes, edges


def content_check(ctx, case, h, nodes, E):
    """the object reached by the history must list the nodes and hyperedges of the history's content"""
    labels = case.get("labels")
    L = (lambda x: labels[x]) if labels else (lambda x: x)
    st, got = call(lambda: (sorted(h.get_nodes(), key=repr), sorted((tuple(sorted(e)) for e in h.get_edges()), key=repr)))
    want = (sorted((L(x) for x in nodes), key=repr), sorted((tuple(sorted(L(v) for v in e)) for e in E), key=repr))
    if st != "ok" or got != want:
        ctx.disagree(case, f"the object reached by the history lists nodes/hyperedges {str(got)[:160]}, the history means {str(want)[:160]}")
        return False
    return True


def check_rw(ctx, drv, case):
    import numpy as np
    from hypergraphx.dynamics import randwalk as RW
    case, nodes_c, edges = prepare(case)
    n, npseed = case["N"], case["npseed"]
    if nodes_c != list(range(n)):
        raise RuntimeError("harness bug: random-walk case whose history does not end on nodes 0..N-1")
    rng_local = __import__("random").Random(npseed)

    def use(h):
        # the SAME object is used (every routine called once) before it is changed further:
        # results must depend on the current content only
        ctx.count("rw_used_before_mutation")
        call(RW.transition_matrix, h)
        call(RW.RW_stationary_state, h)
        call(RW.random_walk_density, h, np.array([1.0] + [0.0] * (h.num_nodes() - 1)), 1)
        call(RW.random_walk, h, 0, 1)

    st, res = call(run_history, case, use)
    if st != "ok":
        ctx.violation(case, f"building the hypergraph through its history failed: {res}")
        return
    h, _kept = res
    ctx.count("rw_route_" + case.get("route", "legacy"))
    if not content_check(ctx, case, h, nodes_c, edges):
        return
    E = sorted(tuple(sorted(e)) for e in edges)
    conn = is_connected_oracle(n, E)
    # the property's closed forms, straight from the hyperedge list
    shared = [[sum(len(e) - 1 for e in E if i in e and j in e) if i != j else 0 for j in range(n)] for i in range(n)]
    d = [sum((len(e) - 1) ** 2 for e in E if i in e) for i in range(n)]
    regular = len(set(d)) <= 1
    key = "rw|" + repr((n, E, case["ops"]))
    ctx.case(key, conn and n >= 2 and not regular, sample=case)
    ctx.count("rw_cases")
    ctx.count("rw_connected" if conn else "rw_disconnected")
    lines = ["load %d %s" % (n, hgxv.enc_lists(E))]
    expect = [("plain", "ok")]

    st, Ksp = call(RW.transition_matrix, h)
    if not conn:
        # outside the property's quantifier; the routine's assertion is part of the model, so only correspondence
        lines.append("tm")
        expect.append(("plain", "rej" if st != "ok" else "accepted-a-disconnected-hypergraph"))
        _ask(ctx, drv, case, lines, expect)
        return
    if st != "ok":
        ctx.violation(case, f"transition_matrix raised on a connected hypergraph: {Ksp}")
        return
    st, K = call(lambda: np.array(Ksp.todense(), dtype=float))
    if st != "ok" or K.shape != (n, n):
        ctx.violation(case, f"transition_matrix did not return an N x N matrix: {K if st != 'ok' else K.shape}")
        return
    if n == 1:
        # outside the quantifier (no hyperedge of size 2..5 exists): counted, not judged
        ctx.count("rw_single_node_nan" if np.isnan(K).all() else "rw_single_node_other")
        return
    # --- oracles on K
    bad = False
    if not np.isfinite(K).all():
        ctx.violation(case, "transition matrix has non-finite entries")
        return
    for i in range(n):
        if not close(sum(Fraction(float(x)) for x in K[i]), 1, TOL):
            ctx.violation(case, f"row {i} of the transition matrix sums to {float(K[i].sum())!r}, not 1"); bad = True
        for j in range(n):
            if K[i, j] < 0:
                ctx.violation(case, f"K[{i}][{j}] = {float(K[i, j])} < 0"); bad = True
            if not close(K[i, j], Fraction(shared[i][j], d[i]), TOL):
                ctx.violation(case, f"K[{i}][{j}] = {float(K[i, j])!r}, but sum over shared hyperedges of (size-1) / row total = "
                                    f"{shared[i][j]}/{d[i]}"); bad = True
            if (K[i, j] > 0) != (i != j and any(i in e and j in e for e in E)):
                ctx.violation(case, f"K[{i}][{j}] = {float(K[i, j])!r} but nodes {i},{j} "
                                    f"{'share' if shared[i][j] else 'do not share'} a hyperedge"); bad = True
        if bad:
            break
    lines.append("tm")
    expect.append(("matrix", K.tolist(), TOL))
    # extension round: the model's matrix powers against powers of the implementation's own K
    for tpow in sorted({0, rng_local.randint(1, 3), rng_local.choice([2, 4, 5, 8, 13])}):
        st_p, Kp = call(lambda: np.linalg.matrix_power(K, tpow))
        if st_p == "ok":
            ctx.count("kpow_lines")
            lines.append("kpow %d" % tpow)
            expect.append(("matrix", Kp.tolist(), TOL * (tpow + 1)))
    # --- stationary state
    st, pi = call(RW.RW_stationary_state, h)
    if st != "ok":
        ctx.violation(case, f"RW_stationary_state raised on a connected hypergraph: {pi}")
    else:
        pi = np.asarray(pi, dtype=float).reshape(-1)
        if pi.shape != (n,) or not np.isfinite(pi).all():
            ctx.violation(case, f"RW_stationary_state returned {pi!r}, not a finite vector of length N")
        else:
            sd = sum(d)
            if not close(sum(Fraction(float(x)) for x in pi), 1, TOL_SOLVE):
                ctx.violation(case, f"stationary state sums to {float(pi.sum())!r}")
            if any(x < -TOL_SOLVE for x in pi):
                ctx.violation(case, f"stationary state has a negative entry: {pi.tolist()}")
            piK = [sum(Fraction(float(pi[i])) * Fraction(float(K[i, j])) for i in range(n)) for j in range(n)]
            if any(not close(piK[j], pi[j], TOL_SOLVE) for j in range(n)):
                ctx.violation(case, f"stationary state is not fixed by the transition matrix: pi = {pi.tolist()}, "
                                    f"pi K = {[float(x) for x in piK]}")
            if any(not close(pi[i], Fraction(d[i], sd), TOL_SOLVE) for i in range(n)):
                ctx.violation(case, f"stationary state {pi.tolist()} is not proportional to sum over hyperedges of "
                                    f"(size-1)^2 = {d}")
            lines.append("stat")
            expect.append(("vector", pi.tolist(), TOL_SOLVE))
    # --- densities: every kind of starting vector the routine accepts
    starts = []
    for i in range(n):
        starts.append(("unit", [Fraction(int(i == k)) for k in range(n)]))
    for _ in range(2):
        w = [rng_local.randint(0, 4) for _ in range(n)]
        if sum(w) == 0:
            w[rng_local.randrange(n)] = 1
        starts.append(("rational", [Fraction(x, sum(w)) for x in w]))
    w = [0] * n
    for _ in range(16):
        w[rng_local.randrange(n)] += 1
    starts.append(("dyadic", [Fraction(x, 16) for x in w]))
    # every sign / zero pattern the routine accepts (its only precondition is np.isclose(sum(s), 1)): signed integer
    # vectors, signed rationals, signed dyadics, entries far below / above 1 (exact arithmetic only)
    w = [rng_local.randint(-3, 4) if rng_local.random() < 0.7 else 0 for _ in range(n)]
    w[rng_local.randrange(n)] = -rng_local.randint(1, 3)
    k = rng_local.randrange(n)
    w[k] += 1 - sum(w)
    if all(x >= 0 for x in w):
        w[k] += 1
        w[(k + 1) % n] -= 1
    starts.append(("signed_int", [Fraction(x) for x in w]))
    for _ in range(2):
        w = [rng_local.randint(-4, 4) for _ in range(n)]
        w[rng_local.randrange(n)] = -rng_local.randint(1, 4)
        if max(w) <= 0:
            w[rng_local.randrange(n)] = rng_local.randint(1, 4)      # both signs present (n >= 2)
            if min(w) >= 0:
                w[[i for i in range(n) if w[i] <= 0][0]] = -1
        if sum(w) == 0:
            w[w.index(max(w))] += 1
        den = rng_local.choice([sum(w), sum(w)])
        starts.append(("signed", [Fraction(x, den) for x in w]))
    w = [rng_local.randint(-12, 12) for _ in range(n)]
    w[0] += 16 - sum(w)
    if all(x >= 0 for x in w):
        w[0] += 1
        w[1] -= 1
    rng_local.shuffle(w)
    starts.append(("signed_dyadic", [Fraction(x, 16) for x in w]))
    eps = Fraction(1, 10 ** rng_local.choice([9, 13, 17, 30, 320]))
    w = [eps * rng_local.choice([1, 1, -1, 2, 0]) for _ in range(n)]
    k = rng_local.randrange(n)
    w[k] += 1 - sum(w)
    starts.append(("tiny", w))
    big = 10 ** rng_local.choice([6, 16, 20, 40])
    w = [Fraction(0)] * n
    a, b = rng_local.sample(range(n), 2)
    w[a], w[b] = Fraction(big), Fraction(1 - big)
    starts.append(("huge", w))
    Kq = [[Fraction(float(K[i, j])) for j in range(n)] for i in range(n)]
    for idx, (shape, s) in enumerate(starts):
        if ctx.too_many():
            break
        kinds = ["Q"] * 4 + ["f64"] * 2 + ["list_float", "tuple_float", "list_frac", "row"]
        if shape in ("unit", "dyadic", "signed_int", "signed_dyadic"):
            kinds += ["f32", "f16"]
        if shape == "unit":
            kinds += ["i64", "i64", "i32", "i8", "u8", "bool", "bool", "list_int", "list_int", "list_bool", "tuple_int"] * 1
        if shape == "signed_int":
            kinds += ["i64", "i64", "i32", "i8", "list_int", "list_int", "tuple_int"]
        if shape in ("tiny", "huge"):
            kinds = ["Q"]                          # exact arithmetic only: binary64 cannot hold these next to 1
        kind = rng_local.choice(kinds)
        ctx.count("density_shape_" + shape)
        time = rng_local.choice([0, 1, 2, 3, 4, 5] * 4 + [8, 13]) if kind != "Q" else rng_local.randint(0, 5)
        targ = np.int64(time) if rng_local.random() < 0.15 else time
        st, out = call(RW.random_walk_density, h, make_start(np, kind, s), targ)
        if st != "ok" and kind == "Q" and shape not in ("tiny", "huge"):
            kind = "f64"
            st, out = call(RW.random_walk_density, h, make_start(np, kind, s), targ)
        exact = kind == "Q"
        # binary64 rounding of K (rows sum to 1 within ~1e-16) and of the products is relative to the size of the vector
        tol_s = TOL * max(1, sum(abs(x) for x in s))
        ctx.count("density_start_" + kind)
        c2 = {**case, "density": [hgxv.enc_num(x) for x in s], "density_kind": kind, "time": time}
        if st != "ok":
            ctx.violation(c2, f"random_walk_density raised on a starting density given as {kind}: {out}")
            continue
        try:
            out = [[frac_of(x) for x in np.asarray(v).reshape(-1)] for v in out]
        except Exception as e:  # noqa: BLE001
            ctx.violation(c2, f"random_walk_density returned something that is not a list of vectors: {e}")
            continue
        if len(out) != time + 1 or any(len(v) != n for v in out):
            ctx.violation(c2, f"random_walk_density returned {len(out)} vectors for time={time}")
            continue
        if any(not close(a, b, 0 if exact else tol_s) for a, b in zip(out[0], s)):
            ctx.violation(c2, "the first density is not the starting density")
        for t in range(time):
            want = [sum(out[t][i] * Kq[i][j] for i in range(n)) for j in range(n)]
            if any(not close(a, b, 0 if exact else tol_s) for a, b in zip(out[t + 1], want)):
                ctx.violation(c2, f"density {t+1} is not density {t} times the transition matrix (start given as {kind}): "
                                  f"{[float(x) for x in out[t+1]]} vs {[float(x) for x in want]}")
                break
        for t in range(time + 1):
            if not close(sum(out[t]), 1, tol_s):
                ctx.violation(c2, f"density {t} sums to {float(sum(out[t]))!r} (start given as {kind})")
                break
        lines.append("dens %s %d" % (hgxv.enc_list(s), time))
        expect.append(("matrix", out, tol_s))
        # extension round: the last vector is the start times K ** time (closed form of the model, C18_density_power)
        lines.append("denst %s %d" % (hgxv.enc_list(s), time))
        expect.append(("vector", out[time], tol_s * (time + 1)))
        ctx.count("denst_lines")
    # --- extension round: starts whose total is not exactly one - the routine's own precondition is np.isclose(sum(s), 1)
    # (|sum - 1| <= 1e-8 + 1e-5); outside the property's quantifier, so only correspondence with the model's
    # `randomWalkDensity` (raises <=> `rej`; the accepted ones propagate like every other vector)
    for delta in rng_local.sample([5e-6, -5e-6, 9e-6, -9e-6, 1e-9, 1.2e-5, -1.2e-5, 1e-4, -1e-4, 1.0, -1.0, 0.25], 3):
        if ctx.too_many():
            break
        w = [rng_local.randint(0, 4) for _ in range(n)]
        if sum(w) == 0:
            w[0] = 1
        sf = [float(Fraction(x, sum(w))) for x in w]
        sf[rng_local.randrange(n)] += delta
        kind = rng_local.choice(["f64", "f64", "list_float", "tuple_float"])
        time = rng_local.randint(0, 4)
        sx = [Fraction(x) for x in sf]
        st, out = call(RW.random_walk_density, h, make_start(np, kind, sx), time)
        ctx.count("rwd_offtotal_" + ("accepted" if st == "ok" else "rejected"))
        lines.append("rwd %s %d" % (hgxv.enc_list(sx), time))
        if st != "ok":
            expect.append(("plain", "rej"))
        else:
            try:
                out = [[frac_of(x) for x in np.asarray(v).reshape(-1)] for v in out]
                expect.append(("matrix", out, TOL * max(1, sum(abs(x) for x in sx))))
            except Exception as e:  # noqa: BLE001
                expect.append(("plain", f"not-a-list-of-vectors: {e}"))
    # --- sampled walks
    for s in range(n):
        if ctx.too_many():
            break
        time = rng_local.randint(0, 8) if rng_local.random() > 0.04 else 30
        c2 = {**case, "start": s, "time": time}
        sarg = np.int64(s) if rng_local.random() < 0.2 else s
        targ = np.int64(time) if rng_local.random() < 0.15 else time
        rec = hgxv.Recorder()
        with rec:
            rec.patch(np.random, "choice", "np-global")
            np.random.seed(npseed + s)
            st, nodes = call(RW.random_walk, h, sarg, targ)
        if st != "ok":
            ctx.violation(c2, f"random_walk raised: {nodes}")
            continue
        try:
            nodes = [int(x) for x in nodes]
            draws = [int(x[-1]) for x in rec.log]
        except Exception as e:  # noqa: BLE001
            ctx.violation(c2, f"random_walk returned non-integer nodes: {e}")
            continue
        if len(nodes) != time + 1 or nodes[:1] != [s]:
            ctx.violation({**c2, "walk": nodes}, f"walk from {s} for {time} steps returned {nodes}")
            continue
        for a, b in zip(nodes, nodes[1:]):
            if not (0 <= b < n and a != b and any(a in e and b in e for e in E)):
                ctx.violation({**c2, "walk": nodes}, f"the walk steps from {a} to {b}, which share no hyperedge")
                break
        ctx.count("walk_steps", time)
        lines.append("walk %d %s" % (s, hgxv.enc_list(draws)))
        expect.append(("plain", hgxv.enc_list(nodes)))
        # extension round: the walk as a function of the uniform draws behind np.random.choice (legacy RandomState.choice:
        # one random_sample() per call, index = cdf.searchsorted(u, side='right')); the model's `walkU` replays them
        st_u, us = call(lambda: (np.random.seed(npseed + s), [Fraction(float(np.random.random_sample())) for _ in range(time)])[1])
        if st_u == "ok":
            safe = True
            for a, u in zip(nodes, us):
                acc = Fraction(0)
                for j in range(n):
                    acc += Fraction(shared[a][j], d[a]) if 0 <= a < n else 0
                    if abs(acc - u) < Fraction(1, 10 ** 9):
                        safe = False          # a draw on a cdf boundary: binary64 cumsum and exact cumsum may differ
            if safe:
                ctx.count("walku_lines")
                lines.append("walku %d %s" % (s, hgxv.enc_list(us)))
                expect.append(("plain", hgxv.enc_list(nodes)))
            else:
                ctx.count("walku_skipped_boundary_draw")
    _ask(ctx, drv, case, lines, expect)


def _ask(ctx, drv, case, lines, expect):
    if drv is None:
        return
    ans = drv.batch(lines)
    for ln, a, ex in zip(lines, ans, expect):
        ok = True
        if ex[0] == "plain":
            ok = a == ex[1]
        elif ex[0] in ("matrix", "vector"):
            try:
                got = hgxv.dec_lists(a) if ex[0] == "matrix" else [hgxv.dec_list(a)]
                want = ex[1] if ex[0] == "matrix" else [ex[1]]
                ok = len(got) == len(want) and all(
                    len(r) == len(w) and all(close(x, y, ex[2]) for x, y in zip(r, w)) for r, w in zip(got, want))
            except Exception:  # noqa: BLE001
                ok = False
        if not ok:
            ctx.disagree({**case, "line": ln}, f"model answers {a[:200]!r} to {ln[:120]!r}, implementation gives {str(ex[1])[:200]}")


# ------------------------------------------------------------------------------------------
# contagion

def spread_oracle(E, nodes, I, T, b, bd, mu):
    """the deterministic regimes in the property's words (rates in {0,1}); counts of infected per step"""
    counts = [0] * T
    counts[0] = sum(I.values())
    t = 1
    while counts[t - 1] > 0 and t < T:
        new = dict(I)
        for v in nodes:
            if I[v] == 0:
                by_pair = b == 1 and any(len(e) == 2 and v in e and all(I[u] == 1 for u in e if u != v) for e in E)
                by_tri = bd == 1 and any(len(e) == 3 and v in e and all(I[u] == 1 for u in e if u != v) for e in E)
                new[v] = 1 if (by_pair or by_tri) else 0
            else:
                new[v] = 0 if mu == 1 else 1
        I = new
        counts[t] = sum(I.values())
        t += 1
    return counts


def rate_triples(rng):
    out = [(b, bd, mu) for b in (0, 1) for bd in (0, 1) for mu in (0, 1)]
    r8 = lambda: rng.randint(1, 7) / 8  # noqa: E731
    out += [(r8(), r8(), 0), (rng.random(), 0, 0.0), (0, 0, r8()), (0.0, 0, rng.random()),
            (r8(), r8(), r8()), (rng.random(), rng.random(), rng.random())]
    return out


class BoundaryDraws:
    """stand-in for np.random.random: genuine draws mixed with the boundary values of its contract [0, 1) and of the
    comparisons `draw < rate` (0.0, the rates themselves, their float neighbours, the largest float below 1)"""

    def __init__(self, np, seed, rates):
        self.rs = np.random.RandomState(seed % (2 ** 32))
        vals = {0.0, 1.0 - 2.0 ** -53}
        for r in rates:
            r = float(r)
            for v in (r, float(np.nextafter(r, 0.0)), float(np.nextafter(r, 1.0))):
                if 0.0 <= v < 1.0:
                    vals.add(v)
        self.vals = sorted(vals)

    def __call__(self):
        u = float(self.rs.random_sample())
        if u < 0.35:
            return self.vals[int(self.rs.randint(len(self.vals)))]
        return float(self.rs.random_sample())


class _PlainSubclass(dict):
    """a user's own dict subclass as initial condition"""


class _SpyDict(dict):
    """a dict subclass whose copy() returns the same kind of object and records the values at that moment: the routine's
    `I_old = I_0.copy()`, `I_new = I_old.copy()`, `I_old = I_new.copy()` then leave the state after every sweep in `log`"""

    def __init__(self, items=(), log=None):
        super().__init__(items)
        self._log = log if log is not None else []

    def copy(self):
        self._log.append(list(self.values()))
        return _SpyDict(list(self.items()), self._log)


def real_rate(np, x, rt):
    if rt == "float":
        return float(x)
    if rt == "np":
        return np.float64(x)
    if rt == "bool01":
        return bool(x) if x in (0, 1) else x
    if rt == "frac":
        return Fraction(x)
    return x


def real_I0(np, case, pairs, L):
    conv = {"int": int, "bool": bool, "float": float, "npint": np.int64}[case.get("I0_values", "int")]
    keyf = (lambda k: np.int64(L(k))) if case.get("I0_npkeys") and isinstance(L(pairs[0][0]), int) else L
    items = [(keyf(k), conv(v)) for k, v in pairs]
    ct = case.get("I0_type", "dict")
    if ct == "OrderedDict":
        return collections.OrderedDict(items)
    if ct == "subclass":
        return _PlainSubclass(items)
    return dict(items)


def check_cont(ctx, drv, case):
    import numpy as np
    from hypergraphx.dynamics.contagion import simplicial_contagion
    case, nodes_c, edges = prepare(case)
    labels = case.get("labels")
    L = (lambda x: labels[x]) if labels else (lambda x: x)
    pairs = [(int(k), int(v)) for k, v in (case["I0"].items() if isinstance(case["I0"], dict) else case["I0"])]
    I0 = dict(pairs)
    T, npseed = case["T"], case["npseed"]

    def use(h):
        ctx.count("contagion_used_before_mutation")
        call(simplicial_contagion, h, {x: 1 for x in h.get_nodes()}, 3, 1, 1, 0)
        call(simplicial_contagion, h, {x: 0 for x in h.get_nodes()}, 2, 0.5, 0.5, 0.5)

    st, res = call(run_history, case, use)
    if st != "ok":
        ctx.violation(case, f"building the hypergraph through its history failed: {res}")
        return
    h, _kept = res
    ctx.count("contagion_route_" + case.get("route", "legacy"))
    ctx.count("contagion_labels_" + case.get("label_kind", "id"))
    E = sorted(tuple(sorted(e)) for e in edges)
    if not content_check(ctx, case, h, nodes_c, E):
        return
    back = {repr(L(x)): x for x in set(nodes_c) | set(I0)}
    st, nodes = call(lambda: [back[repr(x)] for x in h.get_nodes()])
    if st != "ok":
        ctx.violation(case, f"get_nodes of the hypergraph failed / returned unknown nodes: {nodes}")
        return
    keys = list(I0)
    N = len(I0)
    inf0 = [k for k in keys if I0[k] == 1]
    missing = [x for x in nodes_c if x not in I0]
    if missing:
        ctx.count("contagion_nodes_missing_in_I0")
    if case.get("boundary_draws"):
        ctx.count("contagion_boundary_draw_cases")
    if missing and not (T <= 1 or not inf0):
        # outside the quantifier: a node without initial condition would be read by the first sweep
        ctx.count("contagion_missing_nodes_outside")
        return
    # the spreading is judged on the nodes of the history's content, I_0 completed by "susceptible" where no sweep reads it
    I0_full = {**{x: 0 for x in missing}, **I0}
    lines = ["load %d %s" % (max(keys + nodes_c + [0]) + 1, hgxv.enc_lists(E))]
    expect = [("plain", "ok")]
    changes_max = 0
    Targ = np.int64(T) if case.get("T_np") else T
    rt = case.get("rate_type", "asis")
    if T == 0:
        # outside the quantifier (no first entry exists): the routine must reject, as the model does
        ctx.count("contagion_T0")
        st, out = call(simplicial_contagion, h, real_I0(np, case, pairs, L), Targ, 1, 1, 0)
        if st == "ok":
            ctx.disagree(case, f"T = 0 is accepted and returns {str(out)[:80]}; the model rejects it")
        return
    for (b, bd, mu) in [tuple(r) for r in case["rates"]]:
        if ctx.too_many():
            break
        c2 = {**case, "rates": [[b, bd, mu]]}
        det = all(x in (0, 1) for x in (b, bd, mu))
        rec = hgxv.Recorder()
        genuine = np.random.random
        try:
            if case.get("boundary_draws"):
                np.random.random = BoundaryDraws(np, npseed, (b, bd, mu))
            with rec:
                rec.patch(np.random, "random", "np-global")
                np.random.seed(npseed)
                st, out = call(simplicial_contagion, h, real_I0(np, case, pairs, L), Targ,
                               real_rate(np, b, rt), real_rate(np, bd, rt), real_rate(np, mu, rt))
        finally:
            np.random.random = genuine
        if st != "ok":
            ctx.violation(c2, f"simplicial_contagion raised: {out}")
            continue
        try:
            out = [float(x) for x in np.asarray(out).reshape(-1)]
            draws = [Fraction(float(x[-1])) for x in rec.log]
        except Exception as e:  # noqa: BLE001
            ctx.violation(c2, f"simplicial_contagion returned a non-numeric result: {e}")
            continue
        ctx.count("contagion_runs")
        ctx.count("contagion_draws", len(draws))
        if len(out) != T:
            ctx.violation(c2, f"result has {len(out)} entries for T={T}")
            continue
        if any(not (0 <= x <= 1) for x in out):
            ctx.violation(c2, f"fractions outside [0,1]: {out}")
        if not close(out[0], Fraction(len(inf0), N), TOL):
            ctx.violation(c2, f"first value {out[0]} is not the initial infected fraction {len(inf0)}/{N}")
        if mu == 0 and any(y < x - TOL for x, y in zip(out, out[1:])):
            ctx.violation(c2, f"recovery rate 0 but the infected fraction decreases: {out}")
        if b == 0 and bd == 0 and any(y > x + TOL for x, y in zip(out, out[1:])):
            ctx.violation(c2, f"both infection rates 0 but the infected fraction increases: {out}")
        if det:
            want = spread_oracle(E, nodes_c, I0_full, T, b, bd, mu)
            if any(not close(x, Fraction(c, N), TOL) for x, c in zip(out, want)):
                ctx.violation(c2, f"deterministic regime (beta, beta_D, mu) = {(b, bd, mu)}: trajectory "
                                  f"{[round(x * N) for x in out]} differs from the spreading through pairs and triangles {want}")
            if T <= 10:
                # the model's closed form iterates functions (cost exponential in T): long horizons only through `cont`
                lines.append("spread %s %s %s %d %s %s %s" % (hgxv.enc_list(nodes), hgxv.enc_list(keys), hgxv.enc_list(inf0), T,
                                                             hgxv.enc_num(b), hgxv.enc_num(bd), hgxv.enc_num(mu)))
                expect.append(("plain", hgxv.enc_list(want)))
        changes_max = max(changes_max, sum(1 for x, y in zip(out, out[1:]) if x != y))
        cnt = [int(round(x * N)) for x in out]
        lines.append("cont %s %s %s %d %s %s %s %s" % (
            hgxv.enc_list(nodes), hgxv.enc_list(keys), hgxv.enc_list(inf0), T,
            hgxv.enc_num(Fraction(float(b))), hgxv.enc_num(Fraction(float(bd))), hgxv.enc_num(Fraction(float(mu))),
            hgxv.enc_list(draws)))
        expect.append(("cont", cnt, out, len(draws)))
        # extension round: the infected SET after every sweep (not observable through the returned fractions) - a twin
        # run with the same draws on a dict subclass that takes a snapshot in copy(); compared with the model's
        # `infectedSets`.  The primary run above stays un-instrumented.
        spy_log = []
        try:
            if case.get("boundary_draws"):
                np.random.random = BoundaryDraws(np, npseed, (b, bd, mu))
            np.random.seed(npseed)
            st2, out2 = call(simplicial_contagion, h, _SpyDict(list(real_I0(np, case, pairs, L).items()), spy_log), Targ,
                             real_rate(np, b, rt), real_rate(np, bd, rt), real_rate(np, mu, rt))
        finally:
            np.random.random = genuine
        try:
            same = st2 == "ok" and [float(x) for x in np.asarray(out2).reshape(-1)] == out
        except Exception:  # noqa: BLE001
            same = False
        if not same:
            ctx.disagree(c2, f"the same run on a dict subclass (copy() returns the subclass) gives {str(out2)[:120]} instead of {out}")
        else:
            m = (len(spy_log) - 1) // 2
            shape_ok = (len(spy_log) % 2 == 1 and 0 <= m <= T - 1 and all(len(x) == len(keys) for x in spy_log)
                        and all(spy_log[2 * k - 1] == spy_log[2 * k - 2] for k in range(1, m + 1))
                        and (m == T - 1 or not any(v == 1 for v in spy_log[2 * m])))
            if not shape_ok:
                ctx.count("contagion_spy_shape_unexpected")
            else:
                sets = [[keys[i] for i, v in enumerate(spy_log[2 * k]) if v == 1] for k in range(1, m + 1)]
                sets += [[] for _ in range(T - 1 - m)]
                if [len(x) for x in sets] != cnt[1:]:
                    ctx.violation(c2, f"numberInf {cnt} is not the size of the infected set after each sweep {sets}")
                ctx.count("cstates_lines")
                lines.append("cstates %s %s %s %d %s %s %s %s" % (
                    hgxv.enc_list(nodes), hgxv.enc_list(keys), hgxv.enc_list(inf0), T,
                    hgxv.enc_num(Fraction(float(b))), hgxv.enc_num(Fraction(float(bd))), hgxv.enc_num(Fraction(float(mu))),
                    hgxv.enc_list(draws)))
                expect.append(("plain", hgxv.enc_lists(sets)))
    key = "cont|" + repr((E, nodes, sorted(I0.items()), T, npseed, case["ops"], case.get("label_kind")))
    ctx.case(key, changes_max >= 2, sample=case)
    ctx.count("contagion_cases")
    if drv is None:
        return
    ans = drv.batch(lines)
    for ln, a, ex in zip(lines, ans, expect):
        if ex[0] == "plain":
            ok = a == ex[1]
        else:
            try:
                c, fr, used = a.split(" ")
                ok = (hgxv.dec_list(c) == ex[1] and int(used) == ex[3]
                      and all(close(x, y, TOL) for x, y in zip(hgxv.dec_list(fr), ex[2])) and len(hgxv.dec_list(fr)) == len(ex[2]))
            except Exception:  # noqa: BLE001
                ok = False
        if not ok:
            ctx.disagree({**case, "line": ln}, f"model answers {a[:200]!r} to {ln[:160]!r}, implementation gives {str(ex[1:])[:200]}")


# ------------------------------------------------------------------------------------------
# SIZE as a dimension: medium and large systems (13 .. several thousand nodes), judged by vectorised oracles built from
# the hyperedge list alone (sparse products); the Lean model is not run on them (its executable definitions are cubic),
# the theorems are for every N

def _limit_threads():
    """BLAS with one thread: the dense solves of large cases must not depend on how busy the machine is"""
    try:
        import numpy, numpy.linalg, scipy.sparse, scipy.sparse.linalg, scipy.linalg  # noqa: F401,E401 - loaded before limiting
        from threadpoolctl import threadpool_limits
        return threadpool_limits(limits=1)
    except Exception:  # noqa: BLE001
        return None


def big_edges(gseed, n, sizes, extra):
    """connected hypergraph on 0..n-1, generated from the case's own seed: every new hyperedge joins 1..k-1 new nodes
    to covered ones; then `extra`*n further hyperedges, a third of them twins of stored ones (pairs of nodes sharing
    several hyperedges) and a few around one hub node (irregular weighted degrees)"""
    rng = __import__("random").Random(gseed)
    order = list(range(n))
    rng.shuffle(order)
    covered, rest, edges = [order[0]], order[1:], set()
    while rest:
        k = rng.choice(sizes)
        new = [rest.pop() for _ in range(min(len(rest), max(rng.randint(1, k - 1), k - len(covered))))]
        old = set()                                                    # at least one covered node: connected
        while len(old) < min(k - len(new), len(covered)):
            old.add(rng.choice(covered))
        edges.add(tuple(sorted(old | set(new))))
        covered += new
    stored = sorted(edges)
    hub = order[0]
    for i in range(int(extra * n)):
        k = min(n, rng.choice(sizes))
        r = rng.random()
        if r < 0.33 and k >= 3:
            base = [x for x in rng.choice(stored) if True][:k - 1]
            e = set(base)
            while len(e) < k:
                e.add(rng.randrange(n))
        elif r < 0.43:
            e = {hub}
            while len(e) < k:
                e.add(rng.randrange(n))
        else:
            e = set(rng.sample(range(n), k))
        edges.add(tuple(sorted(e)))
    edges = sorted(edges)
    rng.shuffle(edges)
    return edges


BIG_ROUTES = ["ctor", "add_edge", "add_edges", "gaps", "hgx", "json", "copy", "warm"]


def big_build(case, E, labels=None, use_cb=None):
    """the Hypergraph object of a large case; E in the case's order"""
    from hypergraphx import Hypergraph
    from hypergraphx.readwrite.load import load_hypergraph
    from hypergraphx.readwrite.save import save_hypergraph
    n, route = case["N"], case["route"]
    rng = __import__("random").Random(case["gseed"] + 1)
    L = (lambda x: labels[x]) if labels else (lambda x: x)
    EL = [tuple(L(v) for v in e) for e in E]
    if route == "ctor":
        return Hypergraph(edge_list=EL)
    h = Hypergraph()
    if route in ("add_edge", "warm"):
        nodes = [L(x) for x in range(n)]
        rng.shuffle(nodes)
        h.add_nodes(nodes[: n // 2])
    if route == "add_edge":
        for e in EL:
            h.add_edge(e)
    elif route == "add_edges":
        h.add_edges(EL)
    elif route == "gaps":
        temps, stored = set(), set(E)
        for i, e in enumerate(EL):
            h.add_edge(e)
            if i % 7 == 3:
                t = tuple(sorted(rng.sample(range(n + 2), 3)))         # temporary hyperedges, two temporary nodes
                if t not in stored and t not in temps:
                    h.add_edge(tuple(L(v) for v in t))                 # `labels` has entries for n and n + 1
                    temps.add(t)
        for t in sorted(temps):
            h.remove_edge(tuple(L(v) for v in t))
        for v in (n, n + 1):
            if L(v) in set(h.get_nodes()):
                h.remove_node(L(v))
    elif route in ("hgx", "json"):
        cut = (9 * len(EL)) // 10
        h.add_edges(EL[:cut])
        with tempfile.TemporaryDirectory(prefix="hgxv-c18-") as d:
            fn = os.path.join(d, "h." + route)
            save_hypergraph(h, fn, binary=(route == "hgx"))
            h = load_hypergraph(fn)
        for e in EL[cut:]:
            h.add_edge(e)
    elif route == "copy":
        o = Hypergraph(edge_list=EL)
        h = o.copy()
        for e in EL[:20]:
            o.remove_edge(e)
    elif route == "warm":
        # the same object is used, rewired with unchanged numbers of nodes and hyperedges, and used again
        swap = [e for e in E[:30]]
        repl = []
        have = set(E)
        for e in swap:
            for _ in range(20):
                c = tuple(sorted(rng.sample(range(n), len(e))))
                if c not in have:
                    have.add(c)
                    repl.append(c)
                    break
        h.add_edges([tuple(L(v) for v in e) for e in E[len(repl):]] + [tuple(L(v) for v in e) for e in repl])
        if use_cb is not None:
            use_cb(h)
        for e in repl:
            h.remove_edge(tuple(L(v) for v in e))
        for e in E[:len(repl)]:
            h.add_edge(tuple(L(v) for v in e))
    else:
        raise ValueError(route)
    return h


def check_rw_big(ctx, case):
    import numpy as np
    from scipy import sparse
    from hypergraphx.dynamics import randwalk as RW
    n, npseed = case["N"], case["npseed"]
    E = big_edges(case["gseed"], n, case["sizes"], case["extra"])
    rl = __import__("random").Random(npseed)
    lim = 120
    ctx.count("rw_big_cases")
    ctx.count("rw_big_N_%s" % ("13-99" if n < 100 else "100-999" if n < 1000 else "1000-1999" if n < 2000 else "2000+"))
    ctx.count("rw_big_route_" + case["route"])

    def use(h):
        call(RW.transition_matrix, h, limit=lim)
        call(RW.RW_stationary_state, h, limit=lim)
        call(RW.random_walk_density, h, np.ones(h.num_nodes()) / h.num_nodes(), 1, limit=lim)
        call(RW.random_walk, h, 0, 1, limit=lim)

    st, h = call(big_build, case, E, None, use, limit=lim)
    if st != "ok":
        ctx.violation(case, f"building the hypergraph failed: {h}")
        return
    st, got = call(lambda: (sorted(h.get_nodes()), sorted(tuple(sorted(e)) for e in h.get_edges())), limit=lim)
    if st != "ok" or got != (list(range(n)), sorted(E)):
        ctx.disagree(case, "the object built for a large case does not list the nodes 0..N-1 / the generated hyperedges")
        return
    # the property's closed forms from the hyperedge list: W[i, j] = sum over shared hyperedges of (size - 1),
    # d[i] = sum over i's hyperedges of (size - 1)^2 = row sum of W
    ii, jj, ww = [], [], []
    d = np.zeros(n)
    for e in E:
        k = len(e) - 1
        for a in e:
            d[a] += k * k
            for b in e:
                if a != b:
                    ii.append(a); jj.append(b); ww.append(k)
    W = sparse.csr_matrix((np.array(ww, dtype=float), (ii, jj)), shape=(n, n))
    W.sum_duplicates()
    Kor = sparse.diags(1.0 / d) @ W
    ctx.case("rwbig|" + repr((n, case["gseed"], case["sizes"], case["extra"], case["route"], npseed)),
             len(set(d.tolist())) > 1, sample=case)
    st, Ksp = call(RW.transition_matrix, h, limit=lim)
    if st != "ok":
        ctx.violation(case, f"transition_matrix raised on a connected hypergraph with {n} nodes: {Ksp}")
        return
    st, K = call(lambda: sparse.csr_matrix(Ksp).astype(float), limit=lim)
    if st != "ok" or K.shape != (n, n):
        ctx.violation(case, f"transition_matrix did not return an N x N matrix (N = {n}): {K if st != 'ok' else K.shape}")
        return
    if not np.isfinite(K.data).all():
        ctx.violation(case, f"transition matrix (N = {n}) has non-finite entries")
        return
    rs = np.asarray(K.sum(axis=1)).reshape(-1)
    if np.abs(rs - 1).max() > TOL:
        ctx.violation(case, f"N = {n}: row {int(np.abs(rs - 1).argmax())} of the transition matrix sums to {float(rs[np.abs(rs - 1).argmax()])!r}")
    if K.data.size and K.data.min() < 0:
        ctx.violation(case, f"N = {n}: the transition matrix has a negative entry")
    D = abs(K - Kor)
    if D.nnz and D.max() > TOL:
        Dc = D.tocoo()
        i, j = int(Dc.row[Dc.data.argmax()]), int(Dc.col[Dc.data.argmax()])
        ctx.violation(case, f"N = {n}: K[{i}][{j}] = {float(K[i, j])!r}, but sum over shared hyperedges of (size-1) / row total = "
                            f"{float(W[i, j])}/{float(d[i])}")
    Kp = K.copy(); Kp.eliminate_zeros()
    pat = (Kp != 0).astype(np.int8) - (W != 0).astype(np.int8)
    pat.eliminate_zeros()
    if pat.nnz:
        ctx.violation(case, f"N = {n}: the transition matrix is positive exactly between nodes sharing a hyperedge - not so here")
    # --- stationary state: probability vector, fixed by K (residual with sparse products), proportional to d
    st, pi = call(RW.RW_stationary_state, h, limit=lim)
    if st != "ok":
        ctx.violation(case, f"RW_stationary_state raised on a connected hypergraph with {n} nodes: {pi}")
    else:
        st, pi = call(lambda: np.asarray(pi, dtype=float).reshape(-1))
        if st != "ok" or pi.shape != (n,) or not np.isfinite(pi).all():
            ctx.violation(case, f"RW_stationary_state (N = {n}) did not return a finite vector of length N")
        else:
            if abs(pi.sum() - 1) > TOL_SOLVE:
                ctx.violation(case, f"N = {n}: stationary state sums to {float(pi.sum())!r}")
            if pi.min() < -TOL_SOLVE:
                ctx.violation(case, f"N = {n}: stationary state has a negative entry {float(pi.min())!r}")
            res = np.abs(Kor.T @ pi - pi).max()
            if res > TOL_SOLVE:
                ctx.violation(case, f"N = {n}: stationary state is not fixed by the transition matrix: max |pi K - pi| = {float(res)!r}")
            dev = np.abs(pi - d / d.sum())
            if dev.max() > TOL_SOLVE:
                i = int(dev.argmax())
                ctx.violation(case, f"N = {n}: stationary state is not proportional to sum over hyperedges of (size-1)^2: "
                                    f"pi[{i}] = {float(pi[i])!r}, expected {float(d[i])}/{float(d.sum())}")
    # --- densities
    starts = []
    u = np.zeros(n); u[rl.randrange(n)] = 1
    starts.append(("unit", u))
    starts.append(("uniform", np.ones(n) / n))
    w = np.zeros(n)
    for _ in range(5):
        w[rl.randrange(n)] += rl.randint(1, 4)
    starts.append(("few", w / w.sum()))
    w = np.array([rl.randint(-2, 3) if rl.random() < 0.5 else 0 for _ in range(n)], dtype=float)
    w[rl.randrange(n)] = -2
    k = rl.randrange(n)
    w[k] += 1 - w.sum()
    starts.append(("signed_int", w))
    w = np.array([rl.randint(-8, 24) for _ in range(n)], dtype=float)
    w[rl.randrange(n)] = -5
    starts.append(("signed", w / w.sum()))
    for shape, s in starts:
        if ctx.too_many():
            break
        kinds = ["f64", "f64", "list_float", "row"] + (["i64", "list_int", "bool", "f32"] if shape == "unit" else []) \
            + (["i64", "i32", "list_int"] if shape == "signed_int" else [])
        kind = rl.choice(kinds)
        time = rl.choice([0, 1, 2, 3, 4])
        arg = {"f64": lambda: s.copy(), "list_float": lambda: [float(x) for x in s], "row": lambda: s.reshape(1, -1).copy(),
               "i64": lambda: s.astype(np.int64), "i32": lambda: s.astype(np.int32), "list_int": lambda: [int(x) for x in s],
               "bool": lambda: s.astype(bool), "f32": lambda: s.astype(np.float32)}[kind]()
        ctx.count("big_density_%s_%s" % (shape, kind))
        c2 = {**case, "density_shape": shape, "density_kind": kind, "time": time}
        st, out = call(RW.random_walk_density, h, arg, time, limit=lim)
        if st != "ok":
            ctx.violation(c2, f"N = {n}: random_walk_density raised on a {shape} starting density given as {kind}: {out}")
            continue
        st, arr = call(lambda: [np.asarray(v, dtype=float).reshape(-1) for v in out])
        if st != "ok" or len(arr) != time + 1 or any(v.shape != (n,) for v in arr):
            ctx.violation(c2, f"N = {n}: random_walk_density did not return time+1 = {time + 1} vectors of length N")
            continue
        tol = TOL * max(1.0, float(np.abs(s).sum()))
        if np.abs(arr[0] - s).max() > tol:
            ctx.violation(c2, f"N = {n}: the first density is not the starting density")
        for t in range(time):
            dev = np.abs(arr[t + 1] - Kor.T @ arr[t])
            if not np.isfinite(dev).all() or dev.max() > tol:
                ctx.violation(c2, f"N = {n}: density {t+1} is not density {t} times the transition matrix ({shape} start given as "
                                  f"{kind}): entry {int(np.nanargmax(dev))} is off by {float(np.nanmax(dev))!r}")
                break
        for t in range(time + 1):
            if not abs(arr[t].sum() - 1) <= tol:
                ctx.violation(c2, f"N = {n}: density {t} sums to {float(arr[t].sum())!r} ({shape} start given as {kind})")
                break
    # --- sampled walks
    for _ in range(3):
        if ctx.too_many():
            break
        s0, time = rl.randrange(n), rl.choice([0, 1, 5, 12])
        c2 = {**case, "start": s0, "time": time}
        np.random.seed((npseed + s0) % 2 ** 32)
        st, nodes = call(RW.random_walk, h, s0, time, limit=lim)
        if st != "ok":
            ctx.violation(c2, f"N = {n}: random_walk raised: {nodes}")
            continue
        try:
            nodes = [int(x) for x in nodes]
        except Exception as e:  # noqa: BLE001
            ctx.violation(c2, f"N = {n}: random_walk returned non-integer nodes: {e}")
            continue
        if len(nodes) != time + 1 or nodes[:1] != [s0]:
            ctx.violation(c2, f"N = {n}: walk from {s0} for {time} steps returned {nodes[:20]}")
            continue
        for a, b in zip(nodes, nodes[1:]):
            if not (0 <= b < n and a != b and W[a, b] > 0):
                ctx.violation({**c2, "walk": nodes}, f"N = {n}: the walk steps from {a} to {b}, which share no hyperedge")
                break
        ctx.count("big_walk_steps", time)


def spread_oracle_indexed(E, nodes, I, T, b, bd, mu):
    """spread_oracle for large systems: the same words, with the hyperedges of size 2 / 3 indexed by member"""
    pairs, tris = {v: [] for v in nodes}, {v: [] for v in nodes}
    for e in E:
        if len(e) in (2, 3):
            for v in e:
                (pairs if len(e) == 2 else tris)[v].append([u for u in e if u != v])
    counts = [0] * T
    counts[0] = sum(I.values())
    t = 1
    while counts[t - 1] > 0 and t < T:
        new = dict(I)
        for v in nodes:
            if I[v] == 0:
                by_pair = b == 1 and any(all(I[u] == 1 for u in o) for o in pairs[v])
                by_tri = bd == 1 and any(all(I[u] == 1 for u in o) for o in tris[v])
                new[v] = 1 if (by_pair or by_tri) else 0
            else:
                new[v] = 0 if mu == 1 else 1
        I = new
        counts[t] = sum(I.values())
        t += 1
    return counts


def check_cont_big(ctx, case):
    import numpy as np
    from hypergraphx.dynamics.contagion import simplicial_contagion
    n, npseed, T = case["N"], case["npseed"], case["T"]
    E = big_edges(case["gseed"], n, case["sizes"], case["extra"])
    rl = __import__("random").Random(npseed)
    if case.get("cut"):
        # contagion is for all hypergraphs: drop hyperedges so that the system falls apart, some nodes isolated
        E = [e for e in E if rl.random() > case["cut"]]
    labels = ["v%d" % i for i in range(n + 2)] if case.get("label_kind") == "str" else \
        [3 * i - 7 for i in range(n + 2)] if case.get("label_kind") == "gap" else None
    L = (lambda x: labels[x]) if labels else (lambda x: x)
    lim = 120
    ctx.count("contagion_big_cases")
    route = case["route"]
    st, h = call(big_build, {**case, "route": route if route != "warm" else "add_edge"}, E, labels, None, limit=lim)
    if st == "ok":
        st, h = call(lambda: (h.add_nodes([L(x) for x in range(n)]), h)[1], limit=lim)
    if st != "ok":
        ctx.violation(case, f"building the hypergraph failed: {h}")
        return
    p = case["p0"]
    I0 = {x: int(rl.random() < p) for x in range(n)}
    if p > 0 and not any(I0.values()):
        I0[0] = 1
    inf0 = sum(I0.values())
    changes_max = 0
    for (b, bd, mu) in [tuple(r) for r in case["rates"]]:
        if ctx.too_many():
            break
        c2 = {**case, "rates": [[b, bd, mu]]}
        np.random.seed(npseed % 2 ** 32)
        st, out = call(simplicial_contagion, h, {L(x): v for x, v in I0.items()}, T, b, bd, mu, limit=lim)
        if st != "ok":
            ctx.violation(c2, f"simplicial_contagion raised on {n} nodes: {out}")
            continue
        try:
            out = [float(x) for x in np.asarray(out).reshape(-1)]
        except Exception as e:  # noqa: BLE001
            ctx.violation(c2, f"simplicial_contagion returned a non-numeric result: {e}")
            continue
        ctx.count("contagion_big_runs")
        if len(out) != T:
            ctx.violation(c2, f"result has {len(out)} entries for T={T}")
            continue
        if any(not (0 <= x <= 1) for x in out):
            ctx.violation(c2, f"{n} nodes: fractions outside [0,1]: {out}")
        if abs(out[0] - inf0 / n) > TOL:
            ctx.violation(c2, f"{n} nodes: first value {out[0]} is not the initial infected fraction {inf0}/{n}")
        if mu == 0 and any(y < x - TOL for x, y in zip(out, out[1:])):
            ctx.violation(c2, f"{n} nodes: recovery rate 0 but the infected fraction decreases: {out}")
        if b == 0 and bd == 0 and any(y > x + TOL for x, y in zip(out, out[1:])):
            ctx.violation(c2, f"{n} nodes: both infection rates 0 but the infected fraction increases: {out}")
        if all(x in (0, 1) for x in (b, bd, mu)):
            want = spread_oracle_indexed(E, list(range(n)), I0, T, b, bd, mu)
            if any(abs(x - c / n) > TOL for x, c in zip(out, want)):
                ctx.violation(c2, f"{n} nodes, deterministic regime (beta, beta_D, mu) = {(b, bd, mu)}: trajectory "
                                  f"{[round(x * n) for x in out]} differs from the spreading through pairs and triangles {want}")
        changes_max = max(changes_max, sum(1 for x, y in zip(out, out[1:]) if x != y))
    ctx.case("contbig|" + repr((n, case["gseed"], case["sizes"], case["extra"], case.get("cut"), route, npseed, T, p)),
             changes_max >= 2, sample=case)


def gen_big(rng, kind, n):
    sizes = rng.choice([[2], [3], [2, 3], [2, 3, 3, 4], [2, 3, 4, 5], [3, 4, 5], [4]]) if kind == "rwbig" else \
        rng.choice([[2], [3], [2, 3], [2, 2, 3, 3, 4], [2, 3, 3, 5]])
    case = {"kind": kind, "N": n, "gseed": rng.randrange(2 ** 31), "sizes": sizes, "extra": rng.choice([0.0, 0.1, 0.3, 0.6]),
            "route": rng.choice(BIG_ROUTES), "npseed": rng.randrange(2 ** 31)}
    if kind == "contbig":
        r8 = lambda: rng.randint(1, 7) / 8  # noqa: E731
        case.update({"T": rng.randint(2, 7), "p0": rng.choice([0.02, 0.1, 0.3, 0.7, 1.0]),
                     "cut": rng.choice([0, 0, 0.2]), "label_kind": rng.choice(["id", "id", "str", "gap"]),
                     "rates": [[b, bd, mu] for b in (0, 1) for bd in (0, 1) for mu in (0, 1)]
                     + [[r8(), r8(), 0], [0, 0, r8()], [rng.random(), rng.random(), rng.random()]]})
    return case


def rng_pick_large(rng):
    return rng.choice([1001, 1000 + rng.randint(1, 60), 1000 + rng.randint(1, 400)])


def big_sizes(rng, tier):
    """one system above 1000 nodes per quick run (where a 'large system' branch would start), some medium ones;
    thorough: just above 1000, above 2000, above 4000 (powers of two included), many medium ones"""
    around = lambda c: rng.choice([c + 1, c + rng.randint(1, 60), c + rng.randint(1, c // 3)])  # noqa: E731
    if tier != "thorough":
        return ([around(1000), rng.choice([2000, 2048]) + rng.randint(1, 60)],
                [rng.randint(13, 40), rng.randint(41, 130), rng.choice([64, 65, 100, 101, 128, 129]),
                 rng.choice([255, 256, 257, 300, 500, 501, 512, 513]), rng.randint(131, 999), rng.choice([999, 1000])])
    return ([around(1000), around(1024), around(1000), around(2000), around(2048), rng.randint(1001, 3000), 4096 + rng.randint(1, 60)],
            [rng.randint(13, 999) for _ in range(40)] + [64, 65, 100, 101, 128, 129, 255, 256, 257, 500, 501, 512, 513, 999, 1000])


def gen_rw(rng):
    n = rng.choice([2, 3, 3, 4, 4, 5, 5, 6, 6, 7, 7]) if rng.random() > 0.02 else 1
    if rng.random() < 0.02:
        n = rng.randint(8, 14)                     # the largest systems that still go through the model
    connected = rng.random() > 0.12
    sizes = rng.choice([[2], [2, 3], [2, 3, 3, 4], [2, 3, 4, 5], [3], [3, 4, 5]])
    edges = gen_edges(rng, n, connected, sizes)
    order = list(range(n))
    if rng.random() < 0.5:
        rng.shuffle(order)
    route, ops = gen_history(rng, n, order, edges)
    return {"kind": "rw", "N": n, "route": route, "ops": ops, "npseed": rng.randrange(2 ** 31)}


LABEL_KINDS = [("id", 40), ("gap", 12), ("neg", 8), ("big", 6), ("str", 22), ("strnum", 12)]


def make_labels(rng, kind, m):
    if kind == "gap":
        return sorted(rng.sample(range(0, 4 * m + 10), m))
    if kind == "neg":
        lo = -rng.randint(1, m)
        return [lo + i for i in range(m)]
    if kind == "big":
        return [10 ** 12 + 7 * i for i in range(m)]
    if kind == "str":
        names = ["ann", "bob", "cy", "dee", "eve", "fay", "gus", "hal", "ida", "jo", "kit", "lou", "mo", "ned"]
        rng.shuffle(names)
        return names[:m]
    if kind == "strnum":
        return [str(i) for i in rng.sample(range(0, 30), m)]     # "10" < "9": the label order is not the index order
    return None


def gen_cont(rng):
    n = rng.randint(3, 8)
    sizes = rng.choice([[2], [3], [2, 3], [2, 2, 3, 3, 4], [2, 3, 3, 5]])
    edges = gen_edges(rng, n, rng.random() > 0.25, sizes)
    if rng.random() < 0.5:
        # close some triangles / add pairs so that both mechanisms are exercised
        for _ in range(rng.randint(1, 3)):
            edges.append(tuple(sorted(rng.sample(range(n), 3))))
        edges = sorted(set(edges))
        rng.shuffle(edges)
    order = list(range(n))
    rng.shuffle(order)
    route, ops = gen_history(rng, n, order, edges)
    keys = list(range(n)) + ([n, n + 1] if rng.random() < 0.1 else [])
    rng.shuffle(keys)
    p = rng.choice([0.15, 0.3, 0.5, 0.8, 0.8, 1.0])          # 1.0: everybody infected at the start
    I0 = [[k, int(rng.random() < p)] for k in keys]
    if rng.random() < 0.9 and not any(v for _, v in I0):
        I0[0][1] = 1
    T = rng.randint(1, 9) if rng.random() > 0.05 else rng.choice([12, 25, 40])
    r = rng.random()
    if r < 0.02:
        T = 0
    elif r < 0.06:
        # nodes without an initial condition, where the routine never reads it: one entry only, or nobody infected
        I0 = [kv for kv in I0 if kv[0] >= n or rng.random() < 0.6] or I0[:1]
        if rng.random() < 0.5:
            T = 1
        else:
            I0 = [[k, 0] for k, _ in I0]
    label_kind = _pick(rng, LABEL_KINDS)
    case = {"kind": "cont", "route": route, "ops": ops, "I0": I0, "T": T,
            "rates": [list(r) for r in rate_triples(rng)], "npseed": rng.randrange(2 ** 31),
            "I0_values": rng.choice(["int", "int", "int", "bool", "bool", "float", "npint"]),
            "I0_type": rng.choice(["dict", "dict", "dict", "OrderedDict", "subclass"]),
            "rate_type": rng.choice(["asis", "asis", "float", "np", "bool01", "frac"]),
            "boundary_draws": rng.random() < 0.3, "T_np": rng.random() < 0.15, "I0_npkeys": rng.random() < 0.08, "label_kind": label_kind}
    labels = make_labels(rng, label_kind, n + 3)
    if labels is not None:
        case["labels"] = labels
    return case


def run(ctx):
    _lim = _limit_threads()  # noqa: F841 - kept alive for the whole run
    drv = ctx.driver() if ctx.model_available else None
    n_rw = ctx.scale(300, 5000)
    n_ct = ctx.scale(300, 5000)
    # the smallest inputs first (single hyperedge, path, triangle + edge, 4-cycle)
    fixed = [(2, [[0, 1]]), (3, [[0, 1], [1, 2]]), (4, [[0, 1, 2], [2, 3]]), (4, [[0, 1], [1, 2], [2, 3], [0, 3]]),
             (3, [[0, 1, 2]]), (5, [[0, 1, 2, 3, 4], [0, 1]])]
    for n, es in fixed:
        check_rw(ctx, drv, {"kind": "rw", "N": n, "route": "fresh", "ops": fresh_ops(es, list(range(n))), "npseed": 1})
    # boundary initial conditions: everybody / nobody / one node infected
    for inf in ([0, 1, 2, 3, 4], [], [3]):
        check_cont(ctx, drv, {"kind": "cont", "route": "fresh", "ops": fresh_ops([[0, 1, 2], [2, 3], [1, 3], [3, 4]], [0, 1, 2, 3, 4]),
                              "I0": [[k, int(k in inf)] for k in range(5)], "T": 5,
                              "rates": [[b, bd, mu] for b in (0, 1) for bd in (0, 1) for mu in (0, 1)] + [[0.5, 0.5, 0.5]],
                              "npseed": 4, "boundary_draws": True})
    # every history route on one small input of each part
    for route, _w in ROUTES:
        r2 = __import__("random").Random(17)
        es = [[0, 1, 2], [2, 3], [1, 3], [3, 4]]
        check_rw(ctx, drv, {"kind": "rw", "N": 5, "route": route, "ops": gen_history(r2, 5, [4, 3, 2, 1, 0], es, route)[1], "npseed": 2})
        check_cont(ctx, drv, {"kind": "cont", "route": route, "ops": gen_history(r2, 5, [4, 3, 2, 1, 0], es, route)[1],
                              "I0": [[k, int(k in (1, 2))] for k in range(5)], "T": 6,
                              "rates": [[b, bd, mu] for b in (0, 1) for bd in (0, 1) for mu in (0, 1)], "npseed": 3})
    # size: medium systems first, then the large one(s); in quick they take about a quarter of the budget
    large, medium = big_sizes(ctx.rng, ctx.tier)
    t0 = __import__("time").time()
    for n in medium + large + ["uniform"]:
        if ctx.too_many() or (ctx.time_left() is not None and ctx.time_left() < 20):
            ctx.count("big_sizes_skipped_for_time")
            continue
        if n == "uniform":
            # a large uniform hypergraph whose hyperedges overlap in several nodes (pairs sharing several hyperedges)
            case = gen_big(ctx.rng, "rwbig", rng_pick_large(ctx.rng))
            case.update({"sizes": [ctx.rng.choice([3, 3, 4, 5])], "extra": ctx.rng.choice([0.3, 0.6])})
            check_rw_big(ctx, case)
            continue
        check_rw_big(ctx, gen_big(ctx.rng, "rwbig", n))
        check_cont_big(ctx, gen_big(ctx.rng, "contbig", n))
    ctx.count("big_seconds", int(__import__("time").time() - t0))
    for i in range(max(n_rw, n_ct)):
        if i < n_rw:
            check_rw(ctx, drv, gen_rw(ctx.rng))
        if i < n_ct:
            check_cont(ctx, drv, gen_cont(ctx.rng))
        if ctx.too_many() or (ctx.time_left() is not None and ctx.time_left() < 5):
            break


def replay(ctx, case):
    drv = ctx.driver() if ctx.model_available else None
    case = {k: v for k, v in case.items() if k not in ("line", "density", "density_kind", "time", "start", "walk")}
    _lim = _limit_threads()  # noqa: F841
    if case.get("kind") == "rwbig":
        check_rw_big(ctx, {k: v for k, v in case.items() if k not in ("density_shape",)})
    elif case.get("kind") == "contbig":
        check_cont_big(ctx, case)
    elif case.get("kind") == "cont":
        check_cont(ctx, drv, case)
    else:
        check_rw(ctx, drv, case)
