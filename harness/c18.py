"""C18 - random walks (hypergraphx.dynamics.randwalk) and simplicial contagion
(hypergraphx.dynamics.contagion): correspondence of lean/Hgxv/Model/C18.lean with the real routines
(recorded np.random draws are replayed by the model) and independent property oracles."""
import signal
import warnings
from fractions import Fraction

import hgxv
from hgxv import Q

RULE = ("random-walk cases: hypergraphs on nodes 0..N-1 (N 2..7, rarely 1), hyperedge sizes 2-5, built connected by "
        "attaching every new hyperedge to a covered node (12% deliberately disconnected to exercise the assertion), "
        "nodes inserted in random order; per case the transition matrix, the stationary state, densities from every "
        "unit vector and two random rational densities (horizons 0-5, exact hgxv.Q object arrays and float arrays) and a "
        "sampled walk from every start node with np.random.choice recorded. Contagion cases: hypergraphs on 3..8 nodes "
        "(sizes 2-5, mostly 2 and 3, possibly disconnected / isolated nodes / extra keys in I_0), random 0/1 initial "
        "condition, horizon 1-9, all 8 rate triples in {0,1}^3 plus 6 random triples (mu=0, beta=beta_D=0, dyadic, "
        "arbitrary floats), np.random.random recorded and replayed by the model. Distinct = canonical text of the case; "
        "non-trivial = non-regular hypergraph (random walk) / trajectory that changes at >= 2 steps (contagion)")
ASSUMPTIONS = ["nodes are labelled 0..N-1 and hyperedges have distinct members (what Hypergraph.get_edges() returns)",
               "N >= 2 for the random-walk clauses (the one-node hypergraph has an all-nan matrix; counted, not judged)",
               "I_0 maps every node of the hypergraph to 0 or 1; T >= 1",
               "np.random.choice(n, p=...) returns an index of positive probability; np.random.random() lies in [0, 1)"]
TRUSTED = ["np.linalg.solve (LAPACK gesv) returns the solution of the repaired non-singular system up to rounding: "
           "RW_stationary_state is compared with d/sum(d) within 1e-9",
           "binary64 rounding of T/rowsum and of s @ K: matrices and densities are compared with the exact Rat model "
           "within 1e-12 (densities additionally exactly, on hgxv.Q object arrays, against the implementation's own K)",
           "np.random.choice / np.random.random honour their contracts (recorded draws are replayed, not re-derived)"]
BUDGET_S = {"quick": 50, "thorough": 800}

TOL = 1e-12
TOL_SOLVE = 1e-9


class _Timeout(Exception):
    pass


def _alarm(signum, frame):
    raise _Timeout()


def call(fn, *a, limit=5, **k):
    """run an implementation call; an exception / hang is an observation, never a crash of the harness"""
    old = signal.signal(signal.SIGALRM, _alarm)
    signal.alarm(limit)
    try:
        with warnings.catch_warnings():
            warnings.simplefilter("ignore")
            return ("ok", fn(*a, **k))
    except _Timeout:
        return ("exc", "timeout")
    except BaseException as e:  # noqa: BLE001 - mutated code may raise anything
        if isinstance(e, KeyboardInterrupt):
            raise
        return ("exc", type(e).__name__ + ": " + str(e)[:120])
    finally:
        signal.alarm(0)
        signal.signal(signal.SIGALRM, old)


# ------------------------------------------------------------------------------------------
# generators

def gen_edges(rng, n, connected, sizes):
    """hyperedges (sorted tuples, distinct) on 0..n-1; `connected`: every new one touches a covered node"""
    edges = set()
    if n < 2:
        return []
    covered = set()
    order = list(range(n))
    rng.shuffle(order)
    guard = 0
    while len(covered) < n and guard < 200:
        guard += 1
        k = min(n, rng.choice(sizes))
        if not covered:
            e = rng.sample(order, k)
        else:
            rest = [x for x in order if x not in covered]
            anchor = rng.choice(sorted(covered))
            new = rng.sample(rest, min(len(rest), rng.randint(1, k - 1)))
            fill = [x for x in order if x != anchor and x not in new]
            e = [anchor] + new + rng.sample(fill, max(0, min(len(fill), k - 1 - len(new))))
        edges.add(tuple(sorted(set(e))))
        covered |= set(e)
    for _ in range(rng.randint(0, 4)):
        k = min(n, rng.choice(sizes))
        edges.add(tuple(sorted(rng.sample(order, k))))
    edges = sorted(edges)
    rng.shuffle(edges)
    if not connected and n >= 3:
        # cut: keep only hyperedges inside one of two blocks
        a = set(rng.sample(order, rng.randint(1, n - 1)))
        edges = [e for e in edges if set(e) <= a or not (set(e) & a)]
    return edges


def build(edges, node_order):
    from hypergraphx import Hypergraph
    h = Hypergraph()
    for x in node_order:
        h.add_node(x)
    for e in edges:
        h.add_edge(tuple(e))
    return h


def is_connected_oracle(n, edges):
    if n == 0:
        return True
    seen, todo = {0}, [0]
    while todo:
        v = todo.pop()
        for e in edges:
            if v in e:
                for u in e:
                    if u not in seen:
                        seen.add(u)
                        todo.append(u)
    return len(seen) == n


def frac_of(x):
    return Fraction(x) if isinstance(x, Fraction) else Fraction(float(x))


def close(a, b, tol):
    return abs(frac_of(a) - frac_of(b)) <= Fraction(tol)


# ------------------------------------------------------------------------------------------
# random walk

def check_rw(ctx, drv, case):
    import numpy as np
    from hypergraphx.dynamics import randwalk as RW
    n, edges, node_order, npseed = case["N"], [tuple(e) for e in case["edges"]], case["node_order"], case["npseed"]
    rng_local = __import__("random").Random(npseed)
    warm = case.get("warm")
    st, h = call(build, [tuple(e) for e in warm] if warm else edges, node_order)
    if st != "ok":
        ctx.violation(case, f"building the hypergraph failed: {h}")
        return
    if warm:
        # the SAME object is first used with another hyperedge list of the same length (every routine called once),
        # then rewired in place to the case's hyperedges: results must depend on the current content only
        ctx.count("rw_same_object_rewired")
        call(RW.transition_matrix, h)
        call(RW.RW_stationary_state, h)
        call(RW.random_walk_density, h, np.array([1.0] + [0.0] * (n - 1)), 1)
        call(RW.random_walk, h, 0, 1)
        ws, es = {tuple(sorted(e)) for e in warm}, {tuple(sorted(e)) for e in edges}
        for e in sorted(ws - es):
            call(h.remove_edge, e)
        for e in sorted(es - ws):
            call(h.add_edge, e)
    E = sorted(tuple(sorted(e)) for e in edges)
    conn = is_connected_oracle(n, E)
    # the property's closed forms, straight from the hyperedge list
    shared = [[sum(len(e) - 1 for e in E if i in e and j in e) if i != j else 0 for j in range(n)] for i in range(n)]
    d = [sum((len(e) - 1) ** 2 for e in E if i in e) for i in range(n)]
    regular = len(set(d)) <= 1
    key = "rw|" + repr((n, E))
    ctx.case(key, conn and n >= 2 and not regular, sample=case)
    ctx.count("rw_cases")
    ctx.count("rw_connected" if conn else "rw_disconnected")
    lines = ["load %d %s" % (n, hgxv.enc_lists(E))]
    expect = [("plain", "ok")]

    st, Ksp = call(RW.transition_matrix, h)
    if not conn:
        # outside the property's quantifier; the routine's assertion is part of the model, so only correspondence
        lines.append("tm")
        expect.append(("plain", "rej" if st != "ok" else "accepted-a-disconnected-hypergraph"))
        _ask(ctx, drv, case, lines, expect)
        return
    if st != "ok":
        ctx.violation(case, f"transition_matrix raised on a connected hypergraph: {Ksp}")
        return
    st, K = call(lambda: np.array(Ksp.todense(), dtype=float))
    if st != "ok" or K.shape != (n, n):
        ctx.violation(case, f"transition_matrix did not return an N x N matrix: {K if st != 'ok' else K.shape}")
        return
    if n == 1:
        # outside the quantifier (no hyperedge of size 2..5 exists): counted, not judged
        ctx.count("rw_single_node_nan" if np.isnan(K).all() else "rw_single_node_other")
        return
    # --- oracles on K
    bad = False
    if not np.isfinite(K).all():
        ctx.violation(case, "transition matrix has non-finite entries")
        return
    for i in range(n):
        if not close(sum(Fraction(float(x)) for x in K[i]), 1, TOL):
            ctx.violation(case, f"row {i} of the transition matrix sums to {float(K[i].sum())!r}, not 1"); bad = True
        for j in range(n):
            if K[i, j] < 0:
                ctx.violation(case, f"K[{i}][{j}] = {float(K[i, j])} < 0"); bad = True
            if not close(K[i, j], Fraction(shared[i][j], d[i]), TOL):
                ctx.violation(case, f"K[{i}][{j}] = {float(K[i, j])!r}, but sum over shared hyperedges of (size-1) / row total = "
                                    f"{shared[i][j]}/{d[i]}"); bad = True
            if (K[i, j] > 0) != (i != j and any(i in e and j in e for e in E)):
                ctx.violation(case, f"K[{i}][{j}] = {float(K[i, j])!r} but nodes {i},{j} "
                                    f"{'share' if shared[i][j] else 'do not share'} a hyperedge"); bad = True
        if bad:
            break
    lines.append("tm")
    expect.append(("matrix", K.tolist(), TOL))
    # --- stationary state
    st, pi = call(RW.RW_stationary_state, h)
    if st != "ok":
        ctx.violation(case, f"RW_stationary_state raised on a connected hypergraph: {pi}")
    else:
        pi = np.asarray(pi, dtype=float).reshape(-1)
        if pi.shape != (n,) or not np.isfinite(pi).all():
            ctx.violation(case, f"RW_stationary_state returned {pi!r}, not a finite vector of length N")
        else:
            sd = sum(d)
            if not close(sum(Fraction(float(x)) for x in pi), 1, TOL_SOLVE):
                ctx.violation(case, f"stationary state sums to {float(pi.sum())!r}")
            if any(x < -TOL_SOLVE for x in pi):
                ctx.violation(case, f"stationary state has a negative entry: {pi.tolist()}")
            piK = [sum(Fraction(float(pi[i])) * Fraction(float(K[i, j])) for i in range(n)) for j in range(n)]
            if any(not close(piK[j], pi[j], TOL_SOLVE) for j in range(n)):
                ctx.violation(case, f"stationary state is not fixed by the transition matrix: pi = {pi.tolist()}, "
                                    f"pi K = {[float(x) for x in piK]}")
            if any(not close(pi[i], Fraction(d[i], sd), TOL_SOLVE) for i in range(n)):
                ctx.violation(case, f"stationary state {pi.tolist()} is not proportional to sum over hyperedges of "
                                    f"(size-1)^2 = {d}")
            lines.append("stat")
            expect.append(("vector", pi.tolist(), TOL_SOLVE))
    # --- densities
    starts = []
    for i in range(n):
        starts.append([Fraction(int(i == k)) for k in range(n)])
    for _ in range(2):
        w = [rng_local.randint(0, 4) for _ in range(n)]
        if sum(w) == 0:
            w[rng_local.randrange(n)] = 1
        starts.append([Fraction(x, sum(w)) for x in w])
    Kq = [[Fraction(float(K[i, j])) for j in range(n)] for i in range(n)]
    for idx, s in enumerate(starts):
        if ctx.too_many():
            break
        time = rng_local.randint(0, 5)
        exact = True
        st, out = call(RW.random_walk_density, h, np.array([Q(x) for x in s], dtype=object), time)
        if st != "ok" or idx % 3 == 2:
            exact = False
            st, out = call(RW.random_walk_density, h, np.array([float(x) for x in s], dtype=float), time)
            ctx.count("density_float_runs")
        else:
            ctx.count("density_exact_runs")
        c2 = {**case, "density": [hgxv.enc_num(x) for x in s], "time": time}
        if st != "ok":
            ctx.violation(c2, f"random_walk_density raised: {out}")
            continue
        try:
            out = [[frac_of(x) for x in np.asarray(v).reshape(-1)] for v in out]
        except Exception as e:  # noqa: BLE001
            ctx.violation(c2, f"random_walk_density returned something that is not a list of vectors: {e}")
            continue
        if len(out) != time + 1 or any(len(v) != n for v in out):
            ctx.violation(c2, f"random_walk_density returned {len(out)} vectors for time={time}")
            continue
        if any(not close(a, b, 0 if exact else TOL) for a, b in zip(out[0], s)):
            ctx.violation(c2, "the first density is not the starting density")
        for t in range(time):
            want = [sum(out[t][i] * Kq[i][j] for i in range(n)) for j in range(n)]
            if any(not close(a, b, 0 if exact else TOL) for a, b in zip(out[t + 1], want)):
                ctx.violation(c2, f"density {t+1} is not density {t} times the transition matrix: "
                                  f"{[float(x) for x in out[t+1]]} vs {[float(x) for x in want]}")
                break
        for t in range(time + 1):
            if not close(sum(out[t]), 1, TOL):
                ctx.violation(c2, f"density {t} sums to {float(sum(out[t]))!r}")
                break
        lines.append("dens %s %d" % (hgxv.enc_list(s), time))
        expect.append(("matrix", out, TOL))
    # --- sampled walks
    for s in range(n):
        if ctx.too_many():
            break
        time = rng_local.randint(0, 8)
        c2 = {**case, "start": s, "time": time}
        rec = hgxv.Recorder()
        with rec:
            rec.patch(np.random, "choice", "np-global")
            np.random.seed(npseed + s)
            st, nodes = call(RW.random_walk, h, s, time)
        if st != "ok":
            ctx.violation(c2, f"random_walk raised: {nodes}")
            continue
        try:
            nodes = [int(x) for x in nodes]
            draws = [int(x[-1]) for x in rec.log]
        except Exception as e:  # noqa: BLE001
            ctx.violation(c2, f"random_walk returned non-integer nodes: {e}")
            continue
        if len(nodes) != time + 1 or nodes[:1] != [s]:
            ctx.violation({**c2, "walk": nodes}, f"walk from {s} for {time} steps returned {nodes}")
            continue
        for a, b in zip(nodes, nodes[1:]):
            if not (0 <= b < n and a != b and any(a in e and b in e for e in E)):
                ctx.violation({**c2, "walk": nodes}, f"the walk steps from {a} to {b}, which share no hyperedge")
                break
        ctx.count("walk_steps", time)
        lines.append("walk %d %s" % (s, hgxv.enc_list(draws)))
        expect.append(("plain", hgxv.enc_list(nodes)))
    _ask(ctx, drv, case, lines, expect)


def _ask(ctx, drv, case, lines, expect):
    if drv is None:
        return
    ans = drv.batch(lines)
    for ln, a, ex in zip(lines, ans, expect):
        ok = True
        if ex[0] == "plain":
            ok = a == ex[1]
        elif ex[0] in ("matrix", "vector"):
            try:
                got = hgxv.dec_lists(a) if ex[0] == "matrix" else [hgxv.dec_list(a)]
                want = ex[1] if ex[0] == "matrix" else [ex[1]]
                ok = len(got) == len(want) and all(
                    len(r) == len(w) and all(close(x, y, ex[2]) for x, y in zip(r, w)) for r, w in zip(got, want))
            except Exception:  # noqa: BLE001
                ok = False
        if not ok:
            ctx.disagree({**case, "line": ln}, f"model answers {a[:200]!r} to {ln[:120]!r}, implementation gives {str(ex[1])[:200]}")


# ------------------------------------------------------------------------------------------
# contagion

def spread_oracle(E, nodes, I, T, b, bd, mu):
    """the deterministic regimes in the property's words (rates in {0,1}); counts of infected per step"""
    counts = [0] * T
    counts[0] = sum(I.values())
    t = 1
    while counts[t - 1] > 0 and t < T:
        new = dict(I)
        for v in nodes:
            if I[v] == 0:
                by_pair = b == 1 and any(len(e) == 2 and v in e and all(I[u] == 1 for u in e if u != v) for e in E)
                by_tri = bd == 1 and any(len(e) == 3 and v in e and all(I[u] == 1 for u in e if u != v) for e in E)
                new[v] = 1 if (by_pair or by_tri) else 0
            else:
                new[v] = 0 if mu == 1 else 1
        I = new
        counts[t] = sum(I.values())
        t += 1
    return counts


def rate_triples(rng):
    out = [(b, bd, mu) for b in (0, 1) for bd in (0, 1) for mu in (0, 1)]
    r8 = lambda: rng.randint(1, 7) / 8  # noqa: E731
    out += [(r8(), r8(), 0), (rng.random(), 0, 0.0), (0, 0, r8()), (0.0, 0, rng.random()),
            (r8(), r8(), r8()), (rng.random(), rng.random(), rng.random())]
    return out


def check_cont(ctx, drv, case):
    import numpy as np
    from hypergraphx.dynamics.contagion import simplicial_contagion
    edges, node_order = [tuple(e) for e in case["edges"]], case["node_order"]
    I0 = {int(k): int(v) for k, v in (case["I0"].items() if isinstance(case["I0"], dict) else case["I0"])}
    T, npseed = case["T"], case["npseed"]
    st, h = call(build, edges, node_order)
    if st != "ok":
        ctx.violation(case, f"building the hypergraph failed: {h}")
        return
    E = sorted(tuple(sorted(e)) for e in edges)
    nodes = list(h.get_nodes())
    keys = list(I0)
    N = len(I0)
    inf0 = [k for k in keys if I0[k] == 1]
    lines = ["load %d %s" % (max(keys + [0]) + 1, hgxv.enc_lists(E))]
    expect = [("plain", "ok")]
    changes_max = 0
    for (b, bd, mu) in [tuple(r) for r in case["rates"]]:
        if ctx.too_many():
            break
        c2 = {**case, "rates": [[b, bd, mu]]}
        det = all(x in (0, 1) for x in (b, bd, mu))
        rec = hgxv.Recorder()
        with rec:
            rec.patch(np.random, "random", "np-global")
            np.random.seed(npseed)
            st, out = call(simplicial_contagion, h, dict(I0), T, b, bd, mu)
        if st != "ok":
            ctx.violation(c2, f"simplicial_contagion raised: {out}")
            continue
        try:
            out = [float(x) for x in np.asarray(out).reshape(-1)]
            draws = [Fraction(float(x[-1])) for x in rec.log]
        except Exception as e:  # noqa: BLE001
            ctx.violation(c2, f"simplicial_contagion returned a non-numeric result: {e}")
            continue
        ctx.count("contagion_runs")
        ctx.count("contagion_draws", len(draws))
        if len(out) != T:
            ctx.violation(c2, f"result has {len(out)} entries for T={T}")
            continue
        if any(not (0 <= x <= 1) for x in out):
            ctx.violation(c2, f"fractions outside [0,1]: {out}")
        if not close(out[0], Fraction(len(inf0), N), TOL):
            ctx.violation(c2, f"first value {out[0]} is not the initial infected fraction {len(inf0)}/{N}")
        if mu == 0 and any(y < x - TOL for x, y in zip(out, out[1:])):
            ctx.violation(c2, f"recovery rate 0 but the infected fraction decreases: {out}")
        if b == 0 and bd == 0 and any(y > x + TOL for x, y in zip(out, out[1:])):
            ctx.violation(c2, f"both infection rates 0 but the infected fraction increases: {out}")
        if det:
            want = spread_oracle(E, nodes, I0, T, b, bd, mu)
            if any(not close(x, Fraction(c, N), TOL) for x, c in zip(out, want)):
                ctx.violation(c2, f"deterministic regime (beta, beta_D, mu) = {(b, bd, mu)}: trajectory "
                                  f"{[round(x * N) for x in out]} differs from the spreading through pairs and triangles {want}")
            lines.append("spread %s %s %s %d %s %s %s" % (hgxv.enc_list(nodes), hgxv.enc_list(keys), hgxv.enc_list(inf0), T,
                                                         hgxv.enc_num(b), hgxv.enc_num(bd), hgxv.enc_num(mu)))
            expect.append(("plain", hgxv.enc_list(want)))
        changes_max = max(changes_max, sum(1 for x, y in zip(out, out[1:]) if x != y))
        cnt = [int(round(x * N)) for x in out]
        lines.append("cont %s %s %s %d %s %s %s %s" % (
            hgxv.enc_list(nodes), hgxv.enc_list(keys), hgxv.enc_list(inf0), T,
            hgxv.enc_num(Fraction(float(b))), hgxv.enc_num(Fraction(float(bd))), hgxv.enc_num(Fraction(float(mu))),
            hgxv.enc_list(draws)))
        expect.append(("cont", cnt, out, len(draws)))
    key = "cont|" + repr((E, nodes, sorted(I0.items()), T, npseed))
    ctx.case(key, changes_max >= 2, sample=case)
    ctx.count("contagion_cases")
    if drv is None:
        return
    ans = drv.batch(lines)
    for ln, a, ex in zip(lines, ans, expect):
        if ex[0] == "plain":
            ok = a == ex[1]
        else:
            try:
                c, fr, used = a.split(" ")
                ok = (hgxv.dec_list(c) == ex[1] and int(used) == ex[3]
                      and all(close(x, y, TOL) for x, y in zip(hgxv.dec_list(fr), ex[2])) and len(hgxv.dec_list(fr)) == len(ex[2]))
            except Exception:  # noqa: BLE001
                ok = False
        if not ok:
            ctx.disagree({**case, "line": ln}, f"model answers {a[:200]!r} to {ln[:160]!r}, implementation gives {str(ex[1:])[:200]}")


def gen_rw(rng):
    n = rng.choice([2, 3, 3, 4, 4, 5, 5, 6, 6, 7, 7]) if rng.random() > 0.02 else 1
    connected = rng.random() > 0.12
    sizes = rng.choice([[2], [2, 3], [2, 3, 3, 4], [2, 3, 4, 5], [3], [3, 4, 5]])
    edges = gen_edges(rng, n, connected, sizes)
    order = list(range(n))
    if rng.random() < 0.5:
        rng.shuffle(order)
    case = {"kind": "rw", "N": n, "edges": [list(e) for e in edges], "node_order": order, "npseed": rng.randrange(2 ** 31)}
    if n >= 3 and len(edges) >= 2 and rng.random() < 0.25:
        # an earlier content of the same object: same number of nodes and hyperedges, one hyperedge different
        cur = {tuple(sorted(e)) for e in edges}
        for _ in range(10):
            e2 = tuple(sorted(rng.sample(range(n), rng.choice([2, 2, 3]) if n >= 3 else 2)))
            if e2 not in cur:
                w = [list(e) for e in edges]
                w[rng.randrange(len(w))] = list(e2)
                if len({tuple(sorted(e)) for e in w}) == len(edges):
                    case["warm"] = w
                break
    return case


def gen_cont(rng):
    n = rng.randint(3, 8)
    sizes = rng.choice([[2], [3], [2, 3], [2, 2, 3, 3, 4], [2, 3, 3, 5]])
    edges = gen_edges(rng, n, rng.random() > 0.25, sizes)
    if rng.random() < 0.5:
        # close some triangles / add pairs so that both mechanisms are exercised
        for _ in range(rng.randint(1, 3)):
            edges.append(tuple(sorted(rng.sample(range(n), 3))))
        edges = sorted(set(edges))
        rng.shuffle(edges)
    order = list(range(n))
    rng.shuffle(order)
    keys = list(range(n)) + ([n, n + 1] if rng.random() < 0.1 else [])
    rng.shuffle(keys)
    p = rng.choice([0.15, 0.3, 0.5, 0.8])
    I0 = [[k, int(rng.random() < p)] for k in keys]
    if rng.random() < 0.9 and not any(v for _, v in I0):
        I0[0][1] = 1
    return {"kind": "cont", "edges": [list(e) for e in edges], "node_order": order, "I0": I0, "T": rng.randint(1, 9),
            "rates": [list(r) for r in rate_triples(rng)], "npseed": rng.randrange(2 ** 31)}


def run(ctx):
    drv = ctx.driver() if ctx.model_available else None
    n_rw = ctx.scale(300, 5000)
    n_ct = ctx.scale(300, 5000)
    # the smallest inputs first (single hyperedge, path, triangle + edge, 4-cycle)
    fixed = [(2, [[0, 1]]), (3, [[0, 1], [1, 2]]), (4, [[0, 1, 2], [2, 3]]), (4, [[0, 1], [1, 2], [2, 3], [0, 3]]),
             (3, [[0, 1, 2]]), (5, [[0, 1, 2, 3, 4], [0, 1]])]
    for n, es in fixed:
        check_rw(ctx, drv, {"kind": "rw", "N": n, "edges": es, "node_order": list(range(n)), "npseed": 1})
    for i in range(max(n_rw, n_ct)):
        if i < n_rw:
            check_rw(ctx, drv, gen_rw(ctx.rng))
        if i < n_ct:
            check_cont(ctx, drv, gen_cont(ctx.rng))
        if ctx.too_many() or (ctx.time_left() is not None and ctx.time_left() < 5):
            break


def replay(ctx, case):
    drv = ctx.driver() if ctx.model_available else None
    case = {k: v for k, v in case.items() if k not in ("line", "density", "time", "start", "walk")}
    if case.get("kind") == "cont":
        check_cont(ctx, drv, case)
    else:
        check_rw(ctx, drv, case)
