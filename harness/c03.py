"""C03 - TemporalHypergraph keeps (time, hyperedge) records; windows / snapshots / aggregate agree.

Three executions of every generated history are compared after every operation:
  * the REAL code (hypergraphx.TemporalHypergraph, public API only),
  * an independent spec-level Python oracle `Spec` (a plain map (time, node set) -> [weight, metadata] plus
    nodes with metadata) - a difference is a VIOLATION (the implementation contradicts the property),
  * the Lean model lean/Hgxv/Model/C03.lean through lean/Driver/C03.lean - a difference is a broken correspondence.
Direct oracles (in the property's own words, on the implementation's outputs only): window selection,
per-time snapshots, aggregate(w), purity of every derivation (digest before/after), rejected calls are no-ops.
"""
import copy as _copy
import json
import math
import signal
from fractions import Fraction

import hgxv

RULE = ("random histories (6-40 public mutating calls; 1-2 object slots for copy) over 3-6 nodes (int, shifted int or "
        "string labels, mapped to ranks), node sets of size 0-4 in permuted order, times 0..12 drawn mostly from a pool "
        "of 2-4 times so that (time,set) records are re-inserted, removed and re-inserted, weights k/4, both "
        "weightedness settings, metadata tokens; 10-15% malformed calls (time 1.5 / '3' / -1, missing record or node, "
        "weight 2 on unweighted, both order and size, bad batches). After every call: full digest + 3 random queries; "
        "twice per history: every query with every filter (order -1..4, size 0..5, up_to), all windows a,b in -1..14, "
        "per-time snapshots, aggregate for all widths 1..15 and malformed widths. A history is distinct by its "
        "canonical op list; non-trivial = >=1 accepted removal and >=1 insertion of a record that is or was present.")
ASSUMPTIONS = ["node labels are mutually comparable and used only through ==, hash, < (mapped to ranks for the model)",
               "hyperedges are duplicate-free node tuples (the quantifier says node sets)",
               "times sent as 'non-integer' are 1.5 and '3'; Python bool is not generated as a time",
               "weights are multiples of 1/4 (float + is exact), metadata values come from a fixed JSON pool"]
TRUSTED = ["Hypergraph objects returned by aggregate()/subhypergraph() are read through Hypergraph's public getters "
           "(Hypergraph.add_edge/add_node are modelled at spec level: HSpec in Model/C03.lean)",
           "the spec-level Python oracle in harness/c03.py (class Spec) is hand-written from the property text"]
BUDGET_S = {"quick": 75, "thorough": 1500}

VALPOOL = ["a", 7, 2.5, [1, "x"], {"z": 1}, None]
RESERVED_VALS = {90: False, 91: True, 92: "TemporalHypergraph"}
RESERVED_KEYS = {100: "weighted", 101: "type"}
ALLT = list(range(0, 13))
ORDERS = [-1, 0, 1, 2, 3, 4]
SIZES = [0, 1, 2, 3, 4, 5]


# ------------------------------------------------------------------------------------------------------------
# tokens <-> python values

def key_py(k):
    return RESERVED_KEYS.get(k, "k%d" % k)


def val_py(v):
    return _copy.deepcopy(RESERVED_VALS[v] if v in RESERVED_VALS else VALPOOL[v])


_VAL_TOK = {json.dumps(v, sort_keys=True): t for t, v in list(enumerate(VALPOOL)) + list(RESERVED_VALS.items())}
_KEY_TOK = {v: k for k, v in RESERVED_KEYS.items()}


def key_tok(k):
    if k in _KEY_TOK:
        return _KEY_TOK[k]
    if isinstance(k, str) and k[:1] == "k" and k[1:].isdigit():
        return int(k[1:])
    return "?" + repr(k)


def val_tok(v):
    try:
        return _VAL_TOK.get(json.dumps(v, sort_keys=True), "?" + repr(v))
    except Exception:
        return "?" + repr(v)


def md_py(md):
    """token metadata (list of [k, v]) -> fresh python dict; None stays None"""
    if md is None:
        return None
    return {key_py(k): val_py(v) for k, v in md}


def f_meta_tok(items):
    items = sorted(items, key=lambda kv: (str(type(kv[0])), kv[0]))
    return "+".join("%s:%s" % (k, v) for k, v in items) if items else "_"


def f_meta(d):
    if not isinstance(d, dict):
        return "?" + repr(d)
    return f_meta_tok([(key_tok(k), val_tok(v)) for k, v in d.items()])


_WC = [0]


def w_py(q):
    """weight quanta (1/4) -> python number; whole numbers alternate between int and float (1 vs 1.0)"""
    if q is None:
        return None
    _WC[0] += 1
    return q // 4 if (q % 4 == 0 and _WC[0] % 2 == 0) else q / 4


def w_tok(w):
    try:
        fr = Fraction(w) * 4
        return str(fr.numerator) if fr.denominator == 1 else "?%r" % (w,)
    except Exception:
        return "?%r" % (w,)


def t_py(t):
    return {"f": 1.5, "s": "3"}.get(t, t) if isinstance(t, str) else t


def t_wire(t):
    return "x" if isinstance(t, str) else str(t)


def f_nodes(ns):
    ns = sorted(ns)
    return ",".join(str(x) for x in ns) if ns else "-"


def f_edge(e):
    return ",".join(str(x) for x in e) if len(e) else "_"


def f_rec(t, e):
    return "%s/%s" % (t, f_edge(e))


def f_join(items, sep=";", empty="-"):
    items = list(items)
    return sep.join(items) if items else empty


def f_ints(xs):
    xs = sorted(xs)
    return ",".join(str(x) for x in xs) if xs else "-"


def f_map(d):
    return f_join(("%s:%s" % (k, d[k]) for k in sorted(d)), ",")


def f_hspec(weighted, nodes_meta, edges):
    """nodes_meta: {rank: metastring}; edges: list of (sorted rank tuple, weight token, metastring)"""
    ns = f_join("%s=%s" % (n, nodes_meta[n]) for n in sorted(nodes_meta))
    es = f_join("%s@%s=%s" % (f_edge(e), w, m) for e, w, m in sorted(edges))
    return "%d~%s~%s" % (1 if weighted else 0, ns, es)


def strip_edge_meta(a):
    import re
    return re.sub(r"(@-?\d+)=[^;|~]*", r"\1", a)


class Timeout(Exception):
    pass


class time_limit:
    def __init__(self, s):
        self.s = s

    def __enter__(self):
        def h(sig, frm):
            raise Timeout()
        self.old = signal.signal(signal.SIGALRM, h)
        signal.setitimer(signal.ITIMER_REAL, self.s)

    def __exit__(self, *a):
        signal.setitimer(signal.ITIMER_REAL, 0)
        signal.signal(signal.SIGALRM, self.old)
        return False


# ------------------------------------------------------------------------------------------------------------
# spec-level oracle: a map (time, node set) -> [weight quanta, metadata tokens], nodes -> metadata tokens

class Rej(Exception):
    pass


def valid_time(t):
    return isinstance(t, int) and not isinstance(t, bool) and t >= 0


class Spec:
    def __init__(self, weighted):
        self.weighted = weighted
        self.nodes = {}          # rank -> {ktok: vtok}
        self.recs = {}           # (t, frozenset) -> [w, {ktok: vtok}]   (creation order)
        self.hmeta = {100: 91 if weighted else 90, 101: 92}

    def clone(self):
        return _copy.deepcopy(self)

    # -- mutators ------------------------------------------------------------------------------------------
    def add_node(self, n, md):
        if n not in self.nodes:
            self.nodes[n] = {}
        if self.nodes[n] == {}:
            self.nodes[n] = dict(md or [])

    def add_nodes(self, ns, mdmap):
        if mdmap is not None:
            have = {n for n, _ in mdmap}
            if any(n not in have for n in ns):
                raise Rej()
            d = {n: m for n, m in mdmap}
        for n in ns:
            self.add_node(n, d[n] if mdmap is not None else None)

    def add_edge(self, raw, t, w, md):
        if not valid_time(t):
            raise Rej()
        if not self.weighted and w is not None and w != 4:
            raise Rej()
        w = 4 if w is None else w
        k = (t, frozenset(raw))
        if k not in self.recs:
            self.recs[k] = [w, {}]
        elif self.weighted:
            self.recs[k][0] += w
        self.recs[k][1] = dict(md or [])
        for n in raw:
            self.add_node(n, None)

    def add_edges(self, raws, ts, ws, mds):
        if len(raws) != len(ts):
            raise Rej()
        if ws is not None:
            if len(set(tuple(r) for r in raws)) != len(raws) or len(ws) != len(raws):
                raise Rej()
        if mds is not None and len(mds) != len(raws):
            raise Rej()
        if any(not valid_time(t) for t in ts):
            raise Rej()
        if ws is not None:
            self.weighted = True
        for i, r in enumerate(raws):
            self.add_edge(r, ts[i], ws[i] if ws is not None else None, mds[i] if mds is not None else None)

    def key(self, raw, t):
        k = (t, frozenset(raw)) if (isinstance(t, int) and not isinstance(t, bool)) else None
        return k if k in self.recs else None

    def remove_edge(self, raw, t):
        k = self.key(raw, t)
        if k is None:
            raise Rej()
        del self.recs[k]

    def remove_edges(self, raws, ts):
        ks = [self.key(r, t) for r, t in zip(raws, ts)]
        if any(k is None for k in ks) or len(set(ks)) != len(ks):
            raise Rej()
        for k in ks:
            del self.recs[k]

    def remove_node(self, n, keep):
        if n not in self.nodes:
            raise Rej()
        for k in [k for k in self.recs if n in k[1]]:
            w, md = self.recs.pop(k)
            rest = k[1] - {n}
            if keep and rest:
                self.add_edge(sorted(rest), k[0], w, list(md.items()))
        del self.nodes[n]

    def remove_nodes(self, ns, keep):
        if any(n not in self.nodes for n in ns) or len(set(ns)) != len(ns):
            raise Rej()
        for n in ns:
            self.remove_node(n, keep)

    def set_weight(self, raw, t, w):
        if not self.weighted and w != 4:
            raise Rej()
        k = self.key(raw, t)
        if k is None:
            raise Rej()
        self.recs[k][0] = w

    def apply(self, op):
        """returns 'ok' / 'rej'; a rejected call leaves the spec untouched"""
        name, a = op[0], op[2:]
        snap = self.clone().__dict__
        try:
            if name == "addnode":
                self.add_node(a[0], a[1])
            elif name == "addnodes":
                self.add_nodes(a[0], a[1])
            elif name == "addedge":
                self.add_edge(a[0], a[1], a[2], a[3])
            elif name == "addedges":
                self.add_edges(a[0], a[1], a[2], a[3])
            elif name == "rmedge":
                self.remove_edge(a[0], a[1])
            elif name == "rmedges":
                self.remove_edges(a[0], a[1])
            elif name == "rmnode":
                self.remove_node(a[0], a[1])
            elif name == "rmnodes":
                self.remove_nodes(a[0], a[1])
            elif name == "setw":
                self.set_weight(a[0], a[1], a[2])
            elif name == "setnmeta":
                if a[0] not in self.nodes:
                    raise Rej()
                self.nodes[a[0]] = dict(a[1])
            elif name == "setemeta":
                k = self.key(a[0], a[1])
                if k is None:
                    raise Rej()
                self.recs[k][1] = dict(a[2])
            elif name == "sethmeta":
                self.hmeta = dict(a[0])
            elif name == "attrh":
                self.hmeta[a[0]] = a[1]
            elif name == "attrn":
                if a[0] not in self.nodes:
                    raise Rej()
                self.nodes[a[0]][a[1]] = a[2]
            elif name == "attre":
                k = self.key(a[0], a[1])
                if k is None:
                    raise Rej()
                self.recs[k][1][a[2]] = a[3]
            elif name == "delattrn":
                if a[0] not in self.nodes or a[1] not in self.nodes[a[0]]:
                    raise Rej()
                del self.nodes[a[0]][a[1]]
            elif name == "delattre":
                k = self.key(a[0], a[1])
                if k is None or a[2] not in self.recs[k][1]:
                    raise Rej()
                del self.recs[k][1][a[2]]
            elif name == "clear":
                self.nodes, self.recs, self.hmeta = {}, {}, {}
            else:
                raise AssertionError(name)
            return "ok"
        except Rej:
            self.__dict__.update(snap)
            return "rej"

    # -- queries (brute force over the map) ----------------------------------------------------------------
    def sel(self, o, s, u, win=None):
        if o is not None and s is not None:
            raise Rej()
        if win == "bad":
            raise Rej()
        ks = list(self.recs)
        if win is not None:
            ks = [k for k in ks if win[0] <= k[0] < win[1]]
        if s is not None:
            o = s - 1
        if o is not None:
            ks = [k for k in ks if (len(k[1]) - 1 <= o if u else len(k[1]) - 1 == o)]
        return ks

    def inc(self, n, o, s):
        if n not in self.nodes or (o is not None and s is not None):
            raise Rej()
        if s is not None:
            o = s - 1
        return [k for k in self.recs if n in k[1] and (o is None or len(k[1]) - 1 == o)]

    def neigh(self, n, o, s):
        out = set()
        for k in self.inc(n, o, s):
            out |= k[1]
        return out - {n}

    def hspec_of(self, ks, all_nodes):
        """the Hypergraph the property describes for a group of records (node sets, weights summed / 1)"""
        edges = {}
        for k in sorted(ks, key=lambda k: (k[0], sorted(k[1]))):
            e = tuple(sorted(k[1]))
            w, md = self.recs[k]
            if e not in edges:
                edges[e] = [w if self.weighted else 4, md]
            else:
                if self.weighted:
                    edges[e][0] += w
                edges[e][1] = md
        nm = {}
        for e in edges:
            for n in e:
                nm[n] = "_"
        if all_nodes:
            for n in self.nodes:
                nm[n] = f_meta_tok(self.nodes[n].items())
        return f_hspec(self.weighted, nm, [(e, str(v[0]), f_meta_tok(v[1].items()) if all_nodes else "_")
                                           for e, v in edges.items()])

    def query(self, q):
        """canonical answer string, 'rej', or None when the observable is not defined at spec level (ids)"""
        try:
            return self._query(q)
        except Rej:
            return "rej"

    def _query(self, q):
        name, a = q[0], q[1:]
        R = self.recs
        fk = lambda k: f_rec(k[0], sorted(k[1]))
        skey = lambda k: (k[0], sorted(k[1]))
        if name == "nodes":
            return f_nodes(self.nodes)
        if name == "nodesmeta":
            return f_join("%s=%s" % (n, f_meta_tok(self.nodes[n].items())) for n in sorted(self.nodes))
        if name == "checknode":
            return "1" if a[0] in self.nodes else "0"
        if name == "numnodes":
            return str(len(self.nodes))
        if name == "edges":
            win, o, s, u, m = a
            ks = sorted(self.sel(o, s, u, win), key=skey)
            if m:
                return f_join(fk(k) + "=" + f_meta_tok(R[k][1].items()) for k in ks)
            return f_join(fk(k) for k in ks)
        if name == "numedges":
            return str(len(self.sel(*a)))
        if name == "checkedge":
            return "1" if self.key(a[0], a[1]) is not None else "0"
        if name == "weight":
            k = self.key(a[0], a[1])
            if k is None:
                raise Rej()
            return str(R[k][0])
        if name == "weights":
            o, s, u, d = a
            if o is not None and s is not None:
                raise Rej()
            ks = list(R) if (o is None and s is None) else self.sel(o, s, u)
            if d:
                return f_join(fk(k) + "@" + str(R[k][0]) for k in sorted(ks, key=skey))
            return f_ints(R[k][0] for k in ks)
        if name == "incident":
            return f_join(fk(k) for k in sorted(self.inc(*a), key=skey))
        if name == "neighbors":
            return f_nodes(self.neigh(*a))
        if name == "degree":
            return str(len(self.inc(*a)))
        if name == "degseq":
            o, s = a
            if o is not None and s is not None:
                raise Rej()
            return f_map({n: len(self.inc(n, o, s)) for n in self.nodes})
        if name == "degdist":
            o, s = a
            if o is not None and s is not None:
                raise Rej()
            d = {}
            for n in self.nodes:
                k = len(self.inc(n, o, s))
                d[k] = d.get(k, 0) + 1
            return f_map(d)
        if name == "sizes":
            return f_ints(len(k[1]) for k in R)
        if name == "orders":
            return f_ints(len(k[1]) - 1 for k in R)
        if name == "distsizes":
            d = {}
            for k in R:
                d[len(k[1])] = d.get(len(k[1]), 0) + 1
            return f_map(d)
        if name == "maxsize":
            if not R:
                raise Rej()
            return str(max(len(k[1]) for k in R))
        if name == "maxorder":
            if not R:
                raise Rej()
            return str(max(len(k[1]) for k in R) - 1)
        if name == "uniform":
            return "1" if len({len(k[1]) for k in R}) <= 1 else "0"
        if name == "weighted":
            return "1" if self.weighted else "0"
        if name == "nmeta":
            if a[0] not in self.nodes:
                raise Rej()
            return f_meta_tok(self.nodes[a[0]].items())
        if name == "emeta":
            k = self.key(a[0], a[1])
            if k is None:
                raise Rej()
            return f_meta_tok(R[k][1].items())
        if name == "hmeta":
            return f_meta_tok(self.hmeta.items())
        if name == "isolated":
            o, s = a
            if o is not None and s is not None:
                raise Rej()
            return f_nodes(n for n in self.nodes if not self.neigh(n, o, s))
        if name == "isisolated":
            if a[1] is not None and a[2] is not None:
                raise Rej()
            return "1" if not self.neigh(*a) else "0"
        if name == "len":
            return str(len(R))
        if name == "timesfor":
            return f_ints(k[0] for k in R if k[1] == frozenset(a[0]))
        if name == "mintime":
            return str(min(k[0] for k in R)) if R else "inf"
        if name == "maxtime":
            return str(max(k[0] for k in R)) if R else "-inf"
        if name == "snap":
            win = a[0]
            if win == "bad":
                raise Rej()
            ks = [k for k in R if win is None or win[0] <= k[0] < win[1]]
            ts = sorted({k[0] for k in ks})
            return f_join(("%d>%s" % (t, self.hspec_of([k for k in ks if k[0] == t], False)) for t in ts), "|")
        if name == "agg":
            w = a[0]
            if not isinstance(w, int) or w <= 0:
                raise Rej()
            if not R:
                return "-"
            mt = max(k[0] for k in R)
            return f_join(("%d>%s" % (i, self.hspec_of([k for k in R if i * w <= k[0] < (i + 1) * w], True))
                           for i in range(mt // w + 1)), "|")
        if name in ("allemeta", "iter"):
            return None
        raise AssertionError(name)


# ------------------------------------------------------------------------------------------------------------
# the implementation side

class Impl:
    """runs ops/queries on real TemporalHypergraph objects; labels = lab[rank]"""

    def __init__(self, lab):
        self.lab = lab
        self.rank = {repr(v): i for i, v in enumerate(lab)}
        self.slots = {}
        _WC[0] = 0

    def L(self, raw):
        return tuple(self.lab[x] for x in raw)

    def R(self, x):
        return self.rank.get(repr(x), "?" + repr(x))

    def RE(self, e):
        return sorted(self.R(x) for x in e)

    def apply(self, op):
        from hypergraphx import TemporalHypergraph
        name = op[0]
        try:
            with time_limit(10):
                if name == "new":
                    self.slots[op[1]] = TemporalHypergraph(weighted=bool(op[2]))
                    return "ok", None
                if name == "ctor":
                    _, slot, w, nmd, raws, ts, ws, mds, embed = op
                    kw = dict(weighted=bool(w), weights=None if ws is None else [w_py(x) for x in ws],
                              node_metadata=None if nmd is None else {self.lab[n]: md_py(m) for n, m in nmd},
                              edge_metadata=None if mds is None else [md_py(m) for m in mds])
                    if embed:
                        h = TemporalHypergraph(edge_list=[(t_py(t), self.L(r)) for r, t in zip(raws, ts)], **kw)
                    else:
                        h = TemporalHypergraph(edge_list=[self.L(r) for r in raws], time_list=[t_py(t) for t in ts], **kw)
                    self.slots[slot] = h
                    return "ok", None
                if name == "copy":
                    self.slots[op[2]] = self.slots[op[1]].copy()
                    return "ok", None
                h, a = self.slots[op[1]], op[2:]
                if name == "addnode":
                    h.add_node(self.lab[a[0]], md_py(a[1])) if a[1] is not None else h.add_node(self.lab[a[0]])
                elif name == "addnodes":
                    h.add_nodes([self.lab[n] for n in a[0]],
                                None if a[1] is None else {self.lab[n]: md_py(m) for n, m in a[1]})
                elif name == "addedge":
                    h.add_edge(self.L(a[0]), t_py(a[1]), weight=w_py(a[2]), metadata=md_py(a[3]))
                elif name == "addedges":
                    h.add_edges([self.L(r) for r in a[0]], [t_py(t) for t in a[1]],
                                weights=None if a[2] is None else [w_py(x) for x in a[2]],
                                metadata=None if a[3] is None else [md_py(m) for m in a[3]])
                elif name == "rmedge":
                    if a[2]:
                        h.remove_edge((t_py(a[1]), self.L(a[0])))
                    else:
                        h.remove_edge(self.L(a[0]), t_py(a[1]))
                elif name == "rmedges":
                    h.remove_edges([(t_py(t), self.L(r)) for r, t in zip(a[0], a[1])])
                elif name == "rmnode":
                    h.remove_node(self.lab[a[0]], keep_edges=bool(a[1]))
                elif name == "rmnodes":
                    h.remove_nodes([self.lab[n] for n in a[0]], keep_edges=bool(a[1]))
                elif name == "setw":
                    h.set_weight(self.L(a[0]), t_py(a[1]), w_py(a[2]))
                elif name == "setnmeta":
                    h.set_node_metadata(self.lab[a[0]], md_py(a[1]))
                elif name == "setemeta":
                    h.set_edge_metadata(self.L(a[0]), t_py(a[1]), md_py(a[2]))
                elif name == "sethmeta":
                    h.set_hypergraph_metadata(md_py(a[0]))
                elif name == "attrh":
                    h.set_attr_to_hypergraph_metadata(key_py(a[0]), val_py(a[1]))
                elif name == "attrn":
                    h.set_attr_to_node_metadata(self.lab[a[0]], key_py(a[1]), val_py(a[2]))
                elif name == "attre":
                    h.set_attr_to_edge_metadata(self.L(a[0]), t_py(a[1]), key_py(a[2]), val_py(a[3]))
                elif name == "delattrn":
                    h.remove_attr_from_node_metadata(self.lab[a[0]], key_py(a[1]))
                elif name == "delattre":
                    h.remove_attr_from_edge_metadata(self.L(a[0]), t_py(a[1]), key_py(a[2]))
                elif name == "clear":
                    h.clear()
                else:
                    raise AssertionError(name)
                return "ok", None
        except AssertionError:
            raise
        except Timeout:
            return "exc:timeout", "timeout"
        except BaseException as e:  # noqa: any exception = rejected
            if isinstance(e, KeyboardInterrupt):
                raise
            return "rej", "%s: %s" % (type(e).__name__, str(e)[:80])

    def flt(self, o, s, u=None):
        kw = {}
        if o is not None:
            kw["order"] = o
        if s is not None:
            kw["size"] = s
        if u:
            kw["up_to"] = True
        return kw

    def frec(self, r):
        return f_rec(r[0], self.RE(r[1]))

    def srecs(self, rs):
        return sorted(rs, key=lambda r: (r[0], self.RE(r[1])))

    def hobj(self, H, with_meta):
        nm = H.get_nodes(metadata=True)
        es = []
        for e in H.get_edges():
            es.append((tuple(self.RE(e)), w_tok(H.get_weight(e)), f_meta(H.get_edge_metadata(e))))
        return f_hspec(H.is_weighted(), {self.R(n): f_meta(m) for n, m in nm.items()}, es)

    def query(self, slot, q):
        try:
            with time_limit(10):
                return self._query(self.slots[slot], q)
        except Timeout:
            return "exc:timeout"
        except AssertionError:
            raise
        except BaseException as e:  # noqa
            if isinstance(e, KeyboardInterrupt):
                raise
            return "rej"

    def _query(self, h, q):
        name, a = q[0], q[1:]
        lab = self.lab
        if name == "nodes":
            return f_nodes(self.R(n) for n in h.get_nodes())
        if name == "nodesmeta":
            d = h.get_nodes(metadata=True)
            d2 = h.get_all_nodes_metadata()
            s1 = f_join("%s=%s" % (n, m) for n, m in sorted((self.R(n), f_meta(m)) for n, m in d.items()))
            s2 = f_join("%s=%s" % (n, m) for n, m in sorted((self.R(n), f_meta(m)) for n, m in d2.items()))
            return s1 if s1 == s2 else "get_nodes(metadata)=%s / get_all_nodes_metadata=%s" % (s1, s2)
        if name == "checknode":
            return "1" if h.check_node(lab[a[0]]) else "0"
        if name == "numnodes":
            return str(h.num_nodes())
        if name == "edges":
            win, o, s, u, m = a
            kw = self.flt(o, s, u)
            if win is not None:
                kw["time_window"] = [1, 2, 3] if win == "bad" else tuple(win)
            if m:
                d = h.get_edges(metadata=True, **kw)
                return f_join(self.frec(r) + "=" + f_meta(d[r]) for r in self.srecs(d))
            return f_join(self.frec(r) for r in self.srecs(h.get_edges(**kw)))
        if name == "numedges":
            return str(h.num_edges(**self.flt(*a)))
        if name == "checkedge":
            return "1" if h.check_edge(self.L(a[0]), t_py(a[1])) else "0"
        if name == "weight":
            return w_tok(h.get_weight(self.L(a[0]), t_py(a[1])))
        if name == "weights":
            o, s, u, d = a
            if d:
                w = h.get_weights(asdict=True, **self.flt(o, s, u))
                return f_join(self.frec(r) + "@" + w_tok(w[r]) for r in self.srecs(w))
            return f_ints(int(w_tok(x)) for x in h.get_weights(**self.flt(o, s, u)))
        if name == "incident":
            return f_join(self.frec(r) for r in self.srecs(h.get_incident_edges(lab[a[0]], **self.flt(a[1], a[2]))))
        if name == "neighbors":
            return f_nodes(self.R(n) for n in h.get_neighbors(lab[a[0]], **self.flt(a[1], a[2])))
        if name == "degree":
            return str(h.degree(lab[a[0]], **self.flt(a[1], a[2])))
        if name == "degseq":
            return f_map({self.R(n): d for n, d in h.degree_sequence(**self.flt(*a)).items()})
        if name == "degdist":
            return f_map(h.degree_distribution(**self.flt(*a)))
        if name == "sizes":
            return f_ints(h.get_sizes())
        if name == "orders":
            return f_ints(h.get_orders())
        if name == "distsizes":
            return f_map(h.distribution_sizes())
        if name == "maxsize":
            return str(h.max_size())
        if name == "maxorder":
            return str(h.max_order())
        if name == "uniform":
            return "1" if h.is_uniform() else "0"
        if name == "weighted":
            return "1" if h.is_weighted() else "0"
        if name == "nmeta":
            return f_meta(h.get_node_metadata(lab[a[0]]))
        if name == "emeta":
            return f_meta(h.get_edge_metadata(self.L(a[0]), t_py(a[1])))
        if name == "allemeta":
            d = h.get_all_edges_metadata()
            return f_join("%s=%s" % (i, f_meta(d[i])) for i in sorted(d))
        if name == "hmeta":
            return f_meta(h.get_hypergraph_metadata())
        if name == "isolated":
            return f_nodes(self.R(n) for n in h.isolated_nodes(**self.flt(*a)))
        if name == "isisolated":
            return "1" if h.is_isolated(lab[a[0]], **self.flt(a[1], a[2])) else "0"
        if name == "len":
            return str(len(h))
        if name == "iter":
            return f_join("%s#%s" % (self.frec(r), i) for r, i in sorted(((r, i) for r, i in h), key=lambda p: p[1]))
        if name == "timesfor":
            return f_ints(h.get_times_for_edge(self.L(a[0])))
        if name == "mintime":
            v = h.min_time()
            return "inf" if v == math.inf else str(v)
        if name == "maxtime":
            v = h.max_time()
            return "-inf" if v == -math.inf else str(v)
        if name == "snap":
            win = a[0]
            res = h.subhypergraph() if win is None else h.subhypergraph(
                time_window=[1, 2] if win == "bad" else tuple(win))
            return f_join(("%d>%s" % (t, self.hobj(res[t], False)) for t in sorted(res)), "|")
        if name == "agg":
            w = a[0]
            res = h.aggregate({"x": 2.0, "y": "2"}.get(w, w) if isinstance(w, str) else w)
            return f_join(("%d>%s" % (i, self.hobj(res[i], True)) for i in sorted(res)), "|")
        raise AssertionError(name)


# ------------------------------------------------------------------------------------------------------------
# wire lines for the Lean driver

def wl_meta(md):
    return "n" if md is None else f_meta_tok(md)


def wl_raws(raws):
    return f_join((f_edge(r) for r in raws), ";")


def wl_times(ts):
    return f_join((t_wire(t) for t in ts), ",")


def op_lines(op):
    name = op[0]
    if name == "new":
        return ["new %d %d" % (op[1], op[2])]
    if name == "ctor":
        _, slot, w, nmd, raws, ts, ws, mds, embed = op
        ls = ["new %d %d" % (slot, w)]
        for n, m in (nmd or []):
            ls.append("addnode %d %d %s" % (slot, n, wl_meta(m)))
        ls.append(op_lines(["addedges", slot, raws, ts, ws, mds])[0])
        return ls
    if name == "copy":
        return ["copy %d %d" % (op[1], op[2])]
    s, a = op[1], op[2:]
    if name == "addnode":
        return ["addnode %d %d %s" % (s, a[0], wl_meta(a[1]))]
    if name == "addnodes":
        mm = "n" if a[1] is None else f_join(("%d=%s" % (n, wl_meta(m)) for n, m in a[1]), ";")
        return ["addnodes %d %s %s" % (s, f_join((str(n) for n in a[0]), ","), mm)]
    if name == "addedge":
        return ["addedge %d %s %s %s %s" % (s, f_edge(a[0]), t_wire(a[1]), "n" if a[2] is None else a[2], wl_meta(a[3]))]
    if name == "addedges":
        return ["addedges %d %s %s %s %s" % (s, wl_raws(a[0]), wl_times(a[1]),
                                             "n" if a[2] is None else f_join((str(x) for x in a[2]), ","),
                                             "n" if a[3] is None else f_join((wl_meta(m) for m in a[3]), ";"))]
    if name == "rmedge":
        return ["rmedge %d %s %s" % (s, f_edge(a[0]), t_wire(a[1]))]
    if name == "rmedges":
        return ["rmedges %d %s %s" % (s, wl_raws(a[0]), wl_times(a[1]))]
    if name == "rmnode":
        return ["rmnode %d %d %d" % (s, a[0], a[1])]
    if name == "rmnodes":
        return ["rmnodes %d %s %d" % (s, f_join((str(n) for n in a[0]), ","), a[1])]
    if name == "setw":
        return ["setw %d %s %s %d" % (s, f_edge(a[0]), t_wire(a[1]), a[2])]
    if name == "setnmeta":
        return ["setnmeta %d %d %s" % (s, a[0], wl_meta(a[1]))]
    if name == "setemeta":
        return ["setemeta %d %s %s %s" % (s, f_edge(a[0]), t_wire(a[1]), wl_meta(a[2]))]
    if name == "sethmeta":
        return ["sethmeta %d %s" % (s, wl_meta(a[0]))]
    if name == "attrh":
        return ["attrh %d %d %d" % (s, a[0], a[1])]
    if name == "attrn":
        return ["attrn %d %d %d %d" % (s, a[0], a[1], a[2])]
    if name == "attre":
        return ["attre %d %s %s %d %d" % (s, f_edge(a[0]), t_wire(a[1]), a[2], a[3])]
    if name == "delattrn":
        return ["delattrn %d %d %d" % (s, a[0], a[1])]
    if name == "delattre":
        return ["delattre %d %s %s %d" % (s, f_edge(a[0]), t_wire(a[1]), a[2])]
    if name == "clear":
        return ["clear %d" % s]
    raise AssertionError(name)


def oi(x):
    return "-" if x is None else str(x)


def wl_win(win):
    return "-" if win is None else ("bad" if win == "bad" else "%d:%d" % (win[0], win[1]))


def q_line(slot, q):
    name, a = q[0], q[1:]
    p = "q %d %s" % (slot, name)
    if name in ("nodes", "nodesmeta", "numnodes", "sizes", "orders", "distsizes", "maxsize", "maxorder", "uniform",
                "weighted", "allemeta", "hmeta", "len", "iter", "mintime", "maxtime"):
        return p
    if name in ("checknode", "nmeta"):
        return "%s %d" % (p, a[0])
    if name == "edges":
        return "%s %s %s %s %d %d" % (p, wl_win(a[0]), oi(a[1]), oi(a[2]), a[3], a[4])
    if name == "numedges":
        return "%s %s %s %d" % (p, oi(a[0]), oi(a[1]), a[2])
    if name in ("checkedge", "weight", "emeta"):
        return "%s %s %s" % (p, f_edge(a[0]), t_wire(a[1]))
    if name == "weights":
        return "%s %s %s %d %d" % (p, oi(a[0]), oi(a[1]), a[2], a[3])
    if name in ("incident", "neighbors", "degree", "isisolated"):
        return "%s %d %s %s" % (p, a[0], oi(a[1]), oi(a[2]))
    if name in ("degseq", "degdist", "isolated"):
        return "%s %s %s" % (p, oi(a[0]), oi(a[1]))
    if name == "timesfor":
        return "%s %s" % (p, f_edge(a[0]))
    if name == "snap":
        return "%s %s" % (p, wl_win(a[0]))
    if name == "agg":
        return "%s %s" % (p, "x" if isinstance(a[0], str) else a[0])
    raise AssertionError(name)


DIGEST_QS = [("nodesmeta",), ("edges", None, None, None, 0, 1), ("weights", None, None, 0, 1), ("allemeta",),
             ("iter",), ("hmeta",), ("weighted",)]


def digest_queries(n):
    return DIGEST_QS + [("incident", i, None, None) for i in range(n)]


def filters(full):
    fl = [(None, None, 0)] + [(o, None, u) for o in ORDERS for u in (0, 1)] + [(None, s, u) for s in SIZES for u in (0, 1)]
    fl += [(1, 2, 0), (0, 3, 1)]
    return fl


def sweep_queries(rng, n, sp, full):
    """every query with every filter; all windows; snapshots; all widths"""
    qs = [("nodes",), ("numnodes",), ("sizes",), ("orders",), ("distsizes",), ("maxsize",), ("maxorder",), ("uniform",),
          ("len",), ("mintime",), ("maxtime",)]
    fl = filters(full)
    nf = [(None, None)] + [(o, None) for o in ORDERS] + [(None, s) for s in SIZES] + [(2, 2)]
    for o, s, u in fl:
        qs.append(("edges", None, o, s, u, 0))
        qs.append(("numedges", o, s, u))
        qs.append(("weights", o, s, u, 0))
        qs.append(("weights", o, s, u, 1))
    for o, s, u in rng.sample(fl, 6):
        qs.append(("edges", None, o, s, u, 1))
    for o, s in nf:
        qs.append(("degseq", o, s))
        qs.append(("degdist", o, s))
        qs.append(("isolated", o, s))
    for x in range(n + 1):          # rank n is never a node: absent-node path
        qs.append(("checknode", x))
        qs.append(("nmeta", x))
        for o, s in (nf if x < n else nf[:2]):
            qs.append(("incident", x, o, s))
            qs.append(("neighbors", x, o, s))
            qs.append(("degree", x, o, s))
            qs.append(("isisolated", x, o, s))
    # per-record queries: every present record, plus absent / malformed ones
    keys = [(sorted(k[1]), k[0]) for k in sp.recs]
    probes = list(keys)
    for _ in range(4):
        e = rng.sample(range(n), rng.randint(0, min(3, n)))
        probes.append((e, rng.choice(ALLT + [-1, "f", "s"])))
    for e, t in keys[:4]:
        probes.append((e, rng.choice([t + 1, "f", "s", -1])))
    for e, t in probes:
        e = list(e)
        rng.shuffle(e)
        for nm in ("checkedge", "weight", "emeta"):
            qs.append((nm, e, t))
    seen = set()
    for e, _ in probes:
        if tuple(sorted(e)) not in seen:
            seen.add(tuple(sorted(e)))
            e = list(e)
            rng.shuffle(e)
            qs.append(("timesfor", e))
    # windows
    wins = [(a, b) for a in range(-1, 15) for b in range(-1, 15)]
    for w in wins:
        qs.append(("edges", w, None, None, 0, 0))
    for w in rng.sample(wins, 40 if full else 16):
        o, s, u = rng.choice(fl)
        qs.append(("edges", w, o, s, u, rng.randint(0, 1)))
    qs.append(("edges", "bad", None, None, 0, 0))
    qs.append(("snap", None))
    qs.append(("snap", "bad"))
    for w in rng.sample(wins, 30 if full else 12):
        qs.append(("snap", w))
    for w in range(1, 16):
        qs.append(("agg", w))
    for w in (0, -1, -3, "x", "y", 40):
        qs.append(("agg", w))
    return qs


def random_queries(rng, n, sp, k):
    qs = []
    fl = filters(False)
    for _ in range(k):
        r = rng.random()
        o, s, u = rng.choice(fl)
        if r < 0.2:
            qs.append(("edges", rng.choice([None, (rng.randint(-1, 14), rng.randint(-1, 14))]), o, s, u, rng.randint(0, 1)))
        elif r < 0.3:
            qs.append(("numedges", o, s, u))
        elif r < 0.45:
            x = rng.randrange(n)
            qs.append((rng.choice(["incident", "neighbors", "degree", "isisolated"]), x, o if not u else None, s if not u else None))
        elif r < 0.55:
            qs.append((rng.choice(["degseq", "degdist", "isolated"]), o if not u else None, s if not u else None))
        elif r < 0.65:
            qs.append(("agg", rng.randint(1, 15)))
        elif r < 0.75:
            qs.append(("snap", rng.choice([None, (rng.randint(-1, 14), rng.randint(-1, 14))])))
        elif r < 0.85 and sp.recs:
            k0 = rng.choice(list(sp.recs))
            qs.append((rng.choice(["weight", "emeta", "checkedge"]), sorted(k0[1]), k0[0]))
        else:
            qs.append((rng.choice(["sizes", "distsizes", "maxsize", "uniform", "mintime", "maxtime", "len", "nodes"]),))
    return qs


# ------------------------------------------------------------------------------------------------------------
# direct property oracles on the implementation's own outputs (independent of Spec and of the model)

def oracle_derivations(ctx, case, impl, slot, n, rng, full):
    h = impl.slots[slot]
    out = []

    def bad(what):
        out.append(what)

    try:
        with time_limit(30):
            recs = [(r[0], tuple(impl.RE(r[1]))) for r in h.get_edges()]
            rl = {(t, e): r for r, (t, e) in zip(h.get_edges(), recs)}
            wt = {k: int(w_tok(h.get_weight(rl[k][1], rl[k][0]))) for k in recs}
            weighted = h.is_weighted()
            nodes = sorted(impl.R(x) for x in h.get_nodes())
            wins = [(a, b) for a in range(-1, 15) for b in range(-1, 15)]
            for (a, b) in (wins if full else rng.sample(wins, 60)):
                got = sorted((r[0], tuple(impl.RE(r[1]))) for r in h.get_edges(time_window=(a, b)))
                want = sorted(k for k in recs if a <= k[0] < b)
                if got != want:
                    bad("get_edges(time_window=(%d,%d)) = %s, records with %d <= t < %d are %s" % (a, b, got, a, b, want))
                    break
            # snapshots
            for win in [None] + rng.sample(wins, 6):
                res = h.subhypergraph() if win is None else h.subhypergraph(time_window=win)
                sel = [k for k in recs if win is None or win[0] <= k[0] < win[1]]
                if sorted(res) != sorted({k[0] for k in sel}):
                    bad("subhypergraph(%s) has times %s, records in the window have times %s"
                        % (win, sorted(res), sorted({k[0] for k in sel})))
                    break
                for t in res:
                    H = res[t]
                    got = sorted((tuple(impl.RE(e)), int(w_tok(H.get_weight(e)))) for e in H.get_edges())
                    want = sorted((k[1], wt[k] if weighted else 4) for k in sel if k[0] == t)
                    if got != want:
                        bad("subhypergraph(%s)[%d] has hyperedges/weights %s, the records of time %d are %s"
                            % (win, t, got, t, want))
                        break
            # aggregate
            for w in (range(1, 16) if full else rng.sample(range(1, 16), 5)):
                res = h.aggregate(w)
                if not recs:
                    if len(res) != 0:
                        bad("aggregate(%d) of a hypergraph without records is not empty" % w)
                    continue
                mt = max(k[0] for k in recs)
                if sorted(res) != list(range(mt // w + 1)):
                    bad("aggregate(%d) has indices %s, expected 0..%d (max time %d)" % (w, sorted(res), mt // w, mt))
                    break
                for i in sorted(res):
                    H = res[i]
                    if sorted(impl.R(x) for x in H.get_nodes()) != nodes:
                        bad("aggregate(%d)[%d] has nodes %s, temporal hypergraph has %s"
                            % (w, i, sorted(impl.R(x) for x in H.get_nodes()), nodes))
                        break
                    want = {}
                    for k in recs:
                        if i * w <= k[0] < (i + 1) * w:
                            want[k[1]] = (want.get(k[1], 0) + wt[k]) if weighted else 4
                    got = {tuple(impl.RE(e)): int(w_tok(H.get_weight(e))) for e in H.get_edges()}
                    if got != want:
                        bad("aggregate(%d)[%d] = %s, records in [%d,%d) give %s" % (w, i, got, i * w, (i + 1) * w, want))
                        break
                if out:
                    break
            for w in (0, -2, 2.0, "2"):
                try:
                    h.aggregate(w)
                    bad("aggregate(%r) was accepted" % (w,))
                except Exception:
                    pass
            # __str__ / __len__ / __iter__ are the counts and the size distribution of the records
            dist = {}
            for k in recs:
                dist[len(k[1])] = dist.get(len(k[1]), 0) + 1
            want_str = "Hypergraph with %d nodes and %d edges.\nDistribution of hyperedge sizes: %s" % (len(nodes), len(recs), dist)
            if str(h) != want_str:
                bad("str() = %r, the records give %r" % (str(h), want_str))
            if len(h) != len(recs) or sorted((r[0][0], tuple(impl.RE(r[0][1]))) for r in h) != sorted(recs):
                bad("len()/iter() do not list the records once each")
    except Timeout:
        bad("a derivation (get_edges window / subhypergraph / aggregate) did not terminate within 30 s")
    except Exception as e:
        bad("a derivation raised %s: %s" % (type(e).__name__, str(e)[:100]))
    for what in out[:1]:
        ctx.violation(case, what)
    return not out


# ------------------------------------------------------------------------------------------------------------
# generator

def gen_md(rng, allow_none=True):
    r = rng.random()
    if allow_none and r < 0.45:
        return None
    if r < 0.6:
        return []
    ks = rng.sample([0, 1], rng.randint(1, 2))
    return [[k, rng.randrange(len(VALPOOL))] for k in ks]


class Gen:
    def __init__(self, rng, n, weighted):
        self.rng, self.n, self.weighted = rng, n, weighted
        self.tpool = rng.sample(ALLT, rng.randint(2, 4))
        if rng.random() < 0.5 and 0 not in self.tpool:
            self.tpool[0] = 0
        self.epool = [self.rand_set() for _ in range(rng.randint(3, 5))]

    def rand_set(self):
        k = self.rng.choice([0, 1, 1, 2, 2, 2, 2, 3, 3, 3, 4, 4])
        return sorted(self.rng.sample(range(self.n), min(k, self.n)))

    def time(self):
        return self.rng.choice(self.tpool) if self.rng.random() < 0.75 else self.rng.choice(ALLT)

    def edge(self):
        e = list(self.rng.choice(self.epool)) if self.rng.random() < 0.75 else self.rand_set()
        self.rng.shuffle(e)
        return e

    def weight(self, sp, ok=True):
        if sp.weighted:
            return self.rng.choice([None, 4, 4, 2, 6, 8, 1, 3, 12, 0])
        if ok:
            return self.rng.choice([None, None, 4])
        return self.rng.choice([8, 2])

    def present(self, sp):
        if sp.recs and self.rng.random() < 0.93:
            k = self.rng.choice(list(sp.recs))
            e = sorted(k[1])
            self.rng.shuffle(e)
            return e, k[0]
        return self.edge(), self.time()

    def node(self, sp):
        if sp.nodes and self.rng.random() < 0.93:
            return self.rng.choice(list(sp.nodes))
        return self.rng.randrange(self.n)

    def badtime(self):
        return self.rng.choice(["f", "s", -1, -2])

    def op(self, slot, sp, two):
        rng = self.rng
        r = rng.random()
        mal = rng.random() < 0.10
        if r < 0.27:
            if mal:
                if rng.random() < 0.6 or sp.weighted:
                    return ["addedge", slot, self.edge(), self.badtime(), self.weight(sp), gen_md(rng)]
                return ["addedge", slot, self.edge(), self.time(), self.weight(sp, False), gen_md(rng)]
            if sp.recs and rng.random() < 0.35:
                e, t = self.present(sp)
                return ["addedge", slot, e, t, self.weight(sp), gen_md(rng)]
            return ["addedge", slot, self.edge(), self.time(), self.weight(sp), gen_md(rng)]
        if r < 0.35:
            k = rng.randint(0, 4)
            raws = [self.edge() for _ in range(k)]
            ts = [self.time() for _ in range(k)]
            ws = None
            if rng.random() < (0.6 if sp.weighted else 0.12):
                ws = [rng.choice([4, 2, 6, 8, 0]) for _ in range(k)]
                if not mal:
                    seen, r2, t2, w2 = set(), [], [], []
                    for e, t, w in zip(raws, ts, ws):
                        if tuple(e) not in seen:
                            seen.add(tuple(e))
                            r2.append(e), t2.append(t), w2.append(w)
                    raws, ts, ws = r2, t2, w2
            mds = [gen_md(rng, False) for _ in raws] if rng.random() < 0.4 else None
            if mal and raws:
                c = rng.random()
                if c < 0.4:
                    ts[rng.randrange(len(ts))] = self.badtime()
                elif c < 0.55:
                    ts = ts[:-1]
                elif c < 0.7 and ws is not None:
                    ws = ws[:-1]
                elif c < 0.85 and mds is not None:
                    mds = mds[:-1]
                elif ws is not None and len(raws) >= 1:
                    raws.append(list(raws[0])), ts.append(self.time()), ws.append(4)
                    if mds is not None:
                        mds.append([])
            return ["addedges", slot, raws, ts, ws, mds]
        if r < 0.45:
            e, t = self.present(sp)
            if mal:
                t = rng.choice([self.badtime(), (t + 1) if isinstance(t, int) else 0])
            return ["rmedge", slot, e, t, rng.randint(0, 1)]
        if r < 0.49:
            ks = list(sp.recs)
            rng.shuffle(ks)
            ks = ks[:rng.randint(0, 3)]
            raws, ts = [sorted(k[1]) for k in ks], [k[0] for k in ks]
            for e in raws:
                rng.shuffle(e)
            if mal:
                if raws and rng.random() < 0.5:
                    raws.append(list(raws[0])), ts.append(ts[0])
                else:
                    raws.append(self.edge()), ts.append(self.badtime())
            return ["rmedges", slot, raws, ts]
        if r < 0.57:
            x = self.node(sp) if not mal else rng.randrange(self.n)
            return ["rmnode", slot, x, rng.randint(0, 1)]
        if r < 0.60:
            ns = list(sp.nodes)
            rng.shuffle(ns)
            ns = ns[:rng.randint(0, 2)]
            if mal:
                ns.append(rng.choice(ns) if ns and rng.random() < 0.5 else rng.randrange(self.n))
            return ["rmnodes", slot, ns, rng.randint(0, 1)]
        if r < 0.65:
            return ["addnode", slot, rng.randrange(self.n), gen_md(rng)]
        if r < 0.68:
            ns = [rng.randrange(self.n) for _ in range(rng.randint(0, 3))]
            mm = None
            if rng.random() < 0.5:
                mm = [[x, gen_md(rng, False)] for x in sorted(set(ns))]
                if mal and mm:
                    mm = mm[:-1]
            return ["addnodes", slot, ns, mm]
        if r < 0.74:
            e, t = self.present(sp)
            w = rng.choice([4, 2, 6, 8, 1, 0]) if (sp.weighted or mal) else 4
            if mal and sp.weighted:
                t = self.badtime()
            return ["setw", slot, e, t, w]
        if r < 0.77:
            return ["setnmeta", slot, self.node(sp), gen_md(rng, False)]
        if r < 0.80:
            e, t = self.present(sp)
            return ["setemeta", slot, e, t, gen_md(rng, False)]
        if r < 0.81:
            return ["sethmeta", slot, gen_md(rng, False)]
        if r < 0.83:
            return ["attrh", slot, rng.choice([0, 1, 100]), rng.randrange(len(VALPOOL))]
        if r < 0.86:
            return ["attrn", slot, self.node(sp), rng.choice([0, 1]), rng.randrange(len(VALPOOL))]
        if r < 0.90:
            e, t = self.present(sp)
            return ["attre", slot, e, t, rng.choice([0, 1]), rng.randrange(len(VALPOOL))]
        if r < 0.92:
            x = self.node(sp)
            ks = list(sp.nodes.get(x, {}))
            return ["delattrn", slot, x, rng.choice(ks) if ks and not mal else rng.choice([0, 1])]
        if r < 0.95:
            e, t = self.present(sp)
            k = sp.key(e, t)
            ks = list(sp.recs[k][1]) if k else []
            return ["delattre", slot, e, t, rng.choice(ks) if ks and not mal else rng.choice([0, 1])]
        if r < 0.96:
            return ["clear", slot]
        return ["copy", slot, 1 - slot]


def make_labels(rng, n):
    """n node labels + one larger label (rank n) that is never inserted: the absent-node probes use it"""
    kind = rng.choice(["int", "shift", "str"])
    if kind == "int":
        return kind, list(range(n + 1))
    if kind == "shift":
        base = rng.randint(5, 90)
        return kind, sorted(rng.sample(range(base, base + 3 * n), n + 1))
    pool = ["", "A", "B", "Ba", "E1", "N0", "a", "ab", "b", "c", "zz"]
    return kind, sorted(rng.sample(pool, n + 1))


# ------------------------------------------------------------------------------------------------------------
# one history

class Runner:
    def __init__(self, ctx, drv, lab, kind):
        self.ctx, self.drv, self.lab, self.kind = ctx, drv, lab, kind
        self.n = len(lab) - 1
        self.impl = Impl(lab)
        self.specs = {}
        self.ops = []
        self.failed = False
        self.lines, self.expect = [], []   # pending model lines with the implementation's answers
        self.removed = False
        self.reinsert = False
        self.ever = {}

    def case(self, extra=None):
        c = {"labels": self.lab, "kind": self.kind, "ops": self.ops}
        if extra:
            c.update(extra)
        return c

    def flush(self):
        if self.drv is None or not self.lines:
            self.lines, self.expect = [], []
            return
        ans = self.drv.batch(self.lines)
        for ln, a, (ex, cs) in zip(self.lines, ans, self.expect):
            if ex is not None and a != ex and not self.failed:
                self.failed = True
                self.ctx.disagree(cs, "model answers %r to %r, implementation gives %r" % (a[:300], ln, ex[:300]))
        self.lines, self.expect = [], []

    def model(self, line, expect, extra=None):
        self.lines.append(line)
        self.expect.append((expect, self.case(extra)))

    def ask(self, slot, q, use_spec=True):
        """query the implementation, compare with spec (violation) and queue the model line"""
        got = self.impl.query(slot, q)
        if use_spec:
            want = self.specs[slot].query(q)
            # the property does not say which metadata an aggregated hyperedge carries: that detail is compared with
            # the model only (a difference there is a broken correspondence, not a violation)
            differs = (strip_edge_meta(got) != strip_edge_meta(want)) if (q[0] == "agg" and want is not None) else got != want
            if want is not None and differs and not self.failed:
                self.failed = True
                self.ctx.violation(self.case({"slot": slot, "query": list(q)}),
                                   "query %s on slot %d: implementation answers %s, the map of the same history gives %s"
                                   % (q_line(slot, q), slot, got[:300], want[:300]))
        self.model(q_line(slot, q), got, {"slot": slot, "query": list(q)})
        return got

    def digest(self, slot, use_spec=True):
        return [self.ask(slot, q, use_spec) for q in digest_queries(self.n)]

    def raw_digest(self, slot):
        return [self.impl.query(slot, q) for q in digest_queries(self.n)]

    def do(self, op):
        """apply one op everywhere; returns the implementation's outcome"""
        name = op[0]
        self.ops.append(op)
        if name in ("new", "ctor"):
            slot = op[1]
            res, exc = self.impl.apply(op)
            sp = Spec(bool(op[2]))
            if name == "ctor":
                _, _, w, nmd, raws, ts, ws, mds, embed = op
                for x, m in (nmd or []):
                    sp.add_node(x, m)
                sp.apply(["addedges", slot, raws, ts, ws, mds])
            self.specs[slot] = sp
            if res != "ok":
                self.failed = True
                self.ctx.violation(self.case(), "constructor call %s raised %s" % (op, exc))
                return res
            for ln in op_lines(op):
                self.model(ln, "ok")
            self.digest(slot)
            return res
        if name == "copy":
            i, j = op[1], op[2]
            self.ctx.count("op_copy")
            before = self.raw_digest(i)
            res, exc = self.impl.apply(op)
            self.specs[j] = self.specs[i].clone()
            if res != "ok":
                self.failed = True
                self.ctx.violation(self.case(), "copy() raised %s" % exc)
                return res
            self.model(op_lines(op)[0], "ok")
            if self.raw_digest(i) != before:
                self.failed = True
                self.ctx.violation(self.case(), "copy() changed the source object")
            self.digest(j)
            return res
        slot = op[1]
        sp = self.specs[slot]
        before = self.raw_digest(slot)
        other = [(s, self.raw_digest(s)) for s in self.impl.slots if s != slot]
        # bookkeeping for the non-triviality rule
        if name == "addedge" and valid_time(op[3]):
            k = (op[3], frozenset(op[2]))
            if k in self.ever:
                self.reinsert_candidate = True
        want = sp.apply(op)
        res, exc = self.impl.apply(op)
        self.ctx.count("op_" + name)
        self.ctx.count("accepted" if res == "ok" else "rejected")
        if want == "ok":
            if name in ("rmedge", "rmedges", "rmnode", "rmnodes") and (name not in ("rmedges", "rmnodes") or op[2]):
                self.removed = True
            if name in ("addedge", "addedges"):
                for e, t in ([(op[2], op[3])] if name == "addedge" else zip(op[2], op[3])):
                    k = (t, frozenset(e))
                    if k in self.ever:
                        self.reinsert = True
                    self.ever[k] = 1
        if res != want and not self.failed:
            self.failed = True
            self.ctx.violation(self.case({"slot": slot}),
                               "call %s: implementation %s%s, the map semantics %s"
                               % (op_lines(op)[0], "accepts" if res == "ok" else "rejects", " (%s)" % exc if exc else "",
                                  "accepts" if want == "ok" else "rejects"))
        self.model(op_lines(op)[0], res, {"slot": slot})
        after = self.raw_digest(slot)
        if res != "ok" and after != before and not self.failed:
            self.failed = True
            self.ctx.violation(self.case({"slot": slot}), "rejected call %s (%s) changed the object: digest before %s, after %s"
                               % (op_lines(op)[0], exc, before, after))
        self.digest(slot)
        for s, d in other:
            if self.raw_digest(s) != d and not self.failed:
                self.failed = True
                self.ctx.violation(self.case({"slot": s}), "call %s on slot %d changed the independent copy in slot %d"
                                   % (op_lines(op)[0], slot, s))
        return res

    def sweep(self, slot, rng, full):
        before = self.raw_digest(slot)
        for q in sweep_queries(rng, self.n, self.specs[slot], full):
            self.ask(slot, q)
            if self.failed:
                break
        if not self.failed:
            oracle_ok = oracle_derivations(self.ctx, self.case({"slot": slot}), self.impl, slot, self.n, rng, full)
            if not oracle_ok:
                self.failed = True
        after = self.raw_digest(slot)
        if after != before and not self.failed:
            self.failed = True
            self.ctx.violation(self.case({"slot": slot}), "queries / window / snapshot / aggregate derivations changed the "
                               "temporal hypergraph: digest before %s, after %s" % (before, after))
        self.flush()


def run_history(ctx, drv, rng, full=False, nops=None):
    n = rng.randint(3, 6)
    kind, lab = make_labels(rng, n)
    R = Runner(ctx, drv, lab, kind)
    weighted = rng.random() < 0.5
    g = Gen(rng, n, weighted)
    if rng.random() < 0.15:
        k = rng.randint(1, 4)
        raws = [g.edge() for _ in range(k)]
        raws = [list(e) for e in {tuple(e): 1 for e in raws}]
        ts = [g.time() for _ in raws]
        ws = [rng.choice([4, 2, 6, 0]) for _ in raws] if (weighted or rng.random() < 0.2) and rng.random() < 0.7 else None
        mds = [gen_md(rng, False) for _ in raws] if rng.random() < 0.5 else None
        nmd = [[x, gen_md(rng, False)] for x in rng.sample(range(n), rng.randint(1, 2))] if rng.random() < 0.5 else None
        R.do(["ctor", 0, int(weighted), nmd, raws, ts, ws, mds, int(rng.random() < 0.5)])
    else:
        R.do(["new", 0, int(weighted)])
    nops = nops or rng.randint(6, 40)
    sweep_at = {rng.randrange(nops), nops - 1}
    for i in range(nops):
        if R.failed:
            break
        two = 1 in R.impl.slots
        slot = 1 if two and rng.random() < 0.35 else 0
        op = g.op(slot, R.specs[slot], two)
        R.do(op)
        if R.failed:
            break
        for q in random_queries(rng, n, R.specs[slot], 3):
            R.ask(slot, q)
        if i in sweep_at:
            R.sweep(slot, rng, full)
        elif i % 8 == 7:
            R.flush()
    R.flush()
    nontrivial = R.removed and R.reinsert
    ctx.case(json.dumps(R.ops, sort_keys=True), nontrivial, sample={"labels": lab, "ops": R.ops[:12]})
    ctx.count("histories")
    ctx.count("ops_total", len(R.ops))
    return R


def silence():
    import hypergraphx.core.temporal_hypergraph as m
    m.print = lambda *a, **k: None


def _attempt(ctx, drv, lab, kind, ops, use_model):
    """re-run `ops` from scratch with a private context; returns the first (case, what) found or None"""
    import random
    c2 = hgxv.Ctx(ctx.prop, "quick", 0)
    c2.model_available = use_model
    R = Runner(c2, drv if use_model else None, lab, kind)
    try:
        for op in ops:
            R.do(json.loads(json.dumps(op)))
            if R.failed:
                break
        if not R.failed:
            for slot in sorted(R.impl.slots):
                R.sweep(slot, random.Random(1), False)
                if R.failed:
                    break
        R.flush()
    except Exception:
        return None
    lst = c2.violations if not use_model else (c2.violations or c2.disagreements)
    return lst[0] if lst else None


def shrink(ctx, drv, lst, use_model, budget=12.0):
    """greedy removal of single operations from the failing prefix (bounded); replaces the reported case"""
    import time
    if not lst:
        return
    case, what = lst[-1]
    lab, kind, ops = case["labels"], case.get("kind", "?"), list(case["ops"])
    t_end = time.time() + budget
    best = None
    i = len(ops) - 2
    while i >= 1 and time.time() < t_end:
        cand = ops[:i] + ops[i + 1:]
        r = _attempt(ctx, drv, lab, kind, cand, use_model)
        if r is not None:
            ops, best = list(r[0]["ops"]), r
            i = min(i, len(ops) - 1)
        i -= 1
    if best is not None:
        lst[-1] = best


def kind_of(what):
    t = what.split()
    if t[:1] == ["call"]:
        return "call " + t[1]
    if t[:1] == ["query"]:
        return "query " + t[3]
    return " ".join(t[:4])


def run(ctx):
    silence()
    drv = ctx.driver() if ctx.model_available else None
    n = ctx.scale(160, 3000)
    seen_kinds = set()
    for i in range(n):
        nv, nd = len(ctx.violations), len(ctx.disagreements)
        run_history(ctx, drv, ctx.rng, full=(ctx.tier == "thorough" and i % 10 == 0))
        if len(ctx.violations) > nv:
            k = kind_of(ctx.violations[-1][1])
            if k in seen_kinds:
                ctx.violations.pop()          # same defect again: keep one (shrunk) replay per kind
                ctx.count("repeated_violations")
            else:
                seen_kinds.add(k)
                shrink(ctx, drv, ctx.violations, False)
        elif len(ctx.disagreements) > nd:
            shrink(ctx, drv, ctx.disagreements, True)
        if ctx.too_many(5) or ctx.extra.get("repeated_violations", 0) > 40 or \
                (ctx.time_left() is not None and ctx.time_left() < 12):
            break


def replay(ctx, case):
    """re-run a stored history: same comparisons after every call, full sweep at the end"""
    silence()
    drv = ctx.driver() if ctx.model_available else None
    lab = case["labels"]
    R = Runner(ctx, drv, lab, case.get("kind", "?"))
    rng = ctx.rng
    for op in case["ops"]:
        op = json.loads(json.dumps(op))
        R.do(op)
        if R.failed:
            break
    if not R.failed:
        for slot in sorted(R.impl.slots):
            R.sweep(slot, rng, True)
    R.flush()
    ctx.case(json.dumps(case["ops"], sort_keys=True), True, sample=case)
