"""C03 - TemporalHypergraph keeps (time, hyperedge) records; windows / snapshots / aggregate agree.

Three executions of every generated history are compared after every operation:
  * the REAL code (hypergraphx.TemporalHypergraph, public API only),
  * an independent spec-level Python oracle `Spec` (a plain map (time, node set) -> [weight, metadata] plus
    nodes with metadata) - a difference is a VIOLATION (the implementation contradicts the property),
  * the Lean model lean/Hgxv/Model/C03.lean through lean/Driver/C03.lean - a difference is a broken correspondence.
Direct oracles (in the property's own words, on the implementation's outputs only): window selection,
per-time snapshots, aggregate(w), purity of every derivation (digest before/after), rejected calls are no-ops.
Strengthening round: fresh equal label / time objects on every call, every argument container type, aliasing in (passed
containers overwritten after the call) and out (returned containers overwritten or kept and re-compared, returned
Hypergraphs edited), full option products, per-call probe queries (stale caches), records nested in one another.  A
difference in the two id listings alone no longer ends the search for a property-level failing input.
Round d: the WHOLE object - incidence metadata (set / read / edited in place; entries of removed records stay, as in the
code) is part of every digest; copy() and every other route from one TemporalHypergraph to another (copy.deepcopy, pickle,
expose_data_structures -> populate_from_dict, binary and JSON files) with "every public getter of the class (enumerated
with inspect) answers on the result as on the source"; histories that start from HOADmodel output or continue on a loaded
object; labels and times with colliding hashes; metadata that is not a mapping; refused calls followed by their corrected
form; times beyond 2^53 with aggregation widths at M, M+-1, (M+1)/2, (M+1)/3.
Round e: the TYPE of an answer belongs to the answer - the container (list / dict / set / int / bool) and the shape of its
items (records = (int, tuple)) are fixed per query and option (Impl.T; a deviation is appended to the answer and so
compared with the map), the model's `Ans.kind` is asked for with `k` lines and compared with the Python type, and a direct
oracle demands that a windowed listing has the container of the un-windowed one; windows in three groups placed at the
content (overlapping / missing every record: before, after, between, empty, inverted, far away / touching the first or last
time), spelled with ints, integral floats, half-lowered floats, +-inf, numpy ints, Fractions; the option product in short
on every object without records (at birth, after clear() / the removal of the last record).
Extension round: the CONSTRUCTOR is one model line (`ctor ...` = `C03.construct`, Model/C03Ext.lean; before, the harness
translated it into new + calls itself): accepted forms (embedded / separate times, weights on an unweighted object,
hypergraph metadata incl. the reserved key, node metadata, the form without edge_list) and refused ones (time_list alone,
an element that is not a (time, edge) pair, different lengths, a bad time, wrong number of weights / metadata entries,
weights with a repeated hyperedge) - real must raise, model must answer rej; `expose_attributes_for_hashing()` (ORDERED
rendering; three parties) is part of the digest, `expose_data_structures()` (every raw table, ids, next id) is compared with
the model after every call, `get_edge_list()`, `get_adj_dict()`, `get_mapping()` (classes and the code of every label) in
every sweep.
"""
import copy as _copy
import json
import math
import signal
import zlib
from fractions import Fraction

import hgxv

RULE = ("random histories (6-40 public mutating calls; 1-2 object slots for copy) over 3-6 nodes; labels of 8 kinds (small ints, "
        "ints > 256, ints > 2^63, floats, literal and run-time strings incl. 0 and '', different ints with EQUAL hashes: -1/-2/-2^61, "
        "0/2^61-1/2^62-2, 1/2^61), every call gets freshly constructed equal "
        "label / time / window objects; times = steps 0..12 times a per-history scale (1, 257, 1000, 2^40, 2^53+1, 10^18, 2^61-1 "
        "(all times hash to 0), 2^64+3) drawn mostly "
        "from a pool of 2-4 so that (time,set) records are re-inserted, removed and re-inserted, plus records nested in present "
        "ones (same time, one node more or fewer) and remove_node(keep_edges=True) of the node that makes them coincide; "
        "hyperedge / node-list / record-list / weight / time-list arguments in every container type the unchanged code takes "
        "(tuple, list, set, frozenset, generator, numpy array, dict keys, range - chosen by a hash of the call, counted in the "
        "evidence), optional arguments left out in half of the calls; weights k/4 (1 vs 1.0, 0, > 2^32), both weightedness "
        "settings, metadata tokens; 10-15% malformed calls (time 1.5 / '3' / 3.0 / numpy ints / negative, missing record or node, "
        "weight 2 on unweighted, both order and size, bad batches, batch containers that add_edges refuses; a refused insertion is mostly followed by its corrected form). "
        "7% incidence calls (set_incidence_metadata on present / absent records, member / other / non-node labels, in-place edit "
        "of the stored dictionary); metadata objects that are not mappings (tag, number, list, '' / []) in 7% of the metadata "
        "arguments; 4.5% routes from one object to another (copy() half of them, copy.deepcopy, pickle, expose_data_structures -> "
        "populate_from_dict, save/load binary, save/load JSON; into the other slot or in place), 12% of the histories pass "
        "through a loader within their first 6 calls, 6% start from HOADmodel output (seeded random, expected content from the "
        "documented recipe); after a route: digest of the result against the route's expected content, source unchanged, and "
        "EVERY public getter of the class (inspect; arguments by parameter name over all nodes / records / incidences / options) "
        "answers on the result as on the source. After every call: "
        "every container passed in is overwritten by the caller, full digest, 24 fixed probe queries + 3 random queries, every "
        "returned list/set/dict is overwritten or kept and compared later, returned Hypergraphs are edited; twice per history: every "
        "query with every filter (order -1..4, size 0..5, up_to), all 256 windows on the time grid, time_window x order/size x "
        "up_to x metadata in full on 3 windows placed at the content (one that overlaps the records, one that misses every record - "
        "before / after / between / empty / inverted / +-10^30 - one that touches the first or last time; all ~31 of them with "
        "two option combinations each), windows spelled as ints / integral floats / a-0.5 / +-inf / numpy ints / Fractions "
        "(30%), the return TYPE of every query (container, record shape, int / bool) compared with the map and with the "
        "model's answer kind (`k` lines), a 60-query option burst on every object at birth and after every call that leaves it "
        "without records, snapshots with/without add_all_nodes, aggregate for 15 "
        "widths and malformed widths, 20 questions repeated twice in a row. Extension round (own PRNG per history, the older "
        "streams are unchanged): 0-2 constructor calls that must be refused (time_list alone / a non-pair element / different "
        "lengths / bad time / wrong number of weights or metadata / weights with a repeated hyperedge) and in half of the "
        "histories one more accepted constructor call into a scratch object (with or without edge_list); every constructor call "
        "is ONE model line; the hashing view is in the digest, expose_data_structures() is compared after every call, "
        "get_edge_list / get_adj_dict / get_mapping (classes, code of every label) in every sweep. "
        "A history is distinct by its canonical op list; "
        "non-trivial = >=1 accepted removal and >=1 insertion of a record that is or was present.")
ASSUMPTIONS = ["node labels are mutually comparable and used only through ==, hash, < (mapped to ranks for the model); they are "
               "not tuples: a 2-element hyperedge of two tuple labels is read as a directed pair by _canon_edge (known finding D50, "
               "replayed on every run)",
               "hyperedges are duplicate-free node collections (the quantifier says node sets)",
               "times sent as 'non-integer' to insertions are 1.5, '3', 3.0, numpy.int64(3), numpy.int32(0) - what the unchanged "
               "isinstance(time, int) test refuses; Python bool is not generated as a time; lookups / removals get 1.5 and '3' only "
               "(3.0 and numpy.int64(3) equal the key 3 there)",
               "weights are multiples of 1/4 below 2^40 (float + is exact), metadata values come from a fixed JSON pool; metadata "
               "objects are dicts or - as the unchanged code stores whatever it is given - a tag string, a number, a list; the "
               "hypergraph-level metadata is always a dict (clear() calls .clear() on it)",
               "incidence metadata are outside the property's map (time, node set) -> (weight, metadata): the oracle follows the "
               "code (key = ((time, canonical nodes), node) for any node label, record must be present when set / read, no removal "
               "and not clear() drops an entry); demanded in the property's words: copy() carries them, no query changes them",
               "the serialisation helpers (expose_data_structures / populate_from_dict, binary file) do not carry incidence "
               "metadata and the JSON file adds the keys 'time' / 'weight' to the hyperedge metadata (both as the unchanged code "
               "does, C06's subject); the JSON route is taken only when no numpy scalar and no non-mapping metadata is stored",
               "argument containers are those the unchanged code accepts: add_edges needs `list`s for the edge and time list (anything "
               "else must be rejected as a whole) and hashable hyperedges when weights are given; weights / metadata lists are "
               "indexable sequences; add_nodes with a metadata dict gets a re-iterable node collection; unordered node collections "
               "are not used where the order of removal matters (remove_nodes with keep_edges=True)",
               "metadata dicts are shared by reference by the unchanged code (stored as passed, returned as stored, handed on to the "
               "aggregated Hypergraphs): the harness passes fresh dicts and never edits a metadata dict it passed or got back; every "
               "OTHER container passed in or returned is overwritten by the harness afterwards"]
TRUSTED = ["Hypergraph objects returned by aggregate()/subhypergraph() are read through Hypergraph's public getters "
           "(Hypergraph.add_edge/add_node are modelled at spec level: HSpec in Model/C03.lean)",
           "the spec-level Python oracle in harness/c03.py (class Spec) is hand-written from the property text",
           "container types, object identity and aliasing are outside the Lean model (value-based lists of ranks): they are "
           "checked by the harness only (same history, same expected content)",
           "getters outside the model (matrices, str) are compared object against object only (result of a route vs its "
           "source), through a type-tagged canonical form; get_mapping is compared with the model where numpy represents the "
           "labels exactly (ints below 2^62, floats, strings; absent string labels are not encoded: sklearn truncates them), "
           "LabelEncoder itself is trusted",
           "the table of Python types per query / option in Impl._query0 (list / dict / set / int / bool, record = (int, tuple)) "
           "is read off the unchanged code; its link to the model is Ans.kind (k lines: list<->recs, dict<->recsMeta/recsW/counts/hs, "
           "int<->int, float<->inf)",
           "hoad_links in harness/c03.py re-states the HOADmodel recipe (same draws from random.Random(seed))"]
BUDGET_S = {"quick": 75, "thorough": 1500}

VALPOOL = ["a", -7, -2.5, [1, "x"], {"z": 1}, None, "", []]
RESERVED_VALS = {90: False, 91: True, 92: "TemporalHypergraph"}
RESERVED_KEYS = {100: "weighted", 101: "type", 102: "time", 103: "weight"}   # 102 / 103: written by the JSON file format
OPQ = 104                     # metadata that is NOT a mapping: the token list [[104, v]] stands for the object VALPOOL[v]
OPAQUE_VALS = [0, 1, 2, 3, 6, 7]   # 'a', -7, -2.5, [1, 'x'], '', []  (stored as passed by the unchanged code)
NUM0 = 1000                   # value token of a non-negative number x with 4x integral: NUM0 + 4x (times, weights)
ALLT = list(range(0, 13))     # abstract time steps; a history multiplies them by its time scale (Gen.S)
# 2^61-1 is the modulus of CPython's integer hash: every time k*(2^61-1) hashes to 0;  2^53+1, 10^18, 2^64+3: beyond float64
TSCALES = [1, 1, 1, 1, 1, 257, 1000, 2 ** 40, 2 ** 53 + 1, 10 ** 18, 2 ** 61 - 1, 2 ** 64 + 3]
ORDERS = [-1, 0, 1, 2, 3, 4]
BIG = 10 ** 30              # window bounds beyond every time (passed as they are, or as -inf / inf)
SIZES = [0, 1, 2, 3, 4, 5]


# ------------------------------------------------------------------------------------------------------------
# tokens <-> python values

def key_py(k):
    return RESERVED_KEYS.get(k, "k%d" % k)


def val_py(v):
    if v >= NUM0:
        q = v - NUM0
        return q // 4 if q % 4 == 0 else q / 4
    return _copy.deepcopy(RESERVED_VALS[v] if v in RESERVED_VALS else VALPOOL[v])


_VAL_TOK = {json.dumps(v, sort_keys=True): t for t, v in list(enumerate(VALPOOL)) + list(RESERVED_VALS.items())}
_KEY_TOK = {v: k for k, v in RESERVED_KEYS.items()}


def key_tok(k):
    if k in _KEY_TOK:
        return _KEY_TOK[k]
    if isinstance(k, str) and k[:1] == "k" and k[1:].isdigit():
        return int(k[1:])
    return "?" + repr(k)


def val_tok(v):
    try:
        if isinstance(v, (int, float)) and not isinstance(v, bool) and v >= 0 and v == v and v != math.inf:
            fr = Fraction(v) * 4
            if fr.denominator == 1:
                return NUM0 + fr.numerator
        return _VAL_TOK.get(json.dumps(v, sort_keys=True), "?" + repr(v))
    except Exception:
        return "?" + repr(v)


def is_opq(md):
    """token metadata (list of pairs or dict) that stands for a non-mapping object"""
    if md is None:
        return False
    return OPQ in (md if isinstance(md, dict) else [k for k, _ in md])


def md_py(md):
    """token metadata (list of [k, v]) -> fresh python dict; None stays None; [[OPQ, v]] -> the object itself"""
    if md is None:
        return None
    if is_opq(md):
        return val_py(md[0][1])
    return {key_py(k): val_py(v) for k, v in md}


def f_meta_tok(items):
    items = sorted(items, key=lambda kv: (str(type(kv[0])), kv[0]))
    return "+".join("%s:%s" % (k, v) for k, v in items) if items else "_"


def f_meta(d):
    if not isinstance(d, dict):
        t = val_tok(d)
        return f_meta_tok([(OPQ, t)]) if isinstance(t, int) and t in OPAQUE_VALS else "?" + repr(d)
    return f_meta_tok([(key_tok(k), val_tok(v)) for k, v in d.items()])


_WC = [0]


def w_py(q):
    """weight quanta (1/4) -> python number; whole numbers alternate between int and float (1 vs 1.0)"""
    if q is None:
        return None
    _WC[0] += 1
    return q // 4 if (q % 4 == 0 and _WC[0] % 2 == 0) else q / 4


def w_tok(w):
    try:
        fr = Fraction(w) * 4
        return str(fr.numerator) if fr.denominator == 1 else "?%r" % (w,)
    except Exception:
        return "?%r" % (w,)


def h32(*a):
    return zlib.crc32(repr(a).encode())


def fresh(v):
    """an equal but newly constructed object: CPython shares only ints in [-5, 256], '' and one-character strings, so
    identity tests (`is`) on labels / times / weights differ from equality tests for everything else"""
    if isinstance(v, bool) or v is None:
        return v
    if isinstance(v, int):
        return int(str(v))
    if isinstance(v, float):
        return float(repr(float(v)))
    if isinstance(v, str):
        return "".join(list(v)) if len(v) > 1 else v
    return _copy.deepcopy(v)


def _np():
    import numpy
    return numpy


def is_rec(r):
    """a record as every listing spells it: the tuple (time, tuple of nodes) with a plain int time"""
    return type(r) is tuple and len(r) == 2 and type(r[0]) is int and type(r[1]) is tuple


def t_py(t):
    """time token -> python object.  ints are fresh objects; the string tokens are the values the unchanged code rejects as
    times of an insertion: 'f' 1.5, 's' "3", 'F' 3.0 (integral float), 'n' numpy.int64(3), 'N' numpy.int32(0)"""
    if isinstance(t, str):
        if t == "n":
            return _np().int64(3)
        if t == "N":
            return _np().int32(0)
        return {"f": 1.5, "s": "3", "F": 3.0}[t]
    return fresh(t)


def t_wire(t):
    return "x" if isinstance(t, str) else str(t)


def f_nodes(ns):
    ns = sorted(ns)
    return ",".join(str(x) for x in ns) if ns else "-"


def f_edge(e):
    return ",".join(str(x) for x in e) if len(e) else "_"


def f_rec(t, e):
    return "%s/%s" % (t, f_edge(e))


def f_join(items, sep=";", empty="-"):
    items = list(items)
    return sep.join(items) if items else empty


def f_ints(xs):
    xs = sorted(xs)
    return ",".join(str(x) for x in xs) if xs else "-"


def f_map(d):
    return f_join(("%s:%s" % (k, d[k]) for k in sorted(d)), ",")


def f_hspec(weighted, nodes_meta, edges):
    """nodes_meta: {rank: metastring}; edges: list of (sorted rank tuple, weight token, metastring)"""
    ns = f_join("%s=%s" % (n, nodes_meta[n]) for n in sorted(nodes_meta))
    es = f_join("%s@%s=%s" % (f_edge(e), w, m) for e, w, m in sorted(edges))
    return "%d~%s~%s" % (1 if weighted else 0, ns, es)


def strip_edge_meta(a):
    import re
    return re.sub(r"(@-?\d+)=[^;|~]*", r"\1", a)


def strip_nodes(a):
    """drop the node part of every rendered Hypergraph `w~nodes~edges`"""
    import re
    return re.sub(r"~[^~|]*~", "~~", a)


class Timeout(BaseException):
    pass


def _alarm(sig, frm):
    raise Timeout()


class time_limit:
    """SIGALRM guard.  Re-entrant: only the outermost scope installs the handler and arms the timer (arming it for every
    single query cost a fifth of the run); a scope nested in a running one does nothing - unless it is left BY the alarm,
    in which case it re-arms the timer so that the code that follows is guarded again."""
    depth = 0

    def __init__(self, s):
        self.s = s

    def __enter__(self):
        time_limit.depth += 1
        if time_limit.depth == 1:
            self.old = signal.signal(signal.SIGALRM, _alarm)
            signal.setitimer(signal.ITIMER_REAL, self.s)

    def __exit__(self, et, ev, tb):
        time_limit.depth -= 1
        if time_limit.depth == 0:
            signal.setitimer(signal.ITIMER_REAL, 0)
            signal.signal(signal.SIGALRM, self.old)
        elif et is not None and issubclass(et, Timeout):
            signal.setitimer(signal.ITIMER_REAL, self.s)
        return False


# ------------------------------------------------------------------------------------------------------------
# spec-level oracle: a map (time, node set) -> [weight quanta, metadata tokens], nodes -> metadata tokens

class Rej(Exception):
    pass


def valid_time(t):
    return isinstance(t, int) and not isinstance(t, bool) and t >= 0


class Spec:
    def __init__(self, weighted):
        self.weighted = weighted
        self.nodes = {}          # rank -> {ktok: vtok}
        self.recs = {}           # (t, frozenset) -> [w, {ktok: vtok}]   (creation order)
        self.hmeta = {100: 91 if weighted else 90, 101: 92}
        # the class has one more table, outside the property's map: ((time, node set), node) -> metadata, written by
        # set_incidence_metadata only - no removal and not clear() touches it (modelled as the code is)
        self.imd = {}

    def has_opaque(self):
        return any(OPQ in m for m in self.nodes.values()) or any(OPQ in v[1] for v in self.recs.values())

    def derived(self, route):
        """the object that `route` makes of this one: copy / deepcopy / pickle carry everything; the serialisation helpers
        (expose_data_structures -> populate_from_dict, binary file) everything but the incidence table; the JSON file is
        re-read through add_node / add_edge with the reserved keys 'time' (and 'weight') left in the hyperedge metadata"""
        c = self.clone()
        if route in TABLE_ROUTES:
            c.imd = {}
        elif route == "json":
            c.imd = {}
            for k, v in c.recs.items():
                if self.weighted:
                    v[1][103] = NUM0 + v[0]
                v[1][102] = val_tok(k[0])
        return c

    def clone(self):
        return _copy.deepcopy(self)

    # -- mutators ------------------------------------------------------------------------------------------
    def add_node(self, n, md):
        if n not in self.nodes:
            self.nodes[n] = {}
        if self.nodes[n] == {}:
            self.nodes[n] = dict(md or [])

    def add_nodes(self, ns, mdmap):
        if mdmap is not None:
            have = {n for n, _ in mdmap}
            if any(n not in have for n in ns):
                raise Rej()
            d = {n: m for n, m in mdmap}
        for n in ns:
            self.add_node(n, d[n] if mdmap is not None else None)

    def add_edge(self, raw, t, w, md):
        if not valid_time(t):
            raise Rej()
        if not self.weighted and w is not None and w != 4:
            raise Rej()
        w = 4 if w is None else w
        k = (t, frozenset(raw))
        if k not in self.recs:
            self.recs[k] = [w, {}]
        elif self.weighted:
            self.recs[k][0] += w
        self.recs[k][1] = dict(md or [])
        for n in raw:
            self.add_node(n, None)

    def add_edges(self, raws, ts, ws, mds):
        if len(raws) != len(ts):
            raise Rej()
        if ws is not None:
            if len(set(tuple(r) for r in raws)) != len(raws) or len(ws) != len(raws):
                raise Rej()
        if mds is not None and len(mds) != len(raws):
            raise Rej()
        if any(not valid_time(t) for t in ts):
            raise Rej()
        if ws is not None:
            self.weighted = True
        for i, r in enumerate(raws):
            self.add_edge(r, ts[i], ws[i] if ws is not None else None, mds[i] if mds is not None else None)

    def key(self, raw, t):
        k = (t, frozenset(raw)) if (isinstance(t, int) and not isinstance(t, bool)) else None
        return k if k in self.recs else None

    def remove_edge(self, raw, t):
        k = self.key(raw, t)
        if k is None:
            raise Rej()
        del self.recs[k]

    def remove_edges(self, raws, ts):
        ks = [self.key(r, t) for r, t in zip(raws, ts)]
        if any(k is None for k in ks) or len(set(ks)) != len(ks):
            raise Rej()
        for k in ks:
            del self.recs[k]

    def remove_node(self, n, keep):
        if n not in self.nodes:
            raise Rej()
        for k in [k for k in self.recs if n in k[1]]:
            w, md = self.recs.pop(k)
            rest = k[1] - {n}
            if keep and rest:
                self.add_edge(sorted(rest), k[0], w, list(md.items()))
        del self.nodes[n]

    def remove_nodes(self, ns, keep):
        if any(n not in self.nodes for n in ns) or len(set(ns)) != len(ns):
            raise Rej()
        for n in ns:
            self.remove_node(n, keep)

    def set_weight(self, raw, t, w):
        if not self.weighted and w != 4:
            raise Rej()
        k = self.key(raw, t)
        if k is None:
            raise Rej()
        self.recs[k][0] = w

    def apply(self, op):
        """returns 'ok' / 'rej'; a rejected call leaves the spec untouched"""
        name, a = op[0], op[2:]
        snap = self.clone().__dict__
        try:
            if name == "addnode":
                self.add_node(a[0], a[1])
            elif name == "addnodes":
                self.add_nodes(a[0], a[1])
            elif name == "addedge":
                self.add_edge(a[0], a[1], a[2], a[3])
            elif name == "addedges":
                self.add_edges(a[0], a[1], a[2], a[3])
            elif name == "rmedge":
                self.remove_edge(a[0], a[1])
            elif name == "rmedges":
                self.remove_edges(a[0], a[1])
            elif name == "rmnode":
                self.remove_node(a[0], a[1])
            elif name == "rmnodes":
                self.remove_nodes(a[0], a[1])
            elif name == "setw":
                self.set_weight(a[0], a[1], a[2])
            elif name == "setnmeta":
                if a[0] not in self.nodes:
                    raise Rej()
                self.nodes[a[0]] = dict(a[1])
            elif name == "setemeta":
                k = self.key(a[0], a[1])
                if k is None:
                    raise Rej()
                self.recs[k][1] = dict(a[2])
            elif name == "sethmeta":
                self.hmeta = dict(a[0])
            elif name == "attrh":
                self.hmeta[a[0]] = a[1]
            elif name == "attrn":
                if a[0] not in self.nodes or OPQ in self.nodes[a[0]]:
                    raise Rej()
                self.nodes[a[0]][a[1]] = a[2]
            elif name == "attre":
                k = self.key(a[0], a[1])
                if k is None or OPQ in self.recs[k][1]:
                    raise Rej()
                self.recs[k][1][a[2]] = a[3]
            elif name == "delattrn":
                if a[0] not in self.nodes or a[1] not in self.nodes[a[0]] or OPQ in self.nodes[a[0]]:
                    raise Rej()
                del self.nodes[a[0]][a[1]]
            elif name == "delattre":
                k = self.key(a[0], a[1])
                if k is None or a[2] not in self.recs[k][1] or OPQ in self.recs[k][1]:
                    raise Rej()
                del self.recs[k][1][a[2]]
            elif name == "setimeta":
                k = self.key(a[0], a[1])
                if k is None:
                    raise Rej()
                self.imd[(k, a[2])] = dict(a[3])
            elif name == "attri":
                k = self.key(a[0], a[1])
                if k is None or (k, a[2]) not in self.imd or OPQ in self.imd[(k, a[2])]:
                    raise Rej()
                self.imd[(k, a[2])][a[3]] = a[4]
            elif name == "clear":
                self.nodes, self.recs, self.hmeta = {}, {}, {}
            elif name == "raw":
                pass        # a raw setter that hands back an equal copy of the table: the map does not move
            else:
                raise AssertionError(name)
            return "ok"
        except Rej:
            self.__dict__.update(snap)
            return "rej"

    # -- queries (brute force over the map) ----------------------------------------------------------------
    def sel(self, o, s, u, win=None):
        if o is not None and s is not None:
            raise Rej()
        if win == "bad":
            raise Rej()
        ks = list(self.recs)
        if win is not None:
            ks = [k for k in ks if win[0] <= k[0] < win[1]]
        if s is not None:
            o = s - 1
        if o is not None:
            ks = [k for k in ks if (len(k[1]) - 1 <= o if u else len(k[1]) - 1 == o)]
        return ks

    def inc(self, n, o, s):
        if n not in self.nodes or (o is not None and s is not None):
            raise Rej()
        if s is not None:
            o = s - 1
        return [k for k in self.recs if n in k[1] and (o is None or len(k[1]) - 1 == o)]

    def neigh(self, n, o, s):
        out = set()
        for k in self.inc(n, o, s):
            out |= k[1]
        return out - {n}

    def hspec_of(self, ks, all_nodes):
        """the Hypergraph the property describes for a group of records (node sets, weights summed / 1)"""
        edges = {}
        for k in sorted(ks, key=lambda k: (k[0], sorted(k[1]))):
            e = tuple(sorted(k[1]))
            w, md = self.recs[k]
            if e not in edges:
                edges[e] = [w if self.weighted else 4, md]
            else:
                if self.weighted:
                    edges[e][0] += w
                edges[e][1] = md
        nm = {}
        for e in edges:
            for n in e:
                nm[n] = "_"
        if all_nodes:
            for n in self.nodes:
                nm[n] = f_meta_tok(self.nodes[n].items())
        return f_hspec(self.weighted, nm, [(e, str(v[0]), f_meta_tok(v[1].items()) if all_nodes else "_")
                                           for e, v in edges.items()])

    def query(self, q):
        """canonical answer string, 'rej', or None when the observable is not defined at spec level (ids)"""
        try:
            return self._query(q)
        except Rej:
            return "rej"

    def _query(self, q):
        name, a = q[0], q[1:]
        R = self.recs
        fk = lambda k: f_rec(k[0], sorted(k[1]))
        skey = lambda k: (k[0], sorted(k[1]))
        if name == "nodes":
            return f_nodes(self.nodes)
        if name == "nodesmeta":
            return f_join("%s=%s" % (n, f_meta_tok(self.nodes[n].items())) for n in sorted(self.nodes))
        if name == "checknode":
            return "1" if a[0] in self.nodes else "0"
        if name == "numnodes":
            return str(len(self.nodes))
        if name == "edges":
            win, o, s, u, m = a
            ks = sorted(self.sel(o, s, u, win), key=skey)
            if m:
                return f_join(fk(k) + "=" + f_meta_tok(R[k][1].items()) for k in ks)
            return f_join(fk(k) for k in ks)
        if name == "numedges":
            return str(len(self.sel(*a)))
        if name == "checkedge":
            return "1" if self.key(a[0], a[1]) is not None else "0"
        if name == "weight":
            k = self.key(a[0], a[1])
            if k is None:
                raise Rej()
            return str(R[k][0])
        if name == "weights":
            o, s, u, d = a
            if o is not None and s is not None:
                raise Rej()
            ks = list(R) if (o is None and s is None) else self.sel(o, s, u)
            if d:
                return f_join(fk(k) + "@" + str(R[k][0]) for k in sorted(ks, key=skey))
            return f_ints(R[k][0] for k in ks)
        if name == "incident":
            return f_join(fk(k) for k in sorted(self.inc(*a), key=skey))
        if name == "neighbors":
            return f_nodes(self.neigh(*a))
        if name == "degree":
            return str(len(self.inc(*a)))
        if name == "degseq":
            o, s = a
            if o is not None and s is not None:
                raise Rej()
            return f_map({n: len(self.inc(n, o, s)) for n in self.nodes})
        if name == "degdist":
            o, s = a
            if o is not None and s is not None:
                raise Rej()
            d = {}
            for n in self.nodes:
                k = len(self.inc(n, o, s))
                d[k] = d.get(k, 0) + 1
            return f_map(d)
        if name == "sizes":
            return f_ints(len(k[1]) for k in R)
        if name == "orders":
            return f_ints(len(k[1]) - 1 for k in R)
        if name == "distsizes":
            d = {}
            for k in R:
                d[len(k[1])] = d.get(len(k[1]), 0) + 1
            return f_map(d)
        if name == "maxsize":
            if not R:
                raise Rej()
            return str(max(len(k[1]) for k in R))
        if name == "maxorder":
            if not R:
                raise Rej()
            return str(max(len(k[1]) for k in R) - 1)
        if name == "uniform":
            return "1" if len({len(k[1]) for k in R}) <= 1 else "0"
        if name == "weighted":
            return "1" if self.weighted else "0"
        if name == "nmeta":
            if a[0] not in self.nodes:
                raise Rej()
            return f_meta_tok(self.nodes[a[0]].items())
        if name == "emeta":
            k = self.key(a[0], a[1])
            if k is None:
                raise Rej()
            return f_meta_tok(R[k][1].items())
        if name == "hmeta":
            return f_meta_tok(self.hmeta.items())
        if name == "isolated":
            o, s = a
            if o is not None and s is not None:
                raise Rej()
            return f_nodes(n for n in self.nodes if not self.neigh(n, o, s))
        if name == "isisolated":
            if a[1] is not None and a[2] is not None:
                raise Rej()
            return "1" if not self.neigh(*a) else "0"
        if name == "len":
            return str(len(R))
        if name == "timesfor":
            return f_ints(k[0] for k in R if k[1] == frozenset(a[0]))
        if name == "mintime":
            return str(min(k[0] for k in R)) if R else "inf"
        if name == "maxtime":
            return str(max(k[0] for k in R)) if R else "-inf"
        if name == "snap":
            win = a[0]
            if win == "bad":
                raise Rej()
            ks = [k for k in R if win is None or win[0] <= k[0] < win[1]]
            ts = sorted({k[0] for k in ks})
            return f_join(("%d>%s" % (t, self.hspec_of([k for k in ks if k[0] == t], False)) for t in ts), "|")
        if name == "agg":
            w = a[0]
            if not isinstance(w, int) or w <= 0:
                raise Rej()
            if not R:
                return "-"
            mt = max(k[0] for k in R)
            return f_join(("%d>%s" % (i, self.hspec_of([k for k in R if i * w <= k[0] < (i + 1) * w], True))
                           for i in range(mt // w + 1)), "|")
        if name in ("allemeta", "iter", "edgetable", "adjtable", "tables"):
            return None
        if name == "hashing":     # expose_attributes_for_hashing(): flag, hypergraph metadata, the map's entries in key
            #                       order (time, then the sorted node tuple), the nodes in label order - ORDERED rendering
            ks = sorted(R, key=skey)
            return "%s~%s~%s~%s" % ("1" if self.weighted else "0", f_meta_tok(self.hmeta.items()),
                                    f_join("%s@%s=%s" % (fk(k), R[k][0], f_meta_tok(R[k][1].items())) for k in ks),
                                    f_join("%s=%s" % (x, f_meta_tok(self.nodes[x].items())) for x in sorted(self.nodes)))
        if name == "mapping":     # get_mapping().classes_: the sorted nodes
            return f_join((str(x) for x in sorted(self.nodes)), ",")
        if name == "indexof":     # get_mapping().transform([node])[0]
            if a[0] not in self.nodes:
                raise Rej()
            return str(sorted(self.nodes).index(a[0]))
        if name == "imeta":
            k = self.key(a[0], a[1])
            if k is None or (k, a[2]) not in self.imd:
                raise Rej()
            return f_meta_tok(self.imd[(k, a[2])].items())
        if name == "allimeta":
            return f_join("%s^%s=%s" % (fk(k), x, f_meta_tok(self.imd[(k, x)].items()))
                          for k, x in sorted(self.imd, key=lambda p: (skey(p[0]), p[1])))
        raise AssertionError(name)


# ------------------------------------------------------------------------------------------------------------
# the implementation side

COPY_ROUTES = ("copy", "deepcopy", "pickle")    # every table
TABLE_ROUTES = ("tables", "hgx")                # every table but _incidences_metadata (serialisation helpers, binary file)
ROUTES = COPY_ROUTES + TABLE_ROUTES + ("json",)
EK = ["tuple", "list", "set", "frozenset", "gen", "nparray", "dictkeys", "range", "tuple", "list"]
NK = ["list", "tuple", "set", "frozenset", "gen", "nparray", "dictkeys", "range", "list"]
JUNK = "junk"


def pick(seq, *key):
    return seq[h32(*key) % len(seq)]


def batch_shape(salt, op):
    """container types used for a batched insertion (add_edges / constructor): a pure function of the call, so that
    replays and shrunk histories repeat it.  el/tl/wl/ml = containers of the edge list, time list, weights, metadata;
    ek = container of every hyperedge (None: chosen per hyperedge)."""
    name = op[0]
    raws, ws = (op[2], op[4]) if name == "addedges" else (op[4], op[6])
    k = h32(salt, json.dumps(op, sort_keys=True))
    sh = {"el": "list", "tl": "list", "ek": None,
          "wl": pick(["list", "tuple", "nparray"], k, "w"), "ml": pick(["list", "tuple"], k, "m")}
    if name == "addedges":
        r = k % 100
        if r < 4:
            sh["el"] = "tuple"
        elif r < 8:
            sh["tl"] = pick(["tuple", "nparray"], k, "t")
    elif op[8]:
        sh["el"] = pick(["list", "tuple"], k, "l")
    if ws is not None:
        allsorted = all(list(x) == sorted(x) for x in raws)
        opts = ["tuple"] * 6 + (["frozenset"] * 4 if allsorted else []) + (["list"] if name == "addedges" else [])
        sh["ek"] = pick(opts, k, "e")
    return sh


def batch_rejects(sh, raws, ws):
    """what the unchanged add_edges does with these containers: edge list and time list must be `list`s; with weights
    the duplicate test hashes the hyperedges as given (an unhashable hyperedge = TypeError before anything changes)"""
    return sh["el"] != "list" or sh["tl"] != "list" or (ws is not None and len(raws) > 0 and sh["ek"] == "list")


# -- objects that come out of the library itself: the activity-driven generator, the routes from one object to another

def hoad_links(N, acts, T, seed):
    """the hyperlinks HOADmodel hands to the constructor, from the documented recipe with the same draws"""
    import random
    r = random.Random(seed)
    links = []
    for order, av in acts:
        for t in range(T):
            for i in range(N):
                if av[i] > r.random():
                    nl = r.sample(range(N), order)
                    nl.append(i)
                    if len(nl) == len(set(nl)):
                        links.append((t, tuple(nl)))
    return links


def hoad_call(N, acts, T, seed):
    import random
    from hypergraphx.generation.activity_driven import HOADmodel
    st = random.getstate()
    random.seed(seed)
    try:
        return HOADmodel(N, {o: list(av) for o, av in acts}, time=T)
    finally:
        random.setstate(st)


_TMP = []


def tmp_path(ext):
    import atexit
    import os
    import shutil
    import tempfile
    if not _TMP:
        _TMP.append(tempfile.mkdtemp(prefix="c03_"))
        atexit.register(shutil.rmtree, _TMP[0], True)
    return os.path.join(_TMP[0], "h." + ext)


def derive_obj(h, route):
    """every way in which a user gets a TemporalHypergraph out of another one"""
    import pickle
    from hypergraphx import TemporalHypergraph
    if route == "copy":
        return h.copy()
    if route == "deepcopy":
        return _copy.deepcopy(h)
    if route == "pickle":
        return pickle.loads(pickle.dumps(h))
    if route == "tables":      # what the binary loader does, without the file
        new = TemporalHypergraph(weighted=h.is_weighted())
        new.populate_from_dict(_copy.deepcopy(h.expose_data_structures()))
        return new
    if route in ("hgx", "json"):
        from hypergraphx.readwrite.load import load_hypergraph
        from hypergraphx.readwrite.save import save_hypergraph
        path = tmp_path(route)
        save_hypergraph(h, path, binary=(route == "hgx"))
        return load_hypergraph(path)
    raise AssertionError(route)


# -- "the copy equals the original in EVERY public getter": the getters are enumerated with inspect, the arguments come
#    from a table keyed by parameter NAMES (a getter with a required parameter the table does not know is counted as unprobed)

MUTATORS = ("add_", "remove_", "set_", "clear", "populate_from_dict", "copy")
DUNDERS = ("__len__", "__iter__", "__str__", "__contains__", "__eq__", "__getitem__")
GETTERS = {}


def getter_names(cls):
    import inspect
    if cls not in GETTERS:
        out = []
        for name, f in inspect.getmembers(cls, callable):
            if name.startswith("_") and name not in DUNDERS:
                continue
            if name.startswith(MUTATORS) or f is getattr(object, name, None):
                continue
            try:
                ps = [q for q in inspect.signature(f).parameters.values() if q.name != "self"]
            except Exception:
                continue
            req = tuple(q.name for q in ps if q.default is q.empty and q.kind in (q.POSITIONAL_ONLY, q.POSITIONAL_OR_KEYWORD))
            opt = [q.name for q in ps if q.default is not q.empty]
            out.append((name, req, opt))
        GETTERS[cls] = out
    return GETTERS[cls]


def nv(x, depth=0):
    """type-tagged canonical form of whatever a getter returns (sets / dicts sorted, arrays as lists, library objects by
    their own getters)"""
    if depth > 8:
        return ("deep", type(x).__name__)
    if x is None or isinstance(x, (bool, int, float, str, bytes)):
        return (type(x).__name__, repr(x))
    if isinstance(x, (tuple, list)):
        return (type(x).__name__, [nv(y, depth + 1) for y in x])
    if isinstance(x, (set, frozenset)):
        return (type(x).__name__, sorted((nv(y, depth + 1) for y in x), key=repr))
    if isinstance(x, dict):
        return ("dict", sorted(([nv(k, depth + 1), nv(v, depth + 1)] for k, v in x.items()), key=repr))
    tn = type(x).__name__
    if hasattr(x, "tocoo") and hasattr(x, "shape"):
        c = x.tocoo()
        return ("sparse", tuple(c.shape), sorted((int(i), int(j), repr(v)) for i, j, v in zip(c.row, c.col, c.data) if v != 0))
    if hasattr(x, "tolist") and hasattr(x, "shape"):
        return ("ndarray", tuple(x.shape), nv(x.tolist(), depth + 1))
    if hasattr(x, "classes_"):
        return ("encoder", nv(list(x.classes_), depth + 1))
    if tn in ("Hypergraph", "TemporalHypergraph", "DirectedHypergraph", "MultiplexHypergraph"):
        return (tn, [(g, nv(call_getter(x, g, (), {}), depth + 1)) for g in
                     ("get_nodes", "get_edges", "get_weights", "get_all_nodes_metadata", "get_all_edges_metadata",
                      "get_hypergraph_metadata", "is_weighted")] +
                [("edges_metadata", nv(call_getter(x, "get_edges", (), {"metadata": True}), depth + 1))])
    if hasattr(x, "__next__") or tn in ("dict_keys", "dict_values", "dict_items", "generator"):
        return ("iter", [nv(y, depth + 1) for y in x])
    return ("object", tn)


def call_getter(h, name, a, kw):
    try:
        return getattr(h, name)(*a, **kw)
    except Timeout:
        raise
    except Exception as e:
        return ("raises", type(e).__name__)


def view_probes(h, absent, S):
    """argument values for the getters, read off the (source) object through its listings"""
    P = {"nodes": [], "recs": [], "incs": [], "absent": absent, "S": S}
    try:
        P["nodes"] = list(h.get_nodes())
        P["recs"] = list(h.get_edges())
        P["incs"] = [k for k in h.get_all_incidences_metadata() if isinstance(k, tuple) and len(k) == 2 and
                     isinstance(k[0], tuple) and len(k[0]) == 2 and isinstance(k[0][1], tuple)]
    except Exception:
        pass
    P["recs"] = [r for r in P["recs"] if isinstance(r, tuple) and len(r) == 2 and isinstance(r[1], tuple)]
    return P


def _req_args(req, P):
    ab, recs, nodes = P["absent"], P["recs"][:12], P["nodes"]
    if req == ():
        return [()]
    if req == ("node",):
        return [(x,) for x in nodes] + [(ab,)]
    if req == ("edge", "time"):
        return [(r[1], r[0]) for r in recs] + [((ab,), 0)] + [(r[1], r[0] + 1) for r in recs[:1]]
    if req == ("edge", "time", "node"):
        return ([(k[0][1], k[0][0], k[1]) for k in P["incs"][:12]] + [(r[1], r[0], r[1][0]) for r in recs[:4] if len(r[1])] +
                [((ab,), 0, ab)])
    if req == ("edge",):
        return [(e,) for e in list({r[1]: 1 for r in recs})[:8]] + [((ab,),)]
    if req == ("time_window",):
        mt = max([r[0] for r in recs] or [0])
        return [(w,) for w in sorted({1 if P["S"] == 1 else P["S"], mt + 1, max(1, (mt + 1) // 2)})]
    return None


def _opt_values(name, P):
    ts = sorted({r[0] for r in P["recs"]})
    if name == "order":
        return [0, 1, 2]
    if name == "size":
        return [1, 2, 3]
    if name in ("metadata", "asdict", "return_mapping", "add_all_nodes", "up_to"):
        return [True]
    if name == "t":
        return [2]
    if name == "time_window" and ts:
        return [(ts[0], ts[-1] + 1), (ts[0], ts[-1]), (ts[len(ts) // 2], ts[len(ts) // 2] + 1)]
    return []


def full_view(h, P, stats=None):
    """{(getter, arguments): canonical result} over every public getter of the object's class"""
    out = {}
    for name, req, opt in getter_names(type(h)):
        args = _req_args(req, P)
        if args is None:
            if stats is not None:
                stats.setdefault("getters_unprobed", {})[name] = 1
            continue
        if stats is not None:
            stats.setdefault("getters_probed", {})[name] = 1
        for a in args:
            # the call with the defaults, then every option on its own (return_mapping=True answers a superset of the
            # default call: asked instead of it - the matrix routines are the expensive ones)
            calls = [(a, {})] if "return_mapping" not in opt else []
            for o in (opt if len(args) <= 8 or name.startswith("get_") else []):
                for v in _opt_values(o, P):
                    calls.append((a, {o: v}))
                    if o == "up_to":
                        calls[-1] = (a, {"up_to": True, "order": 1}) if "order" in opt else calls[-1]
            for aa, kw in calls:
                fa = tuple(fresh(x) if not isinstance(x, tuple) else tuple(fresh(y) for y in x) for x in aa)
                out["%s(%s)" % (name, ", ".join([repr(x) for x in aa] + ["%s=%r" % kv for kv in sorted(kw.items())]))] = \
                    nv(call_getter(h, name, fa, dict(kw)))
    return out


def narrow(x, y, path=""):
    """the first place where two canonical forms differ: (path, part of x, part of y)"""
    if (isinstance(x, (tuple, list)) and isinstance(y, (tuple, list)) and type(x) is type(y) and len(x) == len(y)
            and len(x) > 0):
        for i, (u, v) in enumerate(zip(x, y)):
            if u != v:
                return narrow(u, v, "%s[%d]" % (path, i))
    return path, x, y


def view_diff(a, b, skip=None):
    """first getter call on which two full views differ (None: equal)"""
    for k in a:
        if skip and skip(k):
            continue
        if k not in b or a[k] != b[k]:
            where, x, y = narrow(a[k], b.get(k))
            return k + (" at " + where if where else ""), x, y
    return None


def is_inc_getter(call):
    import re
    return re.match(r"\w*incidences?_metadata", call) is not None


class Impl:
    """runs ops/queries on real TemporalHypergraph objects; labels = fresh copies of lab[rank]"""

    def __init__(self, lab, stats=None):
        self.lab = lab
        self.n = len(lab) - 1
        self.rank = {v: i for i, v in enumerate(lab)}
        self.salt = h32(lab)
        self.slots = {}
        self.passed = []       # mutable containers handed to the implementation by the current call
        self.held = []         # (result, copy taken when it was returned, query) - results the caller keeps
        self.sc = 0
        self.stats = {} if stats is None else stats
        self.used_np = False   # numpy scalars may sit in the object (labels / weights taken from an array that was passed)
        self.ty = []
        self.cc = 0
        self.tmax = 0          # bound on the times of the history (numpy windows only where int64 holds every time)
        self.np_ok = (all(type(v) is int and abs(v) < 2 ** 62 for v in lab) or all(type(v) is float for v in lab)
                      or all(type(v) is str for v in lab))
        _WC[0] = 0

    # -- labels and argument containers --------------------------------------------------------------------------
    def lb(self, i):
        return fresh(self.lab[i])

    def L(self, raw):
        return tuple(self.lb(x) for x in raw)

    def R(self, x):
        try:
            return self.rank.get(x, "?" + repr(x))
        except Exception:
            return "?" + repr(x)

    def RE(self, e):
        return sorted((self.R(x) for x in e), key=lambda r: (isinstance(r, str), r))

    def cnt(self, site, kind):
        d = self.stats.setdefault(site, {})
        d[kind] = d.get(kind, 0) + 1

    def keep(self, o):
        self.passed.append(o)
        return o

    def coll(self, labs, kind, site):
        """the labels `labs` in a container of the given kind (falls back to tuple / list where the kind cannot hold them)"""
        if kind == "range":
            if labs and all(type(v) is int for v in labs) and labs == list(range(labs[0], labs[0] + len(labs))):
                self.cnt(site, kind)
                return range(labs[0], labs[0] + len(labs))
            kind = "tuple"
        if kind == "nparray" and not self.np_ok:
            kind = "list"
        self.cnt(site, kind)
        if kind == "tuple":
            return tuple(labs)
        if kind == "list":
            return self.keep(labs)
        if kind == "set":
            return self.keep(set(labs))
        if kind == "frozenset":
            return frozenset(labs)
        if kind == "gen":
            return (x for x in labs)
        if kind == "nparray":
            self.used_np = True
            return self.keep(_np().array(labs) if labs else _np().array([], dtype=int))
        if kind == "dictkeys":
            return self.keep({x: None for x in labs}).keys()
        raise AssertionError(kind)

    def E(self, raw, site, *key, kind=None):
        """a hyperedge argument: fresh label objects in a container type chosen by a hash of the call"""
        raw = list(raw)
        return self.coll([self.lb(x) for x in raw], kind or pick(EK, self.salt, site, raw, key), site)

    def NL(self, ns, site, allow_gen=True, seq_only=False):
        ns = list(ns)
        kinds = [k for k in NK if (allow_gen or k != "gen") and
                 (not seq_only or k in ("list", "tuple", "gen", "nparray"))]
        return self.coll([self.lb(x) for x in ns], pick(kinds, self.salt, site, ns), site)

    def seq(self, items, kind):
        if kind == "tuple":
            return tuple(items)
        if kind == "nparray":
            np = _np()
            self.used_np = True
            try:
                return self.keep(np.array(items) if all(isinstance(x, (int, float)) and not isinstance(x, bool) and
                                                         abs(x) < 2 ** 62 for x in items) else np.array(items, dtype=object))
            except Exception:
                return self.keep(list(items))
        return self.keep(list(items))

    def scribble_in(self):
        """aliasing IN: the caller goes on using (here: overwrites) every container it passed"""
        for o in self.passed:
            try:
                if isinstance(o, list):
                    o.clear()
                    o.append(JUNK)
                elif isinstance(o, (set, dict)):
                    o.clear()
                elif hasattr(o, "flat") and o.size:
                    o[...] = o.flat[0]
            except Exception:
                pass
        self.passed = []

    def S(self, o, what="", hold_ok=True):
        """aliasing OUT: the caller overwrites a returned list / set / dict (only called on results that the unchanged
        code builds freshly; the metadata getters return the stored dicts by design and are left alone) - or, every
        third time, keeps it: a result in the caller's hands must not change when the object is used later"""
        self.sc += 1
        if hold_ok and self.sc % 3 == 0 and isinstance(o, (list, set, dict)):
            try:
                self.held.append((o, _copy.deepcopy(o), what))
            except Exception:
                pass
            del self.held[:-40]
            return
        try:
            if isinstance(o, list):
                o.clear()
                o.append(JUNK)
            elif isinstance(o, set):
                o.clear()
                o.add(JUNK)
            elif isinstance(o, dict):
                o.clear()
                o[JUNK] = JUNK
        except Exception:
            pass

    def check_held(self):
        """None, or a description of a returned list / set / dict that changed after it had been returned"""
        bad = None
        for o, c, what in self.held:
            try:
                same = (o == c) and type(o) is type(c)
            except Exception:
                same = False
            if not same and bad is None:
                bad = "the result of %s was %r when returned and is %r now" % (what, c, o)
        self.held = []
        return bad

    # -- mutators ------------------------------------------------------------------------------------------------
    def apply(self, op):
        try:
            with time_limit(10):
                self._apply(op)
                return "ok", None
        except AssertionError:
            raise
        except Timeout:
            return "exc:timeout", "timeout"
        except BaseException as e:  # noqa: any exception = rejected
            if isinstance(e, KeyboardInterrupt):
                raise
            return "rej", "%s: %s" % (type(e).__name__, str(e)[:80])
        finally:
            self.scribble_in()

    def _apply(self, op):
        from hypergraphx import TemporalHypergraph
        name = op[0]
        oj = json.dumps(op, sort_keys=True)
        omit = h32(self.salt, oj, "omit") % 2 == 0     # leave optional arguments that are None / default out
        if name == "new":
            self.slots[op[1]] = TemporalHypergraph() if (omit and not op[2]) else TemporalHypergraph(weighted=bool(op[2]))
            return
        if name == "ctor":
            slot, w, nmd, raws, ts, ws, mds, embed = op[1:9]
            hmd = op[9] if len(op) > 9 else None
            sh = batch_shape(self.salt, op)
            kw = {}
            if w or not omit:
                kw["weighted"] = bool(w)
            if ws is not None:
                kw["weights"] = self.seq([w_py(x) for x in ws], sh["wl"])
            if nmd is not None:
                kw["node_metadata"] = self.keep({self.lb(n): md_py(m) for n, m in nmd})
            if mds is not None:
                kw["edge_metadata"] = self.seq([md_py(m) for m in mds], sh["ml"])
            if hmd is not None:
                kw["hypergraph_metadata"] = md_py(hmd)
            edges = [self.E(r, "ctor", i, kind=sh["ek"]) for i, r in enumerate(raws)]
            if embed:
                el = self.seq([(t_py(t), e) for e, t in zip(edges, ts)], sh["el"])
                self.slots[slot] = TemporalHypergraph(edge_list=el, **kw)
            else:
                self.slots[slot] = TemporalHypergraph(edge_list=self.seq(edges, "list"),
                                                      time_list=self.seq([t_py(t) for t in ts], "list"), **kw)
            return
        if name == "ctora":      # constructor without edge_list / time_list (weights / edge_metadata are ignored then)
            slot, w, nmd, hmd, ws, mds = op[1:7]
            kw = {}
            if w or not omit:
                kw["weighted"] = bool(w)
            if ws is not None:
                kw["weights"] = [w_py(x) for x in ws]
            if nmd is not None:
                kw["node_metadata"] = self.keep({self.lb(n): md_py(m) for n, m in nmd})
            if mds is not None:
                kw["edge_metadata"] = [md_py(m) for m in mds]
            if hmd is not None:
                kw["hypergraph_metadata"] = md_py(hmd)
            self.slots[slot] = TemporalHypergraph(**kw)
            return
        if name == "ctorx":
            slot, w, kind, hmd, nmd, form, es, ts, ws, mds = op[1:11]
            kw = {"weighted": bool(w)}
            if ws is not None:
                kw["weights"] = [w_py(x) for x in ws]
            if nmd is not None:
                kw["node_metadata"] = {self.lb(n): md_py(m) for n, m in nmd}
            if mds is not None:
                kw["edge_metadata"] = [md_py(m) for m in mds]
            if hmd is not None:
                kw["hypergraph_metadata"] = md_py(hmd)
            if form == "timesonly":
                TemporalHypergraph(time_list=[t_py(t) for t in ts], **kw)
            elif form == "emb":
                odd = [[fresh(3), (self.lb(0),)], (fresh(3), (self.lb(0),), fresh(1)), ((self.lb(0), self.lb(1)),), None, self.lb(0)]
                el = [odd[h32(oj, i) % len(odd)] if e == "!" else (t_py(t), self.L(e)) for i, (e, t) in enumerate(zip(es, ts))]
                TemporalHypergraph(edge_list=el, **kw)
            else:
                TemporalHypergraph(edge_list=[self.L(e) for e in es], time_list=[t_py(t) for t in ts], **kw)
            return          # (accepted: reported by the caller; the object is dropped)
        if name == "hoad":
            self.slots[op[1]] = hoad_call(op[2], op[3], op[4], op[5])
            return
        if name == "copy":
            self.slots[op[2]] = self.slots[op[1]].copy()
            return
        if name == "derive":
            self.cnt("derive", op[3])
            self.slots[op[2]] = derive_obj(self.slots[op[1]], op[3])
            return
        h, a = self.slots[op[1]], op[2:]
        if name == "addnode":
            if a[1] is not None:
                h.add_node(self.lb(a[0]), md_py(a[1])) if omit else h.add_node(self.lb(a[0]), metadata=md_py(a[1]))
            else:
                h.add_node(self.lb(a[0])) if omit else h.add_node(self.lb(a[0]), None)
        elif name == "addnodes":
            ns = self.NL(a[0], "addnodes", allow_gen=a[1] is None)
            if a[1] is None:
                h.add_nodes(ns) if omit else h.add_nodes(ns, None)
            else:
                h.add_nodes(ns, self.keep({self.lb(n): md_py(m) for n, m in a[1]}))
        elif name == "addedge":
            kw = {}
            w, md = w_py(a[2]), md_py(a[3])
            if w is not None or not omit:
                kw["weight"] = w
            if md is not None or not omit:
                kw["metadata"] = md
            h.add_edge(self.E(a[0], "addedge", a[1]), t_py(a[1]), **kw)
        elif name == "addedges":
            sh = batch_shape(self.salt, op)
            edges = [self.E(r, "addedges", i, kind=sh["ek"]) for i, r in enumerate(a[0])]
            kw = {}
            if a[2] is not None:
                kw["weights"] = self.seq([w_py(x) for x in a[2]], sh["wl"])
            elif not omit:
                kw["weights"] = None
            if a[3] is not None:
                kw["metadata"] = self.seq([md_py(m) for m in a[3]], sh["ml"])
            elif not omit:
                kw["metadata"] = None
            h.add_edges(self.seq(edges, sh["el"]), self.seq([t_py(t) for t in a[1]], sh["tl"]), **kw)
        elif name == "rmedge":
            e, t = self.E(a[0], "rmedge", a[1]), t_py(a[1])
            if a[2]:
                h.remove_edge((t, e) if omit else self.keep([t, e]))
            else:
                h.remove_edge(e, t) if omit else h.remove_edge(e, time=t)
        elif name == "rmedges":
            recs0 = [(t_wire(t), tuple(r)) for r, t in zip(a[0], a[1])]
            okinds = ["list", "tuple", "gen"] + (["set"] if len(set(recs0)) == len(recs0) else [])
            outer = pick(okinds, self.salt, "rmedges", oj)
            rs = []
            for i, (r, t) in enumerate(zip(a[0], a[1])):
                if outer == "set":
                    rs.append((t_py(t), self.E(r, "rmedges", i, kind="tuple")))
                else:
                    e = self.E(r, "rmedges", i)
                    rs.append((t_py(t), e) if (omit or i % 2) else self.keep([t_py(t), e]))
            self.cnt("rmedges_outer", outer)
            h.remove_edges(self.keep(set(rs)) if outer == "set" else (x for x in rs) if outer == "gen" else self.seq(rs, outer))
        elif name == "rmnode":
            if a[1] or not omit:
                h.remove_node(self.lb(a[0]), keep_edges=bool(a[1]))
            else:
                h.remove_node(self.lb(a[0]))
        elif name == "rmnodes":
            # unordered containers only where the order of removal cannot matter (with keep_edges=True the metadata of
            # merged records and the new ids depend on it) and where a repeated node is not what gets the call rejected
            ns = self.NL(a[0], "rmnodes", seq_only=bool(a[1]) or len(set(a[0])) != len(a[0]))
            if a[1] or not omit:
                h.remove_nodes(ns, keep_edges=bool(a[1]))
            else:
                h.remove_nodes(ns)
        elif name == "setw":
            h.set_weight(self.E(a[0], "setw", a[1]), t_py(a[1]), w_py(a[2]))
        elif name == "setnmeta":
            h.set_node_metadata(self.lb(a[0]), md_py(a[1]))
        elif name == "setemeta":
            h.set_edge_metadata(self.E(a[0], "setemeta", a[1]), t_py(a[1]), md_py(a[2]))
        elif name == "sethmeta":
            h.set_hypergraph_metadata(md_py(a[0]))
        elif name == "attrh":
            h.set_attr_to_hypergraph_metadata(key_py(a[0]), val_py(a[1]))
        elif name == "attrn":
            h.set_attr_to_node_metadata(self.lb(a[0]), key_py(a[1]), val_py(a[2]))
        elif name == "attre":
            h.set_attr_to_edge_metadata(self.E(a[0], "attre", a[1]), t_py(a[1]), key_py(a[2]), val_py(a[3]))
        elif name == "delattrn":
            h.remove_attr_from_node_metadata(self.lb(a[0]), key_py(a[1]))
        elif name == "delattre":
            h.remove_attr_from_edge_metadata(self.E(a[0], "delattre", a[1]), t_py(a[1]), key_py(a[2]))
        elif name == "clear":
            h.clear()
        elif name == "setimeta":
            h.set_incidence_metadata(self.E(a[0], "setimeta", a[1]), t_py(a[1]), self.lb(a[2]), md_py(a[3]))
        elif name == "attri":
            # the caller edits the dictionary that get_incidence_metadata hands out (stored by reference by design)
            h.get_incidence_metadata(self.E(a[0], "attri", a[1]), t_py(a[1]), self.lb(a[2]))[key_py(a[3])] = val_py(a[4])
        elif name in ("raw", "rawx"):
            # second extension round: set_edge_list / set_adj_dict with a FRESH table built from the one the object holds
            # (echo = equal copy; drop j = entry j deleted; rev j = id list of entry j reversed), Model/C03Raw.lean
            import copy as _copy
            which, how, j = a[0], a[1], a[2]
            if which == "el":
                d = dict(h.get_edge_list())
                if how == "drop" and j < len(d):
                    del d[list(d)[j]]
                h.set_edge_list(d)
            else:
                d = {k: _copy.copy(v) for k, v in h.get_adj_dict().items()}
                if how == "drop" and j < len(d):
                    del d[list(d)[j]]
                if how == "rev" and j < len(d):
                    k = list(d)[j]
                    d[k] = list(reversed(d[k]))
                h.set_adj_dict(d)
        else:
            raise AssertionError(name)

    # -- queries -------------------------------------------------------------------------------------------------
    def flt(self, o, s, u=None):
        kw = {}
        if o is not None:
            kw["order"] = o
        if s is not None:
            kw["size"] = s
        if u:
            kw["up_to"] = True
        return kw

    def frec(self, r):
        return f_rec(r[0], self.RE(r[1]))

    def srecs(self, rs):
        return sorted(rs, key=lambda r: (r[0], [(isinstance(x, str), x) for x in self.RE(r[1])]))

    def hobj(self, H, with_meta):
        nm = H.get_nodes(metadata=True)
        es = []
        for e in H.get_edges():
            es.append((tuple(self.RE(e)), w_tok(H.get_weight(e)), f_meta(H.get_edge_metadata(e))))
        return f_hspec(H.is_weighted(), {self.R(n): f_meta(m) for n, m in nm.items()}, es)

    def mut_h(self, H, attr_ok, key):
        """the caller goes on working with a derived Hypergraph: structural edits (and, where the unchanged code hands
        out fresh metadata dicts, attribute edits).  Whatever happens to H, the temporal hypergraph must not notice."""
        def tr(f, *a, **k):
            try:
                f(*a, **k)
            except Exception:
                pass
        try:
            nodes, edges, wtd = list(H.get_nodes()), list(H.get_edges()), H.is_weighted()
        except Exception:
            return
        absent = self.lb(self.n)
        tr(H.add_node, absent, {"kx": "a"})
        if nodes:
            tr(H.add_edge, (nodes[0], absent), 3.0 if wtd else None, {"kx": "b"})
            tr(H.set_node_metadata, nodes[0], {"kx": 1})
            if attr_ok:
                tr(H.set_attr_to_node_metadata, nodes[-1], "kx", 2)
        if edges:
            if wtd:
                tr(H.set_weight, edges[0], 7.0)
            tr(H.add_edge, edges[0], 2.0 if wtd else None, {"ky": 1})
            if attr_ok:
                tr(H.set_attr_to_edge_metadata, edges[-1], "kx", 2)
            tr(H.set_edge_metadata, edges[-1], {"kx": 3})
        if nodes:
            tr(H.remove_node, nodes[-1], True)
        if edges and key % 2:
            tr(H.remove_edge, edges[0])
        if key % 3 == 0:
            tr(H.clear)

    def query(self, slot, q):
        try:
            with time_limit(10):
                return self._query(self.slots[slot], q)
        except Timeout:
            return "exc:timeout"
        except AssertionError:
            raise
        except BaseException as e:  # noqa
            if isinstance(e, KeyboardInterrupt):
                raise
            return "rej"
        finally:
            self.scribble_in()

    def win_py(self, win):
        """the window object handed to the library: plain fresh ints, or (third item of the window = style) another
        spelling of the same half-open set of integer times - integral floats, bounds lowered by one half (a - 0.5 <= t
        iff a <= t, t < b - 0.5 iff t < b for integer t), -inf / inf for the bounds beyond every time, numpy integers,
        exact fractions.  A style that cannot spell the bounds exactly falls back to plain ints."""
        if win == "bad":
            return [1, 2, 3]
        a, b = win[0], win[1]
        st = win[2] if len(win) > 2 else 0
        small = abs(a) < 2 ** 52 and abs(b) < 2 ** 52
        if st == 1 and small:
            return (float(a), float(b))
        if st == 2 and small:
            return (a - 0.5, b - 0.5)
        if st == 3:
            return (-math.inf if a <= -BIG else fresh(a), math.inf if b >= BIG else fresh(b))
        if st == 4 and small and self.tmax < 2 ** 62:
            return (_np().int64(a), _np().int64(b))
        if st == 5:
            return (Fraction(a), Fraction(b))
        return (fresh(a), fresh(b))

    def call(self, h, name, *lead, **kw):
        """one call of a getter with options, spelled as a caller may spell it: keywords (mostly), or - one time in five -
        positional arguments in the order of the documented signature (SIGS, written down here, not read from the code);
        a truthy flag is True or 1, a flag that is off is left out, False or 0"""
        self.cc += 1
        c = self.cc
        f = getattr(h, name)
        for k in FLAGS:
            if kw.get(k) is True and c % 3 == 1:
                kw[k] = 1
            elif k not in kw and any(k == x for x, _ in SIGS[name]) and c % 4 == 2:
                kw[k] = False if c % 8 == 2 else 0
        if c % 5 == 0:
            sig = SIGS[name]
            last = max([i for i, (k, _) in enumerate(sig) if k in kw] or [-1])
            return f(*lead, *[kw.get(k, d) for k, d in sig[:last + 1]])
        return f(*lead, **kw)

    def T(self, r, typ, what, item=None):
        """the TYPE of an answer belongs to the answer: the container (and the shape of its items) a query returns is
        fixed by the query and its options, never by the content or by where a window lies (the model's `Ans.kind`)"""
        if type(r) is not typ and not (isinstance(typ, tuple) and type(r) in typ):
            self.ty.append("%s is a %s (%r), not a %s" % (what, type(r).__name__, r if not isinstance(r, (list, dict, set, tuple))
                           else (list(r)[:2] if not isinstance(r, dict) else dict(list(r.items())[:2])),
                           typ.__name__ if not isinstance(typ, tuple) else "/".join(t.__name__ for t in typ)))
            return r
        if item is not None:
            for x in r:
                if not item(x):
                    self.ty.append("%s holds the item %r" % (what, x))
                    break
        return r

    def _query(self, h, q):
        self.ty = []
        out = self._query0(h, q)
        if self.ty:
            out = "%s !type: %s" % (out, "; ".join(self.ty[:2]))
        return out

    def kind_of(self, slot, q):
        """the kind of the answer in the model's vocabulary (`C03.Ans.kind`), read off the Python object that comes back
        - asked again on its own so that no instrumentation touches the object that is classified"""
        h = self.slots[slot]
        name, a = q[0], q[1:]
        try:
            with time_limit(10):
                if name == "edges":
                    win, o, s, u, m = a
                    kw = self.flt(o, s, u)
                    if win is not None:
                        kw["time_window"] = self.win_py(win)
                    if m:
                        kw["metadata"] = True
                    r = h.get_edges(**kw)
                    return {list: "recs", dict: "recsMeta"}.get(type(r), "py:" + type(r).__name__)
                if name == "weights":
                    o, s, u, d = a
                    r = h.get_weights(asdict=True, **self.flt(o, s, u)) if d else h.get_weights(**self.flt(o, s, u))
                    return {list: "ints", dict: "recsW"}.get(type(r), "py:" + type(r).__name__)
                if name == "incident":
                    r = h.get_incident_edges(self.lb(a[0]), **self.flt(a[1], a[2]))
                    return {list: "recs"}.get(type(r), "py:" + type(r).__name__)
                if name == "snap":
                    win = a[0]
                    r = h.subhypergraph() if win is None else h.subhypergraph(time_window=[1, 2] if win == "bad" else self.win_py(win))
                    return {dict: "hs"}.get(type(r), "py:" + type(r).__name__)
                if name == "agg":
                    w = a[0]
                    r = h.aggregate({"x": 2.0, "y": "2"}.get(w, w) if isinstance(w, str) else fresh(w))
                    return {dict: "hs"}.get(type(r), "py:" + type(r).__name__)
                if name in ("mintime", "maxtime"):
                    r = h.min_time() if name == "mintime" else h.max_time()
                    return {int: "int", float: "inf"}.get(type(r), "py:" + type(r).__name__)
                if name in ("numedges",):
                    r = h.num_edges(**self.flt(*a))
                    return {int: "int"}.get(type(r), "py:" + type(r).__name__)
                if name in ("degseq", "degdist"):
                    r = (h.degree_sequence if name == "degseq" else h.degree_distribution)(**self.flt(*a))
                    return {dict: "counts"}.get(type(r), "py:" + type(r).__name__)
                if name == "timesfor":
                    r = h.get_times_for_edge(self.E(a[0], "q_timesfor"))
                    return {list: "ints"}.get(type(r), "py:" + type(r).__name__)
        except Timeout:
            return "exc:timeout"
        except AssertionError:
            raise
        except BaseException as e:  # noqa
            if isinstance(e, KeyboardInterrupt):
                raise
            return "rej"
        finally:
            self.scribble_in()
        return None

    def _query0(self, h, q):
        name, a = q[0], q[1:]
        S = lambda o, hold_ok=True: self.S(o, " ".join(str(x) for x in q), hold_ok)
        if name == "nodes":
            r = self.T(h.get_nodes(), list, "get_nodes()")
            out = f_nodes(self.R(n) for n in r)
            S(r)
            return out
        if name == "nodesmeta":
            d = self.T(h.get_nodes(metadata=True), dict, "get_nodes(metadata=True)")
            d2 = self.T(h.get_all_nodes_metadata(), dict, "get_all_nodes_metadata()")
            s1 = f_join("%s=%s" % (n, m) for n, m in sorted((self.R(n), f_meta(m)) for n, m in d.items()))
            s2 = f_join("%s=%s" % (n, m) for n, m in sorted((self.R(n), f_meta(m)) for n, m in d2.items()))
            return s1 if s1 == s2 else "get_nodes(metadata)=%s / get_all_nodes_metadata=%s" % (s1, s2)
        if name == "checknode":
            return "1" if self.T(h.check_node(self.lb(a[0])), bool, "check_node()") else "0"
        if name == "numnodes":
            return str(self.T(h.num_nodes(), int, "num_nodes()"))
        if name == "edges":
            win, o, s, u, m = a
            kw = self.flt(o, s, u)
            if win is not None:
                kw["time_window"] = self.win_py(win)
            if m:
                d = self.T(self.call(h, "get_edges", metadata=True, **kw), dict, "get_edges(metadata=True, ...)", is_rec)
                out = f_join(self.frec(r) + "=" + f_meta(d[r]) for r in self.srecs(d))
                S(d, False)      # its values are the stored metadata dicts
                return out
            r = self.T(self.call(h, "get_edges", **kw), list, "get_edges(...)", is_rec)
            out = f_join(self.frec(x) for x in self.srecs(r))
            S(r)
            return out
        if name == "numedges":
            return str(self.T(self.call(h, "num_edges", **self.flt(*a)), int, "num_edges()"))
        if name == "checkedge":
            return "1" if self.T(h.check_edge(self.E(a[0], "q_checkedge", a[1]), t_py(a[1])), bool, "check_edge()") else "0"
        if name == "weight":
            return w_tok(h.get_weight(self.E(a[0], "q_weight", a[1]), t_py(a[1])))
        if name == "weights":
            o, s, u, d = a
            if d:
                w = self.T(self.call(h, "get_weights", asdict=True, **self.flt(o, s, u)), dict, "get_weights(asdict=True)", is_rec)
                out = f_join(self.frec(r) + "@" + w_tok(w[r]) for r in self.srecs(w))
                S(w)
                return out
            w = self.T(self.call(h, "get_weights", **self.flt(o, s, u)), list, "get_weights()")
            out = f_ints(int(w_tok(x)) for x in w)
            S(w)
            return out
        if name == "incident":
            r = self.T(self.call(h, "get_incident_edges", self.lb(a[0]), **self.flt(a[1], a[2])), list, "get_incident_edges()", is_rec)
            out = f_join(self.frec(x) for x in self.srecs(r))
            S(r)
            return out
        if name == "neighbors":
            r = self.T(self.call(h, "get_neighbors", self.lb(a[0]), **self.flt(a[1], a[2])), set, "get_neighbors()")
            out = f_nodes(self.R(n) for n in r)
            S(r)
            return out
        if name == "degree":
            return str(self.T(self.call(h, "degree", self.lb(a[0]), **self.flt(a[1], a[2])), int, "degree()"))
        if name == "degseq":
            r = self.T(self.call(h, "degree_sequence", **self.flt(*a)), dict, "degree_sequence()")
            self.T(list(r.values()), list, "the values of degree_sequence()", lambda x: type(x) is int)
            out = f_map({self.R(n): d for n, d in r.items()})
            S(r)
            return out
        if name == "degdist":
            r = self.T(self.call(h, "degree_distribution", **self.flt(*a)), dict, "degree_distribution()", lambda x: type(x) is int)
            out = f_map(r)
            S(r)
            return out
        if name == "sizes":
            r = self.T(h.get_sizes(), list, "get_sizes()", lambda x: type(x) is int)
            out = f_ints(r)
            S(r)
            return out
        if name == "orders":
            r = self.T(h.get_orders(), list, "get_orders()", lambda x: type(x) is int)
            out = f_ints(r)
            S(r)
            return out
        if name == "distsizes":
            r = self.T(h.distribution_sizes(), dict, "distribution_sizes()", lambda x: type(x) is int)
            out = f_map(r)
            S(r)
            return out
        if name == "maxsize":
            return str(self.T(h.max_size(), int, "max_size()"))
        if name == "maxorder":
            return str(self.T(h.max_order(), int, "max_order()"))
        if name == "uniform":
            return "1" if self.T(h.is_uniform(), bool, "is_uniform()") else "0"
        if name == "weighted":
            return "1" if self.T(h.is_weighted(), bool, "is_weighted()") else "0"
        if name == "nmeta":
            return f_meta(h.get_node_metadata(self.lb(a[0])))
        if name == "emeta":
            return f_meta(h.get_edge_metadata(self.E(a[0], "q_emeta", a[1]), t_py(a[1])))
        if name == "allemeta":
            d = self.T(h.get_all_edges_metadata(), dict, "get_all_edges_metadata()")
            return f_join("%s=%s" % (i, f_meta(d[i])) for i in sorted(d))
        if name == "hmeta":
            return f_meta(h.get_hypergraph_metadata())
        if name == "imeta":
            return f_meta(h.get_incidence_metadata(self.E(a[0], "q_imeta", a[1]), t_py(a[1]), self.lb(a[2])))
        if name == "allimeta":
            d = self.T(h.get_all_incidences_metadata(), dict, "get_all_incidences_metadata()")
            rows = sorted(((k[0][0], [(isinstance(x, str), x) for x in self.RE(k[0][1])], (isinstance(self.R(k[1]), str), self.R(k[1]))),
                           "%s^%s=%s" % (self.frec(k[0]), self.R(k[1]), f_meta(v))) for k, v in d.items())
            out = f_join(r[1] for r in rows)
            S(d, False)          # a fresh dict whose values are the stored dictionaries
            return out
        if name == "hashing":
            d = self.T(h.expose_attributes_for_hashing(), dict, "expose_attributes_for_hashing()")
            if sorted(d) != ["edges", "hypergraph_metadata", "nodes", "type", "weighted"] or d["type"] != "TemporalHypergraph":
                self.ty.append("expose_attributes_for_hashing() has the entries %r, type %r" % (sorted(d), d.get("type")))
            self.T(d["weighted"], bool, "expose_attributes_for_hashing()['weighted']")
            es = self.T(d["edges"], list, "expose_attributes_for_hashing()['edges']",
                        lambda x: type(x) is dict and sorted(x) == ["metadata", "nodes", "weight"] and is_rec(x["nodes"]))
            ns = self.T(d["nodes"], list, "expose_attributes_for_hashing()['nodes']",
                        lambda x: type(x) is dict and sorted(x) == ["metadata", "node"])
            return "%s~%s~%s~%s" % ("1" if d["weighted"] else "0", f_meta(d["hypergraph_metadata"]),
                                    f_join("%s/%s@%s=%s" % (x["nodes"][0], f_edge([self.R(y) for y in x["nodes"][1]]),
                                                            w_tok(x["weight"]), f_meta(x["metadata"])) for x in es),
                                    f_join("%s=%s" % (self.R(x["node"]), f_meta(x["metadata"])) for x in ns))
        if name == "mapping":
            enc = h.get_mapping()
            return f_join((str(self.R(x)) for x in enc.classes_), ",")
        if name == "indexof":
            return str(int(h.get_mapping().transform([self.lb(a[0])])[0]))
        if name in ("edgetable", "adjtable", "tables"):
            # the raw tables (ids visible).  These ARE the object's own dicts: read, never written to by the harness
            rk = lambda x: (isinstance(self.R(x), str), self.R(x))
            f_el = lambda el: f_join("%s#%s" % (self.frec(k), i) for k, i in sorted(el.items(), key=lambda p: p[1]))
            f_adj = lambda ad: f_join("%s=%s" % (self.R(x), f_join((str(i) for i in ad[x]), ",", "_")) for x in sorted(ad, key=rk))
            if name == "edgetable":
                return f_el(self.T(h.get_edge_list(), dict, "get_edge_list()"))
            if name == "adjtable":
                return f_adj(self.T(h.get_adj_dict(), dict, "get_adj_dict()"))
            d = self.T(h.expose_data_structures(), dict, "expose_data_structures()")
            want = ["_adj", "_edge_list", "_weighted", "_weights", "edge_metadata", "hypergraph_metadata", "next_edge_id",
                    "node_metadata", "reverse_edge_list", "type"]
            if sorted(d) != want or d["type"] != "TemporalHypergraph":
                self.ty.append("expose_data_structures() has the entries %r, type %r" % (sorted(d), d.get("type")))
            self.T(d["_weighted"], bool, "expose_data_structures()['_weighted']")
            self.T(d["next_edge_id"], int, "expose_data_structures()['next_edge_id']")
            return "~".join(["1" if d["_weighted"] else "0", f_meta(d["hypergraph_metadata"]),
                             f_join("%s@%s" % (i, w_tok(d["_weights"][i])) for i in sorted(d["_weights"])),
                             f_adj(d["_adj"]), f_el(d["_edge_list"]),
                             f_join("%s=%s" % (self.R(x), f_meta(d["node_metadata"][x])) for x in sorted(d["node_metadata"], key=rk)),
                             f_join("%s=%s" % (i, f_meta(d["edge_metadata"][i])) for i in sorted(d["edge_metadata"])),
                             f_join("%s#%s" % (i, self.frec(d["reverse_edge_list"][i])) for i in sorted(d["reverse_edge_list"])),
                             str(d["next_edge_id"])])
        if name == "isolated":
            r = self.T(self.call(h, "isolated_nodes", **self.flt(*a)), list, "isolated_nodes()")
            out = f_nodes(self.R(n) for n in r)
            S(r)
            return out
        if name == "isisolated":
            return "1" if self.T(self.call(h, "is_isolated", self.lb(a[0]), **self.flt(a[1], a[2])), bool, "is_isolated()") else "0"
        if name == "len":
            return str(self.T(len(h), int, "len()"))
        if name == "iter":
            return f_join("%s#%s" % (self.frec(r), i) for r, i in sorted(((r, i) for r, i in h), key=lambda p: p[1]))
        if name == "timesfor":
            r = self.T(h.get_times_for_edge(self.E(a[0], "q_timesfor")), list, "get_times_for_edge()", lambda x: type(x) is int)
            out = f_ints(r)
            S(r)
            return out
        if name == "mintime":
            v = self.T(h.min_time(), (int, float), "min_time()")
            return "inf" if v == math.inf else str(v)
        if name == "maxtime":
            v = self.T(h.max_time(), (int, float), "max_time()")
            return "-inf" if v == -math.inf else str(v)
        if name == "snap":
            win, alln = a[0], (a[1] if len(a) > 1 else 0)
            kw = {"add_all_nodes": True} if alln else {}
            res = self.call(h, "subhypergraph", **kw) if win is None else self.call(
                h, "subhypergraph", time_window=[1, 2] if win == "bad" else self.win_py(win), **kw)
            self.T(res, dict, "subhypergraph()", lambda t: type(t) is int)
            out = f_join(("%d>%s" % (t, self.hobj(res[t], False)) for t in sorted(res)), "|")
            for t in list(res):
                self.mut_h(res[t], True, h32(t))
            S(res, False)
            return out
        if name == "agg":
            w = a[0]
            res = h.aggregate({"x": 2.0, "y": "2"}.get(w, w) if isinstance(w, str) else fresh(w))
            self.T(res, dict, "aggregate()", lambda t: type(t) is int)
            out = f_join(("%d>%s" % (i, self.hobj(res[i], True)) for i in sorted(res)), "|")
            for i in list(res):
                self.mut_h(res[i], False, i)
            S(res, False)
            return out
        raise AssertionError(name)


# ------------------------------------------------------------------------------------------------------------
# wire lines for the Lean driver

def wl_meta(md):
    return "n" if md is None else f_meta_tok(md)


def wl_raws(raws):
    return f_join((f_edge(r) for r in raws), ";")


def wl_times(ts):
    return f_join((t_wire(t) for t in ts), ",")


def op_lines(op):
    name = op[0]
    if name == "new":
        return ["new %d %d" % (op[1], op[2])]
    if name == "ctor":
        # extension round: the constructor call is ONE line of the model (`C03.construct`, Model/C03Ext.lean); before, the
        # harness translated it into `new` + `sethmeta` + `addnode`* + `addedges` itself
        slot, w, nmd, raws, ts, ws, mds, embed = op[1:9]
        return [ctor_line(slot, w, op[9] if len(op) > 9 else None, nmd, "emb" if embed else "sep", [f_edge(r) for r in raws], ts, ws, mds)]
    if name == "ctora":
        slot, w, nmd, hmd, ws, mds = op[1:7]
        return [ctor_line(slot, w, hmd, nmd, "absent", [], [], ws, mds)]
    if name == "ctorx":
        slot, w, kind, hmd, nmd, form, es, ts, ws, mds = op[1:11]
        return [ctor_line(slot, w, hmd, nmd, form, ["!" if e == "!" else f_edge(e) for e in es], ts, ws, mds)]
    if name == "hoad":
        links = hoad_links(op[2], op[3], op[4], op[5])
        return ["new %d 0" % op[1], op_lines(["addedges", op[1], [list(e) for _, e in links], [t for t, _ in links], None, None])[0]]
    if name == "copy":
        return ["copy %d %d" % (op[1], op[2])]
    if name == "derive":
        return ["derive %s %d %d" % (op[3], op[1], op[2])]      # (text for messages; the model lines come from derive_lines)
    s, a = op[1], op[2:]
    if name == "setimeta":
        return ["setimeta %d %s %s %d %s" % (s, f_edge(a[0]), t_wire(a[1]), a[2], wl_meta(a[3]))]
    if name == "attri":
        return ["attri %d %s %s %d %d %d" % (s, f_edge(a[0]), t_wire(a[1]), a[2], a[3], a[4])]
    if name == "addnode":
        return ["addnode %d %d %s" % (s, a[0], wl_meta(a[1]))]
    if name == "addnodes":
        mm = "n" if a[1] is None else f_join(("%d=%s" % (n, wl_meta(m)) for n, m in a[1]), ";")
        return ["addnodes %d %s %s" % (s, f_join((str(n) for n in a[0]), ","), mm)]
    if name == "addedge":
        return ["addedge %d %s %s %s %s" % (s, f_edge(a[0]), t_wire(a[1]), "n" if a[2] is None else a[2], wl_meta(a[3]))]
    if name == "addedges":
        return ["addedges %d %s %s %s %s" % (s, wl_raws(a[0]), wl_times(a[1]),
                                             "n" if a[2] is None else f_join((str(x) for x in a[2]), ","),
                                             "n" if a[3] is None else f_join((wl_meta(m) for m in a[3]), ";"))]
    if name == "rmedge":
        return ["rmedge %d %s %s" % (s, f_edge(a[0]), t_wire(a[1]))]
    if name == "rmedges":
        return ["rmedges %d %s %s" % (s, wl_raws(a[0]), wl_times(a[1]))]
    if name == "rmnode":
        return ["rmnode %d %d %d" % (s, a[0], a[1])]
    if name == "rmnodes":
        return ["rmnodes %d %s %d" % (s, f_join((str(n) for n in a[0]), ","), a[1])]
    if name == "setw":
        return ["setw %d %s %s %d" % (s, f_edge(a[0]), t_wire(a[1]), a[2])]
    if name == "setnmeta":
        return ["setnmeta %d %d %s" % (s, a[0], wl_meta(a[1]))]
    if name == "setemeta":
        return ["setemeta %d %s %s %s" % (s, f_edge(a[0]), t_wire(a[1]), wl_meta(a[2]))]
    if name == "sethmeta":
        return ["sethmeta %d %s" % (s, wl_meta(a[0]))]
    if name == "attrh":
        return ["attrh %d %d %d" % (s, a[0], a[1])]
    if name == "attrn":
        return ["attrn %d %d %d %d" % (s, a[0], a[1], a[2])]
    if name == "attre":
        return ["attre %d %s %s %d %d" % (s, f_edge(a[0]), t_wire(a[1]), a[2], a[3])]
    if name == "delattrn":
        return ["delattrn %d %d %d" % (s, a[0], a[1])]
    if name == "delattre":
        return ["delattre %d %s %s %d" % (s, f_edge(a[0]), t_wire(a[1]), a[2])]
    if name == "clear":
        return ["clear %d" % s]
    if name in ("raw", "rawx"):
        return ["raw %d %s %s" % (s, a[0], a[1]) + ("" if a[1] == "echo" else " %d" % a[2])]
    raise AssertionError(name)


def route_text(route):
    return {"copy": "copy()", "deepcopy": "copy.deepcopy(h)", "pickle": "pickle.loads(pickle.dumps(h))",
            "tables": "TemporalHypergraph(weighted=h.is_weighted()).populate_from_dict(deepcopy(h.expose_data_structures()))",
            "hgx": "save_hypergraph(h, 'h.hgx', binary=True); load_hypergraph('h.hgx')",
            "json": "save_hypergraph(h, 'h.json'); load_hypergraph('h.json')"}[route]


def derive_lines(op, route, sp, impl, src):
    """model lines of a route: slot copy (every table), `derive tables` (all but the incidence table); the JSON file is
    read back through add_node / add_edge in the order of the source's listings"""
    i, j = op[1], op[2]
    if route in COPY_ROUTES:
        return ["copy %d %d" % (i, j)]
    if route in TABLE_ROUTES:
        return ["derive tables %d %d" % (i, j)]
    new = sp.derived(route)
    try:
        nodes = [impl.rank[x] for x in src.get_nodes()]
        recs = [(r[0], frozenset(impl.rank[x] for x in r[1])) for r in src.get_edges()]
        if sorted(nodes) != sorted(new.nodes) or set(recs) != set(new.recs) or len(recs) != len(new.recs):
            raise KeyError
    except Exception:
        nodes, recs = list(new.nodes), list(new.recs)
    ls = ["new %d %d" % (j, 1 if new.weighted else 0), "sethmeta %d %s" % (j, wl_meta(list(new.hmeta.items())))]
    for x in nodes:
        ls.append("addnode %d %d %s" % (j, x, wl_meta(list(new.nodes[x].items()))))
    for k in recs:
        ls.append("addedge %d %s %s %s %s" % (j, f_edge(sorted(k[1])), k[0], new.recs[k][0] if new.weighted else "n",
                                              wl_meta(list(new.recs[k][1].items()))))
    return ls


def ctor_line(slot, w, hmd, nmd, form, etoks, ts, ws, mds):
    """`ctor i w hm nodemeta form es ts ws mds` (Driver/C03.lean, `parseCtor`)"""
    return "ctor %d %d %s %s %s %s %s %s %s" % (
        slot, w, wl_meta(hmd), f_join(("%d=%s" % (n, "_" if m is None else wl_meta(m)) for n, m in (nmd or [])), ";"), form,
        f_join(etoks, ";"), wl_times(ts), "n" if ws is None else f_join((str(x) for x in ws), ","),
        "n" if mds is None else f_join((wl_meta(m) for m in mds), ";"))


def ctor_hmeta(w, hmd):
    """constructor: the caller's hypergraph metadata, then 'weighted' and 'type' written over it"""
    d = {k: v for k, v in hmd}
    d[100] = 91 if w else 90
    d[101] = 92
    return [[k, v] for k, v in d.items()]


def oi(x):
    return "-" if x is None else str(x)


def wl_win(win):
    return "-" if win is None else ("bad" if win == "bad" else "%d:%d" % (win[0], win[1]))


def q_line(slot, q):
    name, a = q[0], q[1:]
    p = "q %d %s" % (slot, name)
    if name in ("nodes", "nodesmeta", "numnodes", "sizes", "orders", "distsizes", "maxsize", "maxorder", "uniform",
                "weighted", "allemeta", "hmeta", "len", "iter", "mintime", "maxtime"):
        return p
    if name in ("checknode", "nmeta"):
        return "%s %d" % (p, a[0])
    if name == "edges":
        return "%s %s %s %s %d %d" % (p, wl_win(a[0]), oi(a[1]), oi(a[2]), a[3], a[4])
    if name == "numedges":
        return "%s %s %s %d" % (p, oi(a[0]), oi(a[1]), a[2])
    if name in ("checkedge", "weight", "emeta"):
        return "%s %s %s" % (p, f_edge(a[0]), t_wire(a[1]))
    if name in XQ:            # extension round: the getters of Model/C03Ext.lean (`x i <name>`)
        return "x %d %s%s" % (slot, name, " %d" % a[0] if name == "indexof" else "")
    if name == "imeta":
        return "%s %s %s %d" % (p, f_edge(a[0]), t_wire(a[1]), a[2])
    if name == "allimeta":
        return p
    if name == "weights":
        return "%s %s %s %d %d" % (p, oi(a[0]), oi(a[1]), a[2], a[3])
    if name in ("incident", "neighbors", "degree", "isisolated"):
        return "%s %d %s %s" % (p, a[0], oi(a[1]), oi(a[2]))
    if name in ("degseq", "degdist", "isolated"):
        return "%s %s %s" % (p, oi(a[0]), oi(a[1]))
    if name == "timesfor":
        return "%s %s" % (p, f_edge(a[0]))
    if name == "snap":       # add_all_nodes is not on the wire: the unchanged code never adds a node for it
        return "%s %s" % (p, wl_win(a[0]))
    if name == "agg":
        return "%s %s" % (p, "x" if isinstance(a[0], str) else a[0])
    raise AssertionError(name)


FLAGS = ("up_to", "metadata", "asdict", "add_all_nodes")
_OS = [("order", None), ("size", None)]
SIGS = {"get_edges": [("time_window", None)] + _OS + [("up_to", False), ("metadata", False)],
        "num_edges": _OS + [("up_to", False)], "get_weights": _OS + [("up_to", False), ("asdict", False)],
        "get_incident_edges": _OS, "get_neighbors": _OS, "degree": _OS, "degree_sequence": _OS, "degree_distribution": _OS,
        "isolated_nodes": [("size", None), ("order", None)], "is_isolated": [("size", None), ("order", None)],
        "subhypergraph": [("time_window", None), ("add_all_nodes", False)]}

KINDED = ("edges", "weights", "incident", "snap", "agg", "mintime", "maxtime", "numedges", "degseq", "degdist", "timesfor")

XQ = ("hashing", "mapping", "indexof", "edgetable", "adjtable", "tables")
DIGEST_QS = [("nodesmeta",), ("edges", None, None, None, 0, 1), ("weights", None, None, 0, 1), ("allemeta",),
             ("iter",), ("hmeta",), ("weighted",), ("allimeta",), ("hashing",)]


def digest_queries(n):
    return DIGEST_QS + [("incident", i, None, None) for i in range(n)]


def filters(full):
    fl = [(None, None, 0)] + [(o, None, u) for o in ORDERS for u in (0, 1)] + [(None, s, u) for s in SIZES for u in (0, 1)]
    fl += [(1, 2, 0), (0, 3, 1)]
    return fl


def cut_windows3(sp, S, rng):
    """windows placed at the records' own times (at 0 and the time scale for an object without records), in three groups:
    `over` - everything, all but the last time, all but the first, one time only, a prefix;
    `miss` - windows that select NO record: entirely before the first / after the last time (near and far, up to
             +-10^30), empty and inverted ones at, between and beyond the records' times, a gap between two times;
    `edge` - windows that touch the first / last time from either side with one bound"""
    ts = sorted({k[0] for k in sp.recs}) or [0, S]
    lo, hi, mid = ts[0], ts[-1], rng.choice(ts)
    over = [(lo, hi + 1), (lo, hi), (lo + 1, hi + 1), (mid, mid + 1), (-1, mid + 1), (-BIG, BIG), (lo, BIG), (-BIG, hi + 1)]
    miss = [(mid, mid), (hi + 1, lo), (lo - 2, lo), (lo - 1, lo - 1), (hi + 1, hi + 3), (hi + 1, hi + 1), (hi + 1, BIG),
            (-BIG, lo), (hi + 2, hi + 1), (BIG, -BIG), (hi + S + 1, hi + 3 * S)]
    gaps = [(x + 1, y) for x, y in zip(ts, ts[1:]) if y > x + 1]
    if gaps:
        miss.append(rng.choice(gaps))
    if not sp.recs:
        over = []
        miss += [(lo, hi + 1), (0, 1), (-BIG, BIG), (-1, 14 * S)]
    edge = [(hi, hi + 1), (lo, lo + 1), (hi, hi), (lo, lo), (lo - 1, lo + 1), (hi, hi + 2), (lo - 3, lo + 1), (hi, BIG),
            (-BIG, lo + 1), (hi - 1, hi), (lo + 1, lo + 2)]
    return over, miss, edge


def cut_windows(sp, S, rng):
    over, miss, edge = cut_windows3(sp, S, rng)
    return over + miss + edge


def wstyle(rng, w, p=0.3):
    """now and then the same window is spelled with other objects than ints (Impl.win_py)"""
    if w is None or w == "bad" or rng.random() >= p:
        return w
    return (w[0], w[1], rng.randint(1, 5))


def norec_queries(rng, n, sp, S):
    """the option product of the listing / counting queries in short, for objects WITHOUT records (fresh, emptied by
    removals / clear(), nodes only) and whenever else it is asked: windows of every group x metadata x filters, the
    un-windowed forms, snapshots, aggregate, times, counts - the container that comes back is fixed by the options"""
    over, miss, edge = cut_windows3(sp, S, rng)
    ws = [None] + rng.sample(miss, 3) + rng.sample(edge, 1) + rng.sample(over, min(1, len(over)))
    fl = [(None, None, 0)] + rng.sample(filters(False), 1)
    qs = []
    for w in ws:
        for o, s, u in fl:
            for m in (1, 0):
                qs.append(("edges", wstyle(rng, w), o, s, u, m))
    for w in ws[:3]:
        qs.append(("snap", wstyle(rng, w), rng.randint(0, 1)))
    o, s, u = fl[1]
    qs += [("weights", None, None, 0, 1), ("weights", None, None, 0, 0), ("weights", o, s, u, 1), ("weights", o, s, u, 0),
           ("numedges", o, s, u), ("numedges", None, None, 0), ("agg", rng.choice(widths(S))), ("mintime",), ("maxtime",),
           ("sizes",), ("orders",), ("distsizes",), ("maxsize",), ("maxorder",), ("uniform",), ("len",), ("nodes",),
           ("isolated", None, None), ("isolated", o if not u else None, s if not u else None),
           ("degseq", None, None), ("degdist", None, None), ("timesfor", list(rng.sample(range(n), min(n, 2)))),
           ("incident", rng.randrange(n), None, None), ("neighbors", rng.randrange(n), None, None)]
    return qs


def sweep_queries(rng, n, sp, full, S=1):
    """every query with every filter; all windows; snapshots; all widths; time_window x order/size x up_to x metadata"""
    qs = [("nodes",), ("numnodes",), ("sizes",), ("orders",), ("distsizes",), ("maxsize",), ("maxorder",), ("uniform",),
          ("len",), ("mintime",), ("maxtime",)]
    fl = filters(full)
    nf = [(None, None)] + [(o, None) for o in ORDERS] + [(None, s) for s in SIZES] + [(2, 2)]
    for o, s, u in fl:
        qs.append(("edges", None, o, s, u, 0))
        qs.append(("numedges", o, s, u))
        qs.append(("weights", o, s, u, 0))
        qs.append(("weights", o, s, u, 1))
    for o, s, u in rng.sample(fl, 6):
        qs.append(("edges", None, o, s, u, 1))
    for o, s in nf:
        qs.append(("degseq", o, s))
        qs.append(("degdist", o, s))
        qs.append(("isolated", o, s))
    for x in range(n + 1):          # rank n is never a node: absent-node path
        qs.append(("checknode", x))
        qs.append(("nmeta", x))
        for o, s in (nf if x < n else nf[:2]):
            qs.append(("incident", x, o, s))
            qs.append(("neighbors", x, o, s))
            qs.append(("degree", x, o, s))
            qs.append(("isisolated", x, o, s))
    # per-record queries: every present record, plus absent / malformed ones
    keys = [(sorted(k[1]), k[0]) for k in sp.recs]
    probes = list(keys)
    for _ in range(4):
        e = rng.sample(range(n), rng.randint(0, min(3, n)))
        probes.append((e, rng.choice([t * S for t in ALLT] + [-1, "f", "s"])))
    for e, t in keys[:4]:
        probes.append((e, rng.choice([t + 1, "f", "s", -1])))
    for e, t in probes:
        e = list(e)
        rng.shuffle(e)
        for nm in ("checkedge", "weight", "emeta"):
            qs.append((nm, e, t))
    # per-incidence queries: every entry of the table (also entries of records that were removed since), every
    # (record, member) pair of some records, an absent node, an absent record
    for (k, x) in list(sp.imd)[:10]:
        e = sorted(k[1])
        rng.shuffle(e)
        qs.append(("imeta", e, k[0], x))
    for e, t in keys[:4]:
        for x in list(e)[:2] + [n]:
            qs.append(("imeta", list(e), t, x))
    for e, t in probes[-4:]:
        qs.append(("imeta", list(e), t, rng.randrange(n)))
    qs.append(("allimeta",))
    seen = set()
    for e, _ in probes:
        if tuple(sorted(e)) not in seen:
            seen.add(tuple(sorted(e)))
            e = list(e)
            rng.shuffle(e)
            qs.append(("timesfor", e))
    # windows
    g = tgrid(S)
    wins = [(a, b) for a in g for b in g]
    for w in wins:
        qs.append(("edges", w, None, None, 0, 0))
    for w in rng.sample(wins, 40 if full else 16):
        o, s, u = rng.choice(fl)
        qs.append(("edges", wstyle(rng, w), o, s, u, rng.randint(0, 1)))
    # the full product of the options of get_edges on windows that cut the records in every way, miss all of them
    # (before / after / between / empty / inverted), touch the first or last time; every window of the three groups
    # with metadata on and off and one filter at least
    over, miss, edge = cut_windows3(sp, S, rng)
    cw = over + miss + edge
    k = 3 if full else 1
    prod = rng.sample(over, min(k, len(over))) + rng.sample(miss, k) + rng.sample(edge, k)
    for w in prod:
        w = wstyle(rng, w)
        for o, s, u in fl:
            for m in (0, 1):
                qs.append(("edges", w, o, s, u, m))
    for w in cw:
        if w not in prod:
            o, s, u = rng.choice(fl)
            m = rng.randint(0, 1)
            qs.append(("edges", wstyle(rng, w), o, s, u, m))
            qs.append(("edges", wstyle(rng, w), None, None, 0, 1 - m))
    qs.append(("edges", "bad", None, None, 0, 0))
    qs.append(("edges", "bad", 1, None, 1, 1))
    for alln in (0, 1):
        qs.append(("snap", None, alln))
        qs.append(("snap", "bad", alln))
        for w in rng.sample(wins, 30 if full else 8) + (rng.sample(cw, 12) if full else rng.sample(over, min(1, len(over))) + rng.sample(miss, 2)
                                                           + rng.sample(edge, 1)):
            qs.append(("snap", wstyle(rng, w), alln))
    cw = [w for w in cut_widths(sp) if w not in widths(S)]
    for w in widths(S) + (cw if full or len(cw) <= 4 else rng.sample(cw, 4)):
        qs.append(("agg", w))
    for w in (0, -1, -3, "x", "y", 40 * S):
        qs.append(("agg", w))
    return qs


def cut_widths(sp):
    """widths placed at the content: the largest time M itself, M +- 1, halves and thirds of M + 1 and their neighbours -
    where (M + 1) / w is within rounding of an integer (few windows each, whatever the magnitude of the times)"""
    ts = [k[0] for k in sp.recs]
    if not ts or max(ts) == 0:
        return []
    m = max(ts)
    c = {m, m + 1, m - 1, (m + 1) // 2, (m + 1) // 2 + 1, m // 2, (m + 1) // 3, (m + 1) // 3 + 1, m // 3, m + 2}
    return sorted(w for w in c if w >= 1 and m // w <= 14)


def probe_queries(rng, n, g):
    """a fixed set of questions per history, asked again after EVERY call: whatever the object memoises is filled before
    the next call, so an answer that is not recomputed from the current content (stale cache) shows at once"""
    x, y = rng.randrange(n), rng.randrange(n)
    grid = tgrid(g.S)
    a, b = sorted(rng.sample(grid, 2))
    e0 = list(rng.choice(g.epool))
    return [("neighbors", x, None, None), ("degree", y, None, None), ("incident", x, None, 2), ("isisolated", y, None, None),
            ("isolated", None, None), ("degdist", None, None), ("degseq", 1, None), ("numedges", None, None, 0),
            ("numedges", 1, None, 1), ("edges", (a, b), None, None, 0, 0), ("edges", None, None, 2, 1, 0),
            ("weights", None, 2, 0, 0), ("timesfor", e0), ("mintime",), ("maxtime",), ("sizes",), ("distsizes",),
            ("uniform",), ("maxsize",), ("len",), ("nodes",), ("numnodes",), ("agg", rng.choice(widths(g.S))), ("snap", None, 0)]


def random_queries(rng, n, sp, k, S=1):
    qs = []
    fl = filters(False)
    g = tgrid(S)
    for _ in range(k):
        r = rng.random()
        o, s, u = rng.choice(fl)
        if r < 0.2:
            qs.append(("edges", wstyle(rng, rng.choice([None, (rng.choice(g), rng.choice(g))])), o, s, u, rng.randint(0, 1)))
        elif r < 0.3:
            qs.append(("numedges", o, s, u))
        elif r < 0.45:
            x = rng.randrange(n)
            qs.append((rng.choice(["incident", "neighbors", "degree", "isisolated"]), x, o if not u else None, s if not u else None))
        elif r < 0.55:
            qs.append((rng.choice(["degseq", "degdist", "isolated"]), o if not u else None, s if not u else None))
        elif r < 0.65:
            qs.append(("agg", rng.choice(widths(S))))
        elif r < 0.75:
            qs.append(("snap", rng.choice([None, (rng.choice(g), rng.choice(g))]), rng.randint(0, 1)))
        elif r < 0.82 and sp.recs:
            k0 = rng.choice(list(sp.recs))
            qs.append((rng.choice(["weight", "emeta", "checkedge"]), sorted(k0[1]), k0[0]))
        elif r < 0.86 and sp.imd:
            k0, x = rng.choice(list(sp.imd))
            qs.append(("imeta", sorted(k0[1]), k0[0], x))
        else:
            qs.append((rng.choice(["sizes", "distsizes", "maxsize", "uniform", "mintime", "maxtime", "len", "nodes"]),))
    return qs


# ------------------------------------------------------------------------------------------------------------
# direct property oracles on the implementation's own outputs (independent of Spec and of the model)

def oracle_derivations(ctx, case, impl, slot, n, rng, full, S=1):
    h = impl.slots[slot]
    out = []

    def bad(what):
        out.append(what)

    try:
        with time_limit(30):
            recs = [(r[0], tuple(impl.RE(r[1]))) for r in h.get_edges()]
            rl = {(t, e): r for r, (t, e) in zip(h.get_edges(), recs)}
            wt = {k: int(w_tok(h.get_weight(rl[k][1], rl[k][0]))) for k in recs}
            weighted = h.is_weighted()
            nodes = sorted(impl.R(x) for x in h.get_nodes())
            g = tgrid(S)
            wins = [(a, b) for a in g for b in g]
            for (a, b) in (wins if full else rng.sample(wins, 60)):
                got = sorted((r[0], tuple(impl.RE(r[1]))) for r in h.get_edges(time_window=(fresh(a), fresh(b))))
                want = sorted(k for k in recs if a <= k[0] < b)
                if got != want:
                    bad("get_edges(time_window=(%d,%d)) = %s, records with %d <= t < %d are %s" % (a, b, got, a, b, want))
                    break
            # the windowed listing under every option: the container of the un-windowed listing with the same options
            # (what comes back is a matter of the options, not of where the window lies), holding exactly the records of
            # the window that pass the filter - with the metadata view, each with the metadata of the record
            ts = sorted({k[0] for k in recs}) or [0, S]
            lo, hi = ts[0], ts[-1]
            special = [(lo - 2, lo), (hi + 1, hi + 3), (hi + 1, hi + 1), (lo, lo), (hi, hi + 1), (lo, hi + 1), (hi + 1, lo),
                       (-BIG, BIG), (lo, lo + 1), (hi + 1, BIG), (-BIG, lo), (hi, hi), (lo + 1, hi)]
            fl1 = [f for f in filters(False) if f[0] is None or f[1] is None]
            for (a, b) in (special if full else rng.sample(special, 6)) + rng.sample(wins, 4):
                o, s_, u = rng.choice(fl1)
                m = rng.random() < 0.6
                kw = impl.flt(o, s_, u)
                if m:
                    kw["metadata"] = True
                ref = h.get_edges(**kw)
                got = h.get_edges(time_window=(fresh(a), fresh(b)), **kw)
                call = "get_edges(time_window=(%d, %d)%s)" % (a, b, "".join(", %s=%r" % kv for kv in sorted(kw.items())))
                if type(got) is not type(ref):
                    bad("%s returns a %s %r, the same call without the window returns a %s"
                        % (call, type(got).__name__, got, type(ref).__name__))
                    break
                oo = (s_ - 1) if s_ is not None else o
                want = sorted(k for k in recs if a <= k[0] < b and (oo is None or (len(k[1]) - 1 <= oo if u else len(k[1]) - 1 == oo)))
                gotk = sorted((r[0], tuple(impl.RE(r[1]))) for r in got)
                if gotk != want:
                    bad("%s lists %s, the records of the window that pass the filter are %s" % (call, gotk, want))
                    break
                if m:
                    wrong = [r for r in got if f_meta(got[r]) != f_meta(h.get_edge_metadata(r[1], r[0]))]
                    if wrong:
                        bad("%s gives record %s the metadata %r, get_edge_metadata gives %r"
                            % (call, wrong[0], got[wrong[0]], h.get_edge_metadata(wrong[0][1], wrong[0][0])))
                        break
            # snapshots
            for win in [None] + rng.sample(wins, 6):
                res = h.subhypergraph() if win is None else h.subhypergraph(time_window=win)
                sel = [k for k in recs if win is None or win[0] <= k[0] < win[1]]
                if sorted(res) != sorted({k[0] for k in sel}):
                    bad("subhypergraph(%s) has times %s, records in the window have times %s"
                        % (win, sorted(res), sorted({k[0] for k in sel})))
                    break
                for t in res:
                    H = res[t]
                    got = sorted((tuple(impl.RE(e)), int(w_tok(H.get_weight(e)))) for e in H.get_edges())
                    want = sorted((k[1], wt[k] if weighted else 4) for k in sel if k[0] == t)
                    if got != want:
                        bad("subhypergraph(%s)[%d] has hyperedges/weights %s, the records of time %d are %s"
                            % (win, t, got, t, want))
                        break
            # aggregate
            mt0 = max([k[0] for k in recs] or [0])
            cw = sorted({w for w in (mt0, mt0 + 1, mt0 - 1, (mt0 + 1) // 2, (mt0 + 1) // 3, mt0 // 2 + 1)
                         if w >= 1 and mt0 // w <= 14})
            for w in ((widths(S) if full else rng.sample(widths(S), 5)) + (cw if full or len(cw) <= 3 else rng.sample(cw, 3))):
                res = h.aggregate(fresh(w))
                if not recs:
                    if len(res) != 0:
                        bad("aggregate(%d) of a hypergraph without records is not empty" % w)
                    continue
                mt = max(k[0] for k in recs)
                if sorted(res) != list(range(mt // w + 1)):
                    bad("aggregate(%d) has indices %s, expected 0..%d (max time %d)" % (w, sorted(res), mt // w, mt))
                    break
                for i in sorted(res):
                    H = res[i]
                    if sorted(impl.R(x) for x in H.get_nodes()) != nodes:
                        bad("aggregate(%d)[%d] has nodes %s, temporal hypergraph has %s"
                            % (w, i, sorted(impl.R(x) for x in H.get_nodes()), nodes))
                        break
                    want = {}
                    for k in recs:
                        if i * w <= k[0] < (i + 1) * w:
                            want[k[1]] = (want.get(k[1], 0) + wt[k]) if weighted else 4
                    got = {tuple(impl.RE(e)): int(w_tok(H.get_weight(e))) for e in H.get_edges()}
                    if got != want:
                        bad("aggregate(%d)[%d] = %s, records in [%d,%d) give %s" % (w, i, got, i * w, (i + 1) * w, want))
                        break
                if out:
                    break
            for w in (0, -2, 2.0, "2"):
                try:
                    h.aggregate(w)
                    bad("aggregate(%r) was accepted" % (w,))
                except Exception:
                    pass
            # __str__ / __len__ / __iter__ are the counts and the size distribution of the records
            dist = {}
            for k in recs:
                dist[len(k[1])] = dist.get(len(k[1]), 0) + 1
            want_str = "Hypergraph with %d nodes and %d edges.\nDistribution of hyperedge sizes: %s" % (len(nodes), len(recs), dist)
            if str(h) != want_str:
                bad("str() = %r, the records give %r" % (str(h), want_str))
            if len(h) != len(recs) or sorted((r[0][0], tuple(impl.RE(r[0][1]))) for r in h) != sorted(recs):
                bad("len()/iter() do not list the records once each")
    except Timeout:
        bad("a derivation (get_edges window / subhypergraph / aggregate) did not terminate within 30 s")
    except Exception as e:
        bad("a derivation raised %s: %s" % (type(e).__name__, str(e)[:100]))
    for what in out[:1]:
        ctx.violation(case, what)
    return not out


# ------------------------------------------------------------------------------------------------------------
# generator

def gen_md(rng, allow_none=True, opq=False):
    """metadata tokens; with `opq` now and then an object that is not a mapping (a tag string, a number, a list, '' / []
    - the unchanged code stores whatever it is given)"""
    r = rng.random()
    if allow_none and r < 0.45:
        return None
    if opq and r > 0.93:
        return [[OPQ, rng.choice(OPAQUE_VALS)]]
    if r < 0.6:
        return []
    ks = rng.sample([0, 1], rng.randint(1, 2))
    return [[k, rng.randrange(len(VALPOOL))] for k in ks]


def tgrid(S):
    """window bounds: -1..14 for the plain time scale, else -1, the multiples of the scale up to 13*S and 12*S+1"""
    return list(range(-1, 15)) if S == 1 else [-1] + [t * S for t in range(14)] + [12 * S + 1]


def widths(S):
    """aggregation widths that keep the number of windows small: 1..15 (plain scale) or multiples of the scale and
    their neighbours"""
    if S == 1:
        return list(range(1, 16))
    return [w * S for w in range(1, 12)] + [S - 1, S + 1, 3 * S - 1, 5 * S + 1]


class Gen:
    def __init__(self, rng, n, weighted, S=1):
        self.rng, self.n, self.weighted, self.S = rng, n, weighted, S
        self.allt = [t * S for t in ALLT]
        self.tpool = rng.sample(self.allt, rng.randint(2, 4))
        if rng.random() < 0.5 and 0 not in self.tpool:
            self.tpool[0] = 0
        self.epool = [self.rand_set() for _ in range(rng.randint(3, 5))]
        self.retry = None        # the corrected form of the call that was just sent malformed
        self.pending = []        # in-place edits owed after a route (a copy that shares a stored dictionary shows only then)

    def inplace(self, kind, slot, sp):
        """an edit INSIDE a dictionary that is stored already (node / hyperedge / incidence / hypergraph level)"""
        rng = self.rng
        v = rng.randrange(len(VALPOOL))
        if kind == "attri":
            live = [p for p in sp.imd if p[0] in sp.recs and OPQ not in sp.imd[p]]
            if live:
                k, x = rng.choice(live)
                return ["attri", slot, sorted(k[1]), k[0], x, rng.choice([0, 1]), v]
        if kind == "attre":
            ks = [k for k in sp.recs if OPQ not in sp.recs[k][1]]
            if ks:
                k = rng.choice(ks)
                return ["attre", slot, sorted(k[1]), k[0], rng.choice([0, 1]), v]
        if kind == "attrn":
            ns = [x for x in sp.nodes if OPQ not in sp.nodes[x]]
            if ns:
                return ["attrn", slot, rng.choice(ns), rng.choice([0, 1]), v]
        if kind == "attrh":
            return ["attrh", slot, rng.choice([0, 1, 100]), v]
        return None

    def inc_op(self, slot, sp, mal):
        """set_incidence_metadata / an edit of the dictionary it stored: present records (members, other nodes, a label that
        is no node), entries of records that were removed since, absent records"""
        rng = self.rng
        live = [p for p in sp.imd if p[0] in sp.recs and OPQ not in sp.imd[p]]
        if live and not mal and rng.random() < 0.4:
            k, x = rng.choice(live)
            e = sorted(k[1])
            rng.shuffle(e)
            return ["attri", slot, e, k[0], x, rng.choice([0, 1]), rng.randrange(len(VALPOOL))]
        if sp.imd and rng.random() < 0.1:
            k, x = rng.choice(list(sp.imd))          # mostly an entry whose record is gone: must be refused
            return ["attri", slot, sorted(k[1]), k[0], x, 0, rng.randrange(len(VALPOOL))]
        e, t = self.present(sp)
        if mal:
            t = rng.choice([self.badtime(), (t + 1) if isinstance(t, int) else 0])
            self.retry = ["setimeta", slot, list(e), self.time() if not isinstance(t, int) or t < 0 else t - 1,
                          rng.randrange(self.n), gen_md(rng, False)]
        c = rng.random()
        x = rng.choice(list(e)) if (e and c < 0.6) else (self.n if c > 0.88 else rng.randrange(self.n))
        return ["setimeta", slot, e, t, x, gen_md(rng, False, True)]

    def rand_set(self):
        k = self.rng.choice([0, 1, 1, 2, 2, 2, 2, 3, 3, 3, 4, 4])
        return sorted(self.rng.sample(range(self.n), min(k, self.n)))

    def time(self):
        return self.rng.choice(self.tpool) if self.rng.random() < 0.75 else self.rng.choice(self.allt)

    def edge(self):
        e = list(self.rng.choice(self.epool)) if self.rng.random() < 0.75 else self.rand_set()
        self.rng.shuffle(e)
        return e

    def weight(self, sp, ok=True):
        if sp.weighted:
            if self.rng.random() < 0.04:
                return self.rng.choice([4 * 2 ** 31, 4 * (2 ** 32 + 1), 2 ** 40 + 1])   # beyond int32 / float32
            return self.rng.choice([None, 4, 4, 2, 6, 8, 1, 3, 12, 0])
        if ok:
            return self.rng.choice([None, None, 4])
        return self.rng.choice([8, 2])

    def present(self, sp):
        if sp.recs and self.rng.random() < 0.93:
            k = self.rng.choice(list(sp.recs))
            e = sorted(k[1])
            self.rng.shuffle(e)
            return e, k[0]
        return self.edge(), self.time()

    def node(self, sp):
        if sp.nodes and self.rng.random() < 0.93:
            return self.rng.choice(list(sp.nodes))
        return self.rng.randrange(self.n)

    def badtime(self, insert=False):
        """a time that must be rejected; integral floats and numpy integers only where a record is inserted (in lookups
        3.0 and numpy.int64(3) are equal to the key 3, which the property does not speak about)"""
        return self.rng.choice(["f", "s", -1, -2, -self.S] + (["F", "n", "N"] if insert else []))

    def nested(self, sp):
        """a record next to a present one: the same time, one node fewer or one node more - so that
        remove_node(keep_edges=True) shrinks a record onto an existing one"""
        big = [k for k in sp.recs if len(k[1]) >= 2]
        if big and self.rng.random() < 0.7:
            k = self.rng.choice(big)
            e = sorted(k[1] - {self.rng.choice(sorted(k[1]))})
        else:
            ks = [k for k in sp.recs if 1 <= len(k[1]) <= 3 and len(k[1]) < self.n]
            if not ks:
                return None
            k = self.rng.choice(ks)
            e = sorted(k[1] | {self.rng.choice([x for x in range(self.n) if x not in k[1]])})
        self.rng.shuffle(e)
        return e, k[0]

    def collapsing_node(self, sp):
        """a node whose removal with keep_edges=True makes two records of one time coincide (None if there is none)"""
        c = [x for k in sp.recs for x in k[1] if len(k[1]) >= 2 and (k[0], k[1] - {x}) in sp.recs]
        return self.rng.choice(c) if c else None

    def op(self, slot, sp, two):
        rng = self.rng
        while self.pending:
            op = self.inplace(self.pending.pop(), slot, sp)
            if op is not None:
                return op
        if self.retry is not None:
            # a call that was just refused is sent again in its corrected form (same hyperedge): whatever the refused call
            # left behind half-way meets the call that would have found it
            op, self.retry = self.retry, None
            if rng.random() < 0.7 and op[1] == slot:
                return op
        r = rng.random()
        mal = rng.random() < 0.10
        if rng.random() < 0.07:
            return self.inc_op(slot, sp, mal)
        if r < 0.27:
            if mal:
                # refused insertions of new AND of present records; the next call is mostly the corrected one
                e, t = self.present(sp) if (sp.recs and rng.random() < 0.4) else (self.edge(), self.time())
                if rng.random() < 0.6 or sp.weighted:
                    self.retry = ["addedge", slot, list(e), t, self.weight(sp), gen_md(rng, True, True)]
                    return ["addedge", slot, e, self.badtime(True), self.weight(sp), gen_md(rng, True, True)]
                self.retry = ["addedge", slot, list(e), t, self.weight(sp), gen_md(rng, True, True)]
                return ["addedge", slot, e, t, self.weight(sp, False), gen_md(rng, True, True)]
            if sp.recs and rng.random() < 0.2:
                et = self.nested(sp)
                if et is not None:
                    return ["addedge", slot, et[0], et[1], self.weight(sp), gen_md(rng, True, True)]
            if sp.recs and rng.random() < 0.35:
                e, t = self.present(sp)
                return ["addedge", slot, e, t, self.weight(sp), gen_md(rng, True, True)]
            return ["addedge", slot, self.edge(), self.time(), self.weight(sp), gen_md(rng, True, True)]
        if r < 0.35:
            k = rng.randint(0, 4)
            raws = [self.edge() for _ in range(k)]
            ts = [self.time() for _ in range(k)]
            ws = None
            if rng.random() < (0.6 if sp.weighted else 0.12):
                ws = [rng.choice([4, 2, 6, 8, 0]) for _ in range(k)]
                if not mal:
                    seen, r2, t2, w2 = set(), [], [], []
                    for e, t, w in zip(raws, ts, ws):
                        if tuple(e) not in seen:
                            seen.add(tuple(e))
                            r2.append(e), t2.append(t), w2.append(w)
                    raws, ts, ws = r2, t2, w2
            mds = [gen_md(rng, False, True) for _ in raws] if rng.random() < 0.4 else None
            if ws is not None and rng.random() < 0.3:
                raws = [sorted(e) for e in raws]       # lets the batch be passed as frozensets (see batch_shape)
                if not mal:
                    keep = [i for i, e in enumerate(raws) if e not in raws[:i]]
                    raws, ts, ws = [raws[i] for i in keep], [ts[i] for i in keep], [ws[i] for i in keep]
                    mds = None if mds is None else [mds[i] for i in keep]
            if mal and raws:
                c = rng.random()
                if c < 0.4:
                    ts[rng.randrange(len(ts))] = self.badtime(True)
                elif c < 0.55:
                    ts = ts[:-1]
                elif c < 0.7 and ws is not None:
                    ws = ws[:-1]
                elif c < 0.85 and mds is not None:
                    mds = mds[:-1]
                elif ws is not None and len(raws) >= 1:
                    raws.append(list(raws[0])), ts.append(self.time()), ws.append(4)
                    if mds is not None:
                        mds.append([])
            return ["addedges", slot, raws, ts, ws, mds]
        if r < 0.45:
            e, t = self.present(sp)
            if mal:
                t = rng.choice([self.badtime(), (t + 1) if isinstance(t, int) else 0])
            return ["rmedge", slot, e, t, rng.randint(0, 1)]
        if r < 0.49:
            ks = list(sp.recs)
            rng.shuffle(ks)
            ks = ks[:rng.randint(0, 3)]
            raws, ts = [sorted(k[1]) for k in ks], [k[0] for k in ks]
            for e in raws:
                rng.shuffle(e)
            if mal:
                if raws and rng.random() < 0.5:
                    raws.append(list(raws[0])), ts.append(ts[0])
                else:
                    raws.append(self.edge()), ts.append(self.badtime())
            return ["rmedges", slot, raws, ts]
        if r < 0.57:
            x = self.node(sp) if not mal else rng.randrange(self.n)
            c = self.collapsing_node(sp)
            if c is not None and not mal and rng.random() < 0.6:
                return ["rmnode", slot, c, 1]
            return ["rmnode", slot, x, rng.randint(0, 1)]
        if r < 0.60:
            ns = list(sp.nodes)
            rng.shuffle(ns)
            ns = ns[:rng.randint(0, 2)]
            c = self.collapsing_node(sp)
            if c is not None and c not in ns and not mal and rng.random() < 0.5:
                ns.insert(rng.randint(0, len(ns)), c)
                return ["rmnodes", slot, ns, 1]
            if mal:
                ns.append(rng.choice(ns) if ns and rng.random() < 0.5 else rng.randrange(self.n))
            return ["rmnodes", slot, ns, rng.randint(0, 1)]
        if r < 0.65:
            return ["addnode", slot, rng.randrange(self.n), gen_md(rng, True, True)]
        if r < 0.68:
            ns = [rng.randrange(self.n) for _ in range(rng.randint(0, 3))]
            mm = None
            if rng.random() < 0.5:
                mm = [[x, gen_md(rng, False, True)] for x in sorted(set(ns))]
                if mal and mm:
                    mm = mm[:-1]
            return ["addnodes", slot, ns, mm]
        if r < 0.74:
            e, t = self.present(sp)
            w = rng.choice([4, 2, 6, 8, 1, 0]) if (sp.weighted or mal) else 4
            if mal and sp.weighted:
                t = self.badtime()
            return ["setw", slot, e, t, w]
        if r < 0.77:
            return ["setnmeta", slot, self.node(sp), gen_md(rng, False, True)]
        if r < 0.80:
            e, t = self.present(sp)
            return ["setemeta", slot, e, t, gen_md(rng, False, True)]
        if r < 0.81:
            return ["sethmeta", slot, gen_md(rng, False)]
        if r < 0.83:
            return ["attrh", slot, rng.choice([0, 1, 100]), rng.randrange(len(VALPOOL))]
        if r < 0.86:
            return ["attrn", slot, self.node(sp), rng.choice([0, 1]), rng.randrange(len(VALPOOL))]
        if r < 0.90:
            e, t = self.present(sp)
            return ["attre", slot, e, t, rng.choice([0, 1]), rng.randrange(len(VALPOOL))]
        if r < 0.92:
            x = self.node(sp)
            ks = list(sp.nodes.get(x, {}))
            return ["delattrn", slot, x, rng.choice(ks) if ks and not mal else rng.choice([0, 1])]
        if r < 0.95:
            e, t = self.present(sp)
            k = sp.key(e, t)
            ks = list(sp.recs[k][1]) if k else []
            return ["delattre", slot, e, t, rng.choice(ks) if ks and not mal else rng.choice([0, 1])]
        if r < 0.955:
            return ["clear", slot]
        # one object out of another: copy() (half of the time), the other routes; mostly into the other slot (then both
        # go on being used), sometimes in place (the derived object replaces its source as the subject of the history)
        route = rng.choice(["copy"] * 5 + ["deepcopy", "pickle", "tables", "hgx", "json"])
        if route == "json" and (sp.has_opaque() or OPQ in sp.hmeta):
            route = "tables"      # the text format wants mappings
        j = slot if rng.random() < 0.25 else 1 - slot
        if j != slot:
            self.pending = rng.sample(["attri", "attri", "attre", "attrn", "attrh"], rng.randint(1, 3))
        return ["copy", slot, j] if route == "copy" else ["derive", slot, j, route]


def make_labels(rng, n):
    """n node labels + one larger label (rank n) that is never inserted: the absent-node probes use it"""
    kind = rng.choice(["int", "shift", "str", "big", "big", "huge", "float", "rstr", "rstr", "hcoll"])
    if kind == "int":
        return kind, list(range(n + 1))
    if kind == "hcoll":       # DIFFERENT labels with EQUAL hashes: hash(-1) == hash(-2) == hash(-2**61) == -2,
        #                       hash(0) == hash(2**61 - 1) == hash(2**62 - 2) == hash(-(2**61 - 1)) == 0, hash(1) == hash(2**61)
        pool = [-2 ** 61, -(2 ** 61 - 1), -2, -1, 0, 1, 2 ** 61 - 1, 2 ** 61, 2 ** 62 - 2]
        pick_ = set(rng.sample(pool, n + 1))
        if not {-1, -2} <= pick_ and rng.random() < 0.8:
            rest = [x for x in pick_ if x not in (-1, -2)]
            rng.shuffle(rest)
            pick_ = set(rest[:n - 1]) | {-1, -2}
        return kind, sorted(pick_)
    if kind == "shift":
        base = rng.randint(5, 90)
        return kind, sorted(rng.sample(range(base, base + 3 * n), n + 1))
    if kind == "big":         # ints outside CPython's small-int cache, with runs of consecutive values
        base = rng.choice([250, 257, 1000, 10 ** 6, 2 ** 31 - 3])
        return kind, sorted(rng.sample(range(base, base + n + 3), n + 1))
    if kind == "huge":        # beyond 64 bits
        base = rng.choice([2 ** 63 - 2, 2 ** 64 - 3, 10 ** 30])
        return kind, sorted(rng.sample(range(base, base + 2 * n), n + 1))
    if kind == "float":
        return kind, sorted(x / 4 for x in rng.sample(range(-6, 30), n + 1))
    if kind == "rstr":        # strings that exist only at run time (never interned)
        pre = rng.choice(["n", "node-", "v_", " "])
        return kind, sorted("%s%d" % (pre, x) for x in rng.sample(range(0, 40), n + 1))
    pool = ["", "A", "B", "Ba", "E1", "N0", "a", "ab", "b", "c", "zz"]
    return kind, sorted(rng.sample(pool, n + 1))


# ------------------------------------------------------------------------------------------------------------
# one history

ID_QUERIES = ("allemeta", "iter", "edgetable", "adjtable", "tables")
STATE = {"id_only": 0, "stats": {}}


class Runner:
    def __init__(self, ctx, drv, lab, kind, tscale=1):
        self.ctx, self.drv, self.lab, self.kind, self.S = ctx, drv, lab, kind, tscale
        self.n = len(lab) - 1
        self.impl = Impl(lab, STATE["stats"])
        self.impl.tmax = 40 * tscale
        self.kc = 0
        self.ids_off = False     # the model's edge ids went out of step (ids are not part of the property)
        self.last = {}           # slot -> digest taken after the last call on it
        self.specs = {}
        self.ops = []
        self.failed = False
        self.lines, self.expect = [], []   # pending model lines with the implementation's answers
        self.removed = False
        self.reinsert = False
        self.ever = {}

    def case(self, extra=None):
        c = {"labels": self.lab, "kind": self.kind, "tscale": self.S, "ops": self.ops}
        if extra:
            c.update(extra)
        return c

    def flush(self):
        if self.drv is None or not self.lines:
            self.lines, self.expect = [], []
            return
        ans = self.drv.batch(self.lines)
        for ln, a, (ex, cs) in zip(self.lines, ans, self.expect):
            if ex is None or a == ex or self.failed:
                continue
            if ln.split()[2:3] and ln.split()[0] in ("q", "x") and ln.split()[2] in ID_QUERIES:
                # the two id listings are tied to the model only (the property does not speak of ids): report the
                # difference (at most twice per run), stop comparing ids in this history and go on looking for an
                # input on which a property-level observable is wrong
                if not self.ids_off:
                    self.ids_off = True
                    self.ctx.count("id_listing_differences")
                    if STATE["id_only"] < 2:
                        STATE["id_only"] += 1
                        self.ctx.disagree(cs, "model answers %r to %r, implementation gives %r" % (a[:300], ln, ex[:300]))
                continue
            self.failed = True
            self.ctx.disagree(cs, "model answers %r to %r, implementation gives %r" % (a[:300], ln, ex[:300]))
        self.lines, self.expect = [], []

    def model(self, line, expect, extra=None):
        self.lines.append(line)
        self.expect.append((expect, self.case(extra)))

    def ask(self, slot, q, use_spec=True):
        """query the implementation, compare with spec (violation) and queue the model line"""
        got = self.impl.query(slot, q)
        alln = q[0] == "snap" and len(q) > 2 and q[2]
        if use_spec:
            want = self.specs[slot].query(q)
            # the property does not say which metadata an aggregated hyperedge carries: that detail is compared with
            # the model only (a difference there is a broken correspondence, not a violation); it does not say either
            # which nodes a snapshot taken with add_all_nodes=True has (hyperedges and weights are compared)
            if want is None:
                differs = False
            elif q[0] == "agg":
                differs = strip_edge_meta(got) != strip_edge_meta(want)
            elif alln:
                differs = strip_nodes(got) != strip_nodes(want)
            else:
                differs = got != want
            if differs and not self.failed:
                self.failed = True
                self.ctx.violation(self.case({"slot": slot, "query": list(q)}),
                                   "query %s%s on slot %d: implementation answers %s, the map of the same history gives %s"
                                   % (q_line(slot, q), " add_all_nodes=True" if alln else "", slot, got[:300], want[:300]))
        idq = q[0] in ID_QUERIES and (self.ids_off or STATE["id_only"] >= 2)
        self.model(q_line(slot, q), None if (alln or idq) else got, {"slot": slot, "query": list(q)})
        # the KIND of the answer (list of records / record -> metadata / record -> weight / numbers / counts / snapshots /
        # int / inf / rejected) as the model's `Ans.kind` has it for the same line, for every query that is listed in
        # KINDED: always for the metadata view of a window, one time in eight otherwise
        if q[0] in KINDED and not self.failed and (self.kc % 8 == 0 or (q[0] == "edges" and q[1] is not None and q[5])):
            k = self.impl.kind_of(slot, q)
            if k is not None:
                self.ctx.count("answer_kinds_compared")
                self.model("k" + q_line(slot, q)[1:], k, {"slot": slot, "query": list(q), "asked": "kind of the answer"})
        self.kc += 1
        return got

    def drop(self, slot):
        """a scratch object is let go (the model keeps its slot, nobody asks it again)"""
        self.flush()
        self.impl.slots.pop(slot, None)
        self.specs.pop(slot, None)
        self.last.pop(slot, None)

    def ext_queries(self, slot):
        qs = [("edgetable",), ("adjtable",)]
        if self.impl.np_ok:
            # (an absent STRING label is not asked for: sklearn casts the argument of transform() to the width of the
            # fitted labels first, "Ba" becomes "B")
            strs = any(type(v) is str for v in self.lab)
            qs += [("mapping",)] + [("indexof", x) for x in range(self.n + 1) if not strs or x in self.specs[slot].nodes]
            self.ctx.count("label_mapping_asked")
        return qs

    def digest(self, slot, use_spec=True):
        d = [self.ask(slot, q, use_spec) for q in digest_queries(self.n)]
        if not self.failed:
            self.ask(slot, ("tables",), use_spec)      # every raw table after every call (model only: ids)
        return d

    def fview(self, h, P):
        """every public getter of the object (None when it does not come back in time - reported)"""
        try:
            with time_limit(20):
                return full_view(h, P, STATE["stats"])
        except Timeout:
            if not self.failed:
                self.failed = True
                self.ctx.violation(self.case(), "the public getters of the object did not return within 20 s")
            return None
        except Exception as e:     # a listing of a shape the probe table cannot read (only under a changed tree)
            self.ctx.count("full_view_unreadable")
            if not self.failed:
                self.failed = True
                self.ctx.violation(self.case(), "the listings of the object cannot be read (%s: %s)" % (type(e).__name__, str(e)[:100]))
            return None

    def raw_digest(self, slot):
        return [self.impl.query(slot, q) for q in digest_queries(self.n)]

    def guarded(self, secs, f, *a):
        """one alarm for a whole step (the nested per-call guards are no-ops inside it)"""
        try:
            with time_limit(secs):
                return f(*a)
        except Timeout:
            if not self.failed:
                self.failed = True
                self.ctx.violation(self.case(), "the implementation did not return within %d s (%s)" % (secs, f.__name__))
            return None

    def do(self, op):
        return self.guarded(20, self._do, op)

    def sweep(self, slot, rng, full):
        self.guarded(180 if full else 60, self._sweep, slot, rng, full)
        self.flush()

    def asks(self, slot, qs):
        def _asks():
            for q in qs:
                self.ask(slot, q)
                if self.failed:
                    break
        self.guarded(20, _asks)

    def _do(self, op):
        """apply one op everywhere; returns the implementation's outcome"""
        name = op[0]
        self.ops.append(op)
        if name == "ctorx":
            # a constructor call that the unchanged code refuses (there is no object afterwards): the model's `construct`
            # must refuse it too; a time that is not a non-negative int is the property's own demand
            res, exc = self.impl.apply(op)
            self.ctx.count("ctor_refused_" + op[3])
            if res == "ok" and not self.failed:
                self.failed = True
                what = "constructor call %s (%s) was accepted" % (op_lines(op)[0], op[3])
                if op[3] == "bad_time":
                    self.ctx.violation(self.case(), what + ": a time that is not a non-negative integer must be rejected")
                else:
                    self.ctx.disagree(self.case(), what + ", the model's constructor refuses it")
            self.model(op_lines(op)[0], "rej")
            return res
        if name in ("new", "ctor", "hoad", "ctora"):
            slot = op[1]
            res, exc = self.impl.apply(op)
            sp = Spec(bool(op[2]) if name != "hoad" else False)
            if name == "hoad":
                # an object that comes out of the library's own generator is the starting point of the history
                links = hoad_links(op[2], op[3], op[4], op[5])
                sp.apply(["addedges", slot, [list(e) for _, e in links], [t for t, _ in links], None, None])
                self.ctx.count("hoad_records", len(sp.recs))
            if name == "ctora":
                if op[4] is not None:
                    sp.hmeta = {k: v for k, v in ctor_hmeta(op[2], op[4])}
                for x, m in (op[3] or []):
                    sp.add_node(x, m)
            if name == "ctor":
                w, nmd, raws, ts, ws, mds, embed = op[2:9]
                if len(op) > 9 and op[9] is not None:
                    sp.hmeta = {k: v for k, v in ctor_hmeta(w, op[9])}
                for x, m in (nmd or []):
                    sp.add_node(x, m)
                sp.apply(["addedges", slot, raws, ts, ws, mds])
            self.specs[slot] = sp
            if res != "ok":
                self.failed = True
                self.ctx.violation(self.case(), "constructor call %s raised %s" % (op, exc))
                return res
            for ln in op_lines(op):
                self.model(ln, "ok")
            self.last[slot] = self.digest(slot)
            return res
        if name in ("copy", "derive"):
            # one object out of another: copy() and every other route the library offers.  The result must be what the
            # route promises (spec + model digest, every query), the source must not notice, and - for the routes that
            # keep the content - EVERY public getter of the class must answer on the result as on the source
            i, j = op[1], op[2]
            route = op[3] if name == "derive" else "copy"
            self.ctx.count("op_copy" if route == "copy" else "op_derive_" + route)
            before = self.raw_digest(i)
            src = self.impl.slots[i]
            P = view_probes(src, self.impl.lb(self.n), self.S)
            fv0 = self.fview(src, P)
            lines = derive_lines(op, route, self.specs[i], self.impl, src)
            res, exc = self.impl.apply(op)
            new_spec = self.specs[i].derived(route)
            if res != "ok":
                self.failed = True
                self.ctx.violation(self.case(), "%s raised %s" % (route_text(route), exc))
                return res
            for ln in lines:
                self.model(ln, "ok")
            if j != i and self.raw_digest(i) != before:
                self.failed = True
                self.ctx.violation(self.case(), "%s changed the source object" % route_text(route))
            self.specs[j] = new_spec
            self.last[j] = self.digest(j)
            if fv0 is not None and route != "json" and not self.failed:
                fv1 = self.fview(self.impl.slots[j], P)
                d = None if fv1 is None else view_diff(fv0, fv1, is_inc_getter if route in TABLE_ROUTES else None)
                if d is None and j != i and fv1 is not None and h32(op, len(self.ops)) % 3 == 0:
                    fv2 = self.fview(src, P)
                    d = None if fv2 is None else view_diff(fv0, fv2)
                    if d is not None:
                        d = (d[0] + " [asked on the SOURCE before and after]", d[1], d[2])
                if d is not None:
                    self.failed = True
                    self.ctx.violation(self.case({"slot": j}), "%s: the getter call %s answers %s on the source and %s on the "
                                       "derived object" % (route_text(route), d[0], str(d[1])[:300], str(d[2])[:300]))
            return res
        if name == "rawx":
            # a raw assignment that is NOT an echo, on a scratch object: the three raw-table getters afterwards are compared
            # with the model's `setEdgeList` / `setAdjDict` (Model/C03Raw.lean); the object is let go (it is no map any more)
            slot = op[1]
            if slot not in self.impl.slots:      # (a shrunk history that lost the constructor call: nothing to call it on)
                return "rej"
            res, exc = self.impl.apply(op)
            self.ctx.count("op_raw_not_echo_%s_%s" % (op[2], op[3]))
            self.model(op_lines(op)[0], res, {"slot": slot})
            if res == "ok":
                for q in (("edgetable",), ("adjtable",), ("tables",)):
                    self.ask(slot, q, False)
            self.drop(slot)
            return res
        slot = op[1]
        sp = self.specs[slot]
        before = self.last.get(slot) or self.raw_digest(slot)
        other = [(s, self.last.get(s) or self.raw_digest(s)) for s in self.impl.slots if s != slot]
        # bookkeeping for the non-triviality rule
        if name == "addedge" and valid_time(op[3]):
            k = (op[3], frozenset(op[2]))
            if k in self.ever:
                self.reinsert_candidate = True
        # containers the unchanged add_edges refuses (edge / time list not a `list`, unhashable hyperedges together with
        # weights): the call must be rejected as a whole; the model has no notion of container types and is not asked
        shape_rej = name == "addedges" and batch_rejects(batch_shape(self.impl.salt, op), op[2], op[4])
        # an attribute-level edit of metadata that is not a mapping raises in the unchanged code (TypeError); the model's
        # metadata are token lists, it would accept: the model is not asked about such a rejected call
        if name in ("attrn", "delattrn"):
            shape_rej = shape_rej or OPQ in sp.nodes.get(op[2], {})
        elif name in ("attre", "delattre", "attri"):
            k0 = sp.key(op[2], op[3])
            tgt = (sp.recs[k0][1] if name != "attri" else sp.imd.get((k0, op[4]), {})) if k0 is not None else {}
            shape_rej = shape_rej or OPQ in tgt
        if shape_rej and name == "addedges":
            want = "rej"
            self.ctx.count("rejected_for_container_type")
        else:
            want = sp.apply(op)
            if shape_rej:
                self.ctx.count("rejected_edit_of_non_mapping_metadata")
        res, exc = self.impl.apply(op)
        self.ctx.count("op_" + name)
        self.ctx.count("accepted" if res == "ok" else "rejected")
        if want == "ok":
            if name in ("rmedge", "rmedges", "rmnode", "rmnodes") and (name not in ("rmedges", "rmnodes") or op[2]):
                self.removed = True
            if name in ("addedge", "addedges"):
                for e, t in ([(op[2], op[3])] if name == "addedge" else zip(op[2], op[3])):
                    k = (t, frozenset(e))
                    if k in self.ever:
                        self.reinsert = True
                    self.ever[k] = 1
        if res != want and not self.failed:
            self.failed = True
            self.ctx.violation(self.case({"slot": slot}),
                               "call %s: implementation %s%s, the map semantics %s"
                               % (op_lines(op)[0], "accepts" if res == "ok" else "rejects", " (%s)" % exc if exc else "",
                                  "accepts" if want == "ok" else "rejects"))
        if not (shape_rej and res != "ok"):
            self.model(op_lines(op)[0], res, {"slot": slot})
        changed = self.impl.check_held()
        if changed and not self.failed:
            self.failed = True
            self.ctx.violation(self.case({"slot": slot}), "call %s changed a value returned by an earlier query: %s"
                               % (op_lines(op)[0], changed[:400]))
        after = self.raw_digest(slot) if res != "ok" else None
        if res != "ok" and after != before and not self.failed:
            self.failed = True
            self.ctx.violation(self.case({"slot": slot}), "rejected call %s (%s) changed the object: digest before %s, after %s"
                               % (op_lines(op)[0], exc, before, after))
        self.last[slot] = self.digest(slot)
        for s, d in other:
            d2 = self.raw_digest(s)
            self.last[s] = d2
            if d2 != d and not self.failed:
                self.failed = True
                self.ctx.violation(self.case({"slot": s}), "call %s on slot %d changed the independent copy in slot %d"
                                   % (op_lines(op)[0], slot, s))
        return res

    def _sweep(self, slot, rng, full):
        before = self.raw_digest(slot)
        qs = sweep_queries(rng, self.n, self.specs[slot], full, self.S)
        for q in qs:
            self.ask(slot, q)
            if self.failed:
                break
        if not self.failed:
            # extension round: the label mapping (where numpy represents the labels exactly) and the raw table getters
            # (hashing view and expose_data_structures() are part of the digest)
            for q in self.ext_queries(slot):
                self.ask(slot, q)
                if self.failed:
                    break
        if not self.failed:
            # every returned list / set / dict and every derived Hypergraph has been overwritten by now (Impl.S,
            # Impl.mut_h): the same questions must still get the same answers (no view handed out, nothing cached)
            # (each one twice in a row: a one-entry cache only shows on an immediate repetition)
            for q in rng.sample(qs, min(len(qs), 60 if full else 20)) + [("agg", widths(self.S)[0]), ("snap", None, 0)]:
                self.ask(slot, q)
                self.ask(slot, q)
                if self.failed:
                    break
        if not self.failed:
            oracle_ok = oracle_derivations(self.ctx, self.case({"slot": slot}), self.impl, slot, self.n, rng, full, self.S)
            if not oracle_ok:
                self.failed = True
        changed = self.impl.check_held()
        if changed and not self.failed:
            self.failed = True
            self.ctx.violation(self.case({"slot": slot}), "a later query changed a value returned by an earlier query: %s"
                               % changed[:400])
        after = self.raw_digest(slot)
        if after != before and not self.failed:
            self.failed = True
            self.ctx.violation(self.case({"slot": slot}), "queries / window / snapshot / aggregate derivations changed the "
                               "temporal hypergraph: digest before %s, after %s" % (before, after))
        self.last[slot] = after


EMPTIERS = ("clear", "rmedge", "rmedges", "rmnode", "rmnodes", "derive", "copy")


def refused_ctor_ops(lab, n, S, weighted):
    """0-2 constructor calls per history that the unchanged constructor refuses (own PRNG, a function of the history's
    parameters): `time_list` without `edge_list`; an element of `edge_list` that is not a `(time, edge)` pair while
    `time_list` is missing; lists of different lengths; a time that is not a non-negative int (embedded and separate
    form); wrong number of weights; weights with a repeated hyperedge; too few `edge_metadata` entries"""
    import random
    r = random.Random(h32("ctorx", lab, n, S, weighted))
    ops = []
    for _ in range(r.choice([0, 0, 1, 1, 2])):
        k = r.randint(2, 3)
        es = [sorted(r.sample(range(n), r.randint(1, min(3, n)))) for _ in range(k)]
        es = [list(e) for e in {tuple(e): 1 for e in es}]
        for e in es:
            r.shuffle(e)
        ts = [S * r.randint(0, 6) for _ in es]
        ws = [r.choice([4, 2, 6]) for _ in es] if r.random() < 0.5 else None
        mds = [gen_md(r, False, True) for _ in es] if r.random() < 0.3 else None
        nmd = [[x, gen_md(r, False, True)] for x in r.sample(range(n), 1)] if r.random() < 0.3 else None
        hmd = [[100, 0]] if r.random() < 0.2 else None
        form = r.choice(["emb", "sep"])
        kind = r.choice(["timesonly", "emb_other", "sep_len", "bad_time", "bad_time", "ws_len", "ws_dup", "mds_len"])
        w = int(weighted or ws is not None)
        if kind == "timesonly":
            form, es = "timesonly", []
        elif kind == "emb_other":
            form = "emb"
            es[r.randrange(len(es))] = "!"
        elif kind == "sep_len":
            form = "sep"
            ts = ts + [S] if r.random() < 0.5 else ts[:-1]
        elif kind == "bad_time":
            ts[r.randrange(len(ts))] = r.choice(["f", "s", -1, -S])
        elif kind == "ws_len":
            ws = [4] * (len(es) + r.choice([-1, 1]))
            w = 1
        elif kind == "ws_dup":
            es = es + [list(es[0])]
            ts = ts + [ts[0] + S]
            ws = [4] * len(es)
            w = 1
            mds = None
        elif kind == "mds_len":
            mds = [[] for _ in es[:-1]]
        ops.append(["ctorx", 7, w, kind, hmd, nmd, form, es, ts, ws, mds])
    if r.random() < 0.5:
        # an ACCEPTED constructor call into a scratch slot: without edge_list (`absent` form: flag, hypergraph metadata
        # - also with the reserved key "weighted" -, node metadata; weights / edge_metadata are ignored), or with one
        hmd = [[k, r.randrange(len(VALPOOL))] for k in r.sample([0, 1, 100], r.randint(0, 2))] if r.random() < 0.7 else None
        nmd = [[x, gen_md(r, False, True)] for x in r.sample(range(n), r.randint(1, min(3, n)))] if r.random() < 0.7 else None
        if r.random() < 0.5:
            ops.append(["ctora", 7, int(r.random() < 0.5), nmd, hmd, [4, 8] if r.random() < 0.3 else None,
                        [[]] if r.random() < 0.3 else None])
        else:
            k = r.randint(0, 4)
            es = [sorted(r.sample(range(n), r.randint(1, min(3, n)))) for _ in range(k)]
            es = [list(e) for e in {tuple(e): 1 for e in es}]
            for e in es:
                r.shuffle(e)
            ts = [S * r.randint(0, 6) for _ in es]
            ws = [r.choice([4, 2, 6, 0]) for _ in es] if r.random() < 0.5 else None
            mds = [gen_md(r, False, True) for _ in es] if r.random() < 0.4 else None
            ops.append(["ctor", 7, int(weighted), nmd, es, ts, ws, mds, int(r.random() < 0.5), hmd])
    return ops


def run_history(ctx, drv, rng, full=False, nops=None):
    import random
    n = rng.randint(3, 6)
    kind, lab = make_labels(rng, n)
    S = rng.choice(TSCALES)
    hoad = rng.random() < 0.06
    if hoad:                  # the history starts from an object made by the library's activity-driven generator
        kind, lab, S = "hoad", list(range(n + 1)), 1
    R = Runner(ctx, drv, lab, kind, S)
    ctx.count("labels_" + kind)
    ctx.count("time_scale_%s" % (S if S < 10 ** 6 else "2^%d+" % (S.bit_length() - 1)))
    weighted = rng.random() < 0.5 and not hoad
    g = Gen(rng, n, weighted, S)
    if hoad:
        acts = [[o, [rng.choice([0, 0.2, 0.5, 0.5, 1.0]) for _ in range(n)]]
                for o in sorted(rng.sample(range(1, min(3, n) + 1), rng.randint(1, 2)))]
        R.do(["hoad", 0, n, acts, rng.randint(1, 6), rng.randrange(10 ** 6)])
    elif rng.random() < 0.15:
        k = rng.randint(1, 4)
        raws = [g.edge() for _ in range(k)]
        raws = [list(e) for e in {tuple(e): 1 for e in raws}]
        ts = [g.time() for _ in raws]
        ws = [rng.choice([4, 2, 6, 0]) for _ in raws] if (weighted or rng.random() < 0.2) and rng.random() < 0.7 else None
        mds = [gen_md(rng, False, True) for _ in raws] if rng.random() < 0.5 else None
        nmd = [[x, gen_md(rng, False, True)] for x in rng.sample(range(n), rng.randint(1, 2))] if rng.random() < 0.5 else None
        hmd = None
        if rng.random() < 0.5:
            hmd = [[k, rng.randrange(len(VALPOOL))] for k in rng.sample([0, 1, 100], rng.randint(0, 2))]
        R.do(["ctor", 0, int(weighted), nmd, raws, ts, ws, mds, int(rng.random() < 0.5), hmd])
    else:
        R.do(["new", 0, int(weighted)])
    nops = nops or rng.randint(6, 40)
    sweep_at = {rng.randrange(nops), nops - 1}
    probes = probe_queries(rng, n, g)
    if not R.failed and 0 in R.specs:
        ctx.count("option_bursts_at_birth")
        R.asks(0, norec_queries(rng, n, R.specs[0], S))      # the object as the constructor leaves it (mostly no records)
    if not R.failed and not hoad:
        for op in refused_ctor_ops(lab, n, S, weighted):
            R.do(op)
            if R.failed:
                break
            if op[0] != "ctorx" and 7 in R.specs:
                ctx.count("ctor_accepted_extra_" + ("absent" if op[0] == "ctora" else "edges"))
                R.asks(7, R.ext_queries(7) + [("nodes",), ("numedges", None, None, 0), ("agg", S)])
                if not R.failed:
                    rx = random.Random(h32("rawx", lab, n, S, len(R.ops)))
                    which = rx.choice(["el", "adj"])
                    R.do(["rawx", 7, which, rx.choice(["drop"] if which == "el" else ["drop", "rev"]), rx.randint(0, 4)])
                R.drop(7)
    # now and then the object passes through a file / the serialisation helpers / pickle early on, so that most of the
    # history runs on an object that a loader produced
    reload_at = rng.randrange(min(nops, 6)) if rng.random() < 0.12 else -1
    rr = random.Random(h32("rawecho", lab, n, S, weighted, nops))
    for i in range(nops):
        if R.failed:
            break
        if rr.random() < 0.035 and not hoad:
            # set_edge_list / set_adj_dict with an equal COPY of the table (own PRNG): by C03_raw_echo_history the object
            # goes on as if nothing had been called - the digest and all nine tables are compared right after, and the
            # rest of the history runs on the re-assigned tables
            es = 1 if 1 in R.impl.slots and rr.random() < 0.3 else 0
            R.do(["raw", es, rr.choice(["el", "adj"]), "echo", 0])
            if R.failed:
                break
        two = 1 in R.impl.slots
        slot = 1 if two and rng.random() < 0.35 else 0
        op = g.op(slot, R.specs[slot], two)
        if i == reload_at:
            route = rng.choice(["tables", "hgx", "json", "pickle"])
            if route == "json" and (R.specs[slot].has_opaque() or OPQ in R.specs[slot].hmeta):
                route = "hgx"
            op = ["derive", slot, slot, route]
        if op[0] == "derive" and op[3] == "json" and R.impl.used_np:
            op[3] = "hgx"         # numpy scalars are not JSON serialisable (labels / weights read out of a passed array)
        R.do(op)
        if R.failed:
            break
        R.asks(slot, probes + random_queries(rng, n, R.specs[slot], 3, S))
        if not R.failed and slot in R.specs and (rng.random() < 0.03 or (not R.specs[slot].recs and R.ops[-1][0] in EMPTIERS
                                                              and rng.random() < 0.6)):
            # an object that has just lost its last record (or never had one and was touched by a removal / clear()),
            # and now and then any object: the option product in short
            ctx.count("option_bursts_no_records" if not R.specs[slot].recs else "option_bursts_other")
            R.asks(slot, norec_queries(rng, n, R.specs[slot], S))
        if i in sweep_at:
            R.sweep(slot, rng, full)
        elif i % 8 == 7:
            R.flush()
    R.flush()
    nontrivial = R.removed and R.reinsert
    ctx.case(json.dumps(R.ops, sort_keys=True), nontrivial, sample={"labels": lab, "ops": R.ops[:12]})
    ctx.count("histories")
    ctx.count("ops_total", len(R.ops))
    return R


# known finding D50 (by design): `_canon_edge` reads a 2-element hyperedge whose two elements are tuples as a directed
# (sources, targets) pair - the inner tuples are sorted, the pair itself is not, and the "nodes" are the tuples' elements.
# With tuple node labels the object is therefore not the map (time, node set) -> ... for hyperedges of two nodes.
D50_WITNESS = {"labels": [[1, 2], [0, 5]], "time": 3,
               "calls": ["add_edge(((1, 2), (0, 5)), 3)", "add_edge(((0, 5), (1, 2)), 3)"]}


def tuple_label_witness(ctx):
    """replayed on every run: two insertions of the node set {(1,2), (0,5)} at time 3 in both orders.  The map has one
    record and the two nodes (1,2), (0,5); the unchanged code has two records and the nodes 1, 2, 0, 5.  Counted in the
    evidence; printed as KNOWN-FINDING once an entry (property C03, class containing 'tuple node labels') is listed."""
    from hypergraphx import TemporalHypergraph
    a, b = tuple(D50_WITNESS["labels"][0]), tuple(D50_WITNESS["labels"][1])
    t = D50_WITNESS["time"]
    try:
        with time_limit(10):
            h = TemporalHypergraph()
            h.add_edge((a, b), t)
            h.add_edge((b, a), t)
            n_rec, nodes = h.num_edges(), list(h.get_nodes())
            h2 = TemporalHypergraph()
            h2.add_edge(((2, 1), b), t)
            nodes2, recs2 = list(h2.get_nodes()), list(h2.get_edges())
        as_map = n_rec == 1 and sorted(nodes) == sorted([a, b])
        observed = "%d records %s, nodes %s; add_edge(((2, 1), (0, 5)), 3) alone gives record %s and nodes %s" % (
            n_rec, h.get_edges(), nodes, recs2, nodes2)
    except Timeout:
        as_map, observed = False, "timeout"
    except Exception as e:
        as_map, observed = False, "%s: %s" % (type(e).__name__, str(e)[:100])
    if not as_map:
        ctx.count("tuple_label_witness_reproduced")
        ent = [f for f in getattr(ctx, "known_findings", []) or []
               if f.get("property") == "C03" and "tuple node labels" in str(f.get("class", ""))]
        if ent:
            ctx.known(ent[0].get("id"), "call-site class 'tuple node labels: a 2-element hyperedge of two tuples is read as a "
                      "directed pair by _canon_edge': the node set {(1, 2), (0, 5)} inserted at time 3 in both orders gives "
                      + observed + " (the map has one record and the nodes (1, 2), (0, 5))")


def silence():
    import hypergraphx.core.temporal_hypergraph as m
    m.print = lambda *a, **k: None


def _attempt(ctx, drv, lab, kind, ops, use_model, tscale=1):
    """re-run `ops` from scratch with a private context; returns the first (case, what) found or None"""
    import random
    c2 = hgxv.Ctx(ctx.prop, "quick", 0)
    c2.model_available = use_model
    saved = STATE["id_only"]
    STATE["id_only"] = 0
    try:
        return _attempt2(c2, drv, lab, kind, ops, use_model, tscale)
    finally:
        STATE["id_only"] = saved


def _attempt2(c2, drv, lab, kind, ops, use_model, tscale):
    import random
    R = Runner(c2, drv if use_model else None, lab, kind, tscale)
    try:
        for op in ops:
            R.do(json.loads(json.dumps(op)))
            if R.failed:
                break
        if not R.failed:
            for slot in sorted(R.impl.slots):
                R.sweep(slot, random.Random(1), False)
                if R.failed:
                    break
        R.flush()
    except Exception:
        return None
    lst = c2.violations if not use_model else (c2.violations or c2.disagreements)
    return lst[0] if lst else None


def shrink(ctx, drv, lst, use_model, budget=12.0):
    """greedy removal of single operations from the failing prefix (bounded); replaces the reported case"""
    import time
    if not lst:
        return
    case, what = lst[-1]
    lab, kind, ops = case["labels"], case.get("kind", "?"), list(case["ops"])
    t_end = time.time() + budget
    best = None
    i = len(ops) - 2
    while i >= 1 and time.time() < t_end:
        cand = ops[:i] + ops[i + 1:]
        r = _attempt(ctx, drv, lab, kind, cand, use_model, case.get("tscale", 1))
        if r is not None:
            ops, best = list(r[0]["ops"]), r
            i = min(i, len(ops) - 1)
        i -= 1
    if best is not None:
        lst[-1] = best


def kind_of(what):
    t = what.split()
    if t[:1] == ["call"]:
        return "call " + t[1]
    if t[:1] == ["query"]:
        return "query " + t[3]
    return " ".join(t[:4])


def run(ctx):
    silence()
    drv = ctx.driver() if ctx.model_available else None
    n = ctx.scale(160, 3000)
    seen_kinds = set()
    STATE["id_only"], STATE["stats"] = 0, {}
    tuple_label_witness(ctx)
    for i in range(n):
        nv, nd = len(ctx.violations), len(ctx.disagreements)
        run_history(ctx, drv, ctx.rng, full=(ctx.tier == "thorough" and i % 10 == 0))
        if len(ctx.violations) > nv and ("exc:timeout" in ctx.violations[-1][1] or "did not return" in ctx.violations[-1][1]
                                         or "did not terminate" in ctx.violations[-1][1]):
            break                             # a call that hangs: reported as it is, no shrinking, no further search
        if len(ctx.violations) > nv:
            k = kind_of(ctx.violations[-1][1])
            if k in seen_kinds:
                ctx.violations.pop()          # same defect again: keep one (shrunk) replay per kind
                ctx.count("repeated_violations")
            else:
                seen_kinds.add(k)
                shrink(ctx, drv, ctx.violations, False)
        elif len(ctx.disagreements) > nd:
            shrink(ctx, drv, ctx.disagreements, True, budget=12.0 if len(ctx.disagreements) <= 1 else 4.0)
        # a difference in the id listings alone (at most two are recorded) does not end the search: the remaining
        # histories look for an input on which the property itself fails
        if len(ctx.violations) >= 3 or len(ctx.disagreements) >= 5 or ctx.extra.get("repeated_violations", 0) > 40 or \
                (ctx.time_left() is not None and ctx.time_left() < 12):
            break
    ctx.extra["argument_containers"] = {site: " ".join("%s:%d" % kv for kv in sorted(d.items()))
                                        for site, d in sorted(STATE["stats"].items())}


def replay(ctx, case):
    """re-run a stored history: same comparisons after every call, full sweep at the end"""
    silence()
    drv = ctx.driver() if ctx.model_available else None
    lab = case["labels"]
    STATE["id_only"], STATE["stats"] = 0, {}
    R = Runner(ctx, drv, lab, case.get("kind", "?"), case.get("tscale", 1))
    rng = ctx.rng
    for op in case["ops"]:
        op = json.loads(json.dumps(op))
        R.do(op)
        if R.failed:
            break
    if not R.failed:
        for slot in sorted(R.impl.slots):
            R.sweep(slot, rng, True)
    R.flush()
    ctx.case(json.dumps(case["ops"], sort_keys=True), True, sample=case)
