"""C19 - metadata filters and the statistically validated hypergraph.

Part A: `filter_hypergraph` on Hypergraph / TemporalHypergraph / MultiplexHypergraph / DirectedHypergraph
        vs `C19.filterHg` (lean/Hgxv/Model/C19.lean) + an oracle written from the property's words.
Part B: `get_svh` vs `C19.svh` (exact rational binomial tail) + an oracle with `fractions.Fraction`.
Part C: `get_svc` vs `C19.svc` (lean/Hgxv/Model/C19C.lean; extension round) + an independent Python reading."""
import collections
import decimal
import functools
import math
import signal
import sys
from fractions import Fraction

import hgxv

if hasattr(sys, "set_int_max_str_digits"):
    sys.set_int_max_str_digits(0)      # exact model p-values of the magnitude stream have > 4300 digits

RULE = ("A: random containers of the four types (3-7 nodes, 1-9 records of size 1-4 with sub-/super-set records injected so "
        "that shrinking collides, times from one of three families (0-2, 300-1000, around 2^63/2^64) / 3 layers / disjoint "
        "non-empty sides, weighted or not, weights k/4 or integers up to 2^70). LABELS ARE OBJECTS of one kind per case: small "
        "ints, run-time strings, ints > 256, ints around 2^53 / +-2^63 / 2^64 / 2^70 and negative, floats, ints next to floats, "
        "numpy.int64, and (Hypergraph, Directed) tuples of ints / (str, int); every label, attribute name, metadata value, "
        "weight, time, layer, mode string in every call is a newly constructed equal object (in 20% of the int-labelled "
        "cases also the equal float, 3 / 3.0), metadata dicts fresh per item or (25%) ONE dict object for all items with equal "
        "metadata. Metadata over 4 attributes, values drawn per case from a handful of the 44 pool values of every JSON type "
        "(strings, ints, floats, bools, None, lists, dicts, nested, falsy 0 / 0.0 / False / '' / [] / {}, 2^70, 2^53+1 vs "
        "2.0^53, look-alikes '1' / 'None' / '25') with their equal values of other types (1 / 1.0 / True), missing attributes; "
        "HOW the metadata arrive (round f, own PRNG per case): an item whose metadata are {} got {} explicitly, None, or NO "
        "metadata argument at all (nodes also: known only through their hyperedges); hyperedges come one by one (add_edge, "
        "keyword or positional), in one add_edges batch or through the constructor (edge_metadata list with None entries, "
        "None, or left out when no item of the batch has metadata), nodes through add_node / add_nodes / the constructor's "
        "node_metadata, before or (30%) after the hyperedges; 10% one set_edge_metadata(key, {}) afterwards; the content "
        "before and after the call is read from the FULL listings get_nodes() / get_edges() and the per-item getters, "
        "never from the metadata=True listings the filter walks through; "
        "in 30% a history with removals before the filter (records through an extra node inserted among the real ones and "
        "removed by remove_edge / remove_node with either keep_edges); node and edge criteria None / {} / 1-2 attributes with "
        "0-3 allowed values (65% values somebody has, 35% replaced by an equal value of another type, None, values nobody has) "
        "handed over as list / tuple / set / frozenset / dict keys / range (hash based ones only where every metadata value of "
        "the attribute is hashable), one dict object for both roles when equal; both modes, keep_edges False / True (5% each as "
        "numpy.bool_ / int); the caller's criteria are compared with a deep copy after the call and then emptied / overwritten "
        "in place BEFORE the content is read; in 30% a second filter_hypergraph call on the same object; distinct by (type, "
        "content, criteria, containers, mode, keep_edges); non-trivial when the criteria keep >=1 and remove >=1 item. "
        "B: Hypergraphs with positive integer "
        "weights in five styles: random (3-9 nodes, 1-12 hyperedges of size 1-5, heavy-tailed weights, a few heavy disjoint "
        "ones; 15% dense: most of the C(n_a,n) hyperedges of one or two sizes on 3-6 nodes), twins (2-5 nearly disjoint "
        "hyperedges per size with equal or neighbouring weights: tied / close p-values; 50% close: k twins of one weight, all "
        "but one or two with a weight-1 hyperedge of the same size on one node, so that several TIED p-values sit a factor "
        "~2.5 above the smallest and the smallest p_(i)/i is at the last of them), sparse (recipes: 20-1200 (thorough 3600) "
        "hyperedges of ONE size 4-14 seen once on up to 50000 nodes, disjoint or sharing 1-15% of their nodes, 0-4 of them "
        "with weight 2-4, a few small extra hyperedges, unweighted in 40%: prod K_i/N = 1e-8 .. 1e-45, every p-value tiny "
        "and none 0; six per quick run at fixed positions + 3.5% by the dice, one of them with mp=True), "
        "big_size (sizes 6-12, weights 20-400, shared core: prod K_i >= 2^63) and big_weight (sizes 2-6, weights 200-3000, "
        "one case per quick run and 3% of the thorough magnitude cases beyond 2^15 / 2^16); labels mapped order-preservingly to "
        "one kind per case (small ints, run-time strings, ints > 256, integer bands below and above 2^53 / 2^63 / 2^64 / 2^70 in "
        "one hypergraph, floats, floats next to ints beyond 2^53, tuples, numpy.int64), fresh objects in every add_edge; "
        "weights as Python ints or numpy int64 / int32 / int16 / uint8 / uint32 (half of the cases); 12% max_order / alpha as "
        "numpy scalars; in 30% each a history (hyperedges "
        "inserted and removed, weights arriving in two instalments, isolated nodes); max_order 0-6, 10, around the largest "
        "size, 12, 20; alpha from {0.01, 0.05, 0.2, 0.5, 1.0} or (40%, twins 70%) strictly between two neighbouring "
        "breakpoints C(n_a,n) p_(i)/i of the exact p-values, preferring alphas for which the positions below the step-up "
        "line are NOT a prefix; ON THE LINE: after the first call 60% of the cases (all dense / close ones) get a further "
        "call on a rebuilt object with alpha = p_(i) C(n_a,n) / i taken from the p-values the implementation has just "
        "reported, searched among the doubles just below that quotient so that the exact line i alpha/C is <= p_(i) and the "
        "double evaluations i*(alpha/C) and (i*alpha)/C both give p_(i) bit for bit (else another rank / no such call), "
        "preferring (85%) ranks where counting `p == line` as below would change the validated set; 58% exactly on the "
        "line, the others next to it (alpha (1 +- 1e-6 / 1e-9 / 1e-11), +-1, +-2 ulps); mp=True for 1 case in 90 (quick) / 250 (thorough); distinct by (edges, weights, max_order, "
        "alpha, mp); non-trivial when >=2 sizes are reported and some but not all rows are validated, or >=1 row has "
        "weight >= 2, or some table's positions below the line are not a prefix. "
        "C: get_svc on Hypergraphs with 3-10 nodes, 0-7 random hyperedges of size 1-5 (weights 1-5 or unweighted) and in 85% "
        "a heavy group (weight 2-8) on the last 2-5 nodes, in 60% of those apart from the other hyperedges, sometimes with a "
        "superset / a subset record of it (validated cores whose sub-groups must not be tested again), 0-2 isolated nodes; labels small ints / "
        "ints > 256 / run-time strings / ints beyond 2^62, newly made objects; min_order in {0,1,2,3,4,7}, max_order in "
        "{None,0,1,2,3,4,5,12}, alpha in {0.01,0.05,0.3,0.6,1.0}, positional or keyword arguments; 20 (quick) / 400 "
        "(thorough) calls from an own PRNG seeded from the run's one after parts A and B; distinct by (edges, weights, "
        "min_order, max_order, alpha); non-trivial when >= 2 orders have rows and >= 1 group is validated")
ASSUMPTIONS = ["hyperedges are duplicate-free node tuples; directed ones have disjoint non-empty sides (quantifier)",
               "class invariants of the containers (C01-C04): distinct keys, every node of a key is a node, an unweighted "
               "container has all weights 1",
               "labels are hashable, mutually comparable objects (what the containers sort hyperedges with); tuple labels only "
               "for Hypergraph / DirectedHypergraph (Temporal / Multiplex read a pair of tuples as a directed hyperedge: known "
               "findings D49 / D50 of C03 / C04)",
               "labels/layers are mapped to their rank, metadata attributes to their index and metadata values to the token of "
               "their ==-class in the value pool (criteria matching is `value in allowed`, i.e. ==: 1, 1.0, True are one "
               "value) before they reach the model; Lean has no object identity - that every equal object is treated alike is "
               "exactly what the correspondence on freshly constructed objects checks",
               "allowed values in a set / frozenset / dict are only generated where every metadata value of the attribute is "
               "hashable (an unhashable value `in` a set is a TypeError of Python, not of the filter)",
               "an item that was added without metadata, with None or with {} has the metadata {} (what every container's "
               "add_node / add_edge documents and does); where a per-item metadata getter raises on an item that the full "
               "listing shows, the metadata the case gave that item stand in for the oracle (counted, 0 on the unchanged tree)",
               "the caller's criteria objects are unchanged by the call (reported as a violation otherwise: the same criteria "
               "would select differently on their next use)",
               "get_svh: positive integer weights (quantifier; Python or numpy integers); alpha in (0, 1]",
               "get_svc (part C, not in the property's sentence; same anchored file and the same p-value / step-up code): an "
               "order whose groups are all inside validated cores contributes no row to the concatenated frame, so frames are "
               "matched by the length of their groups; the call raising ValueError (no hyperedge / empty range of orders) is "
               "the model's `none`; most calls run with statistical_filters.cpu_count patched to 2 workers (pool size has no "
               "bearing on the result; 1 call in 20 un-instrumented)"]
TRUSTED = ["scipy.stats.binom.sf is a parameter of the model; compared on every generated row with the binomial tail summed "
           "from the definition in 150-digit decimal arithmetic (self-tested against the exact rational sum on every run): "
           "relative tolerance 1e-9 (+1e-300 for underflow), else the row must lie between the tails for "
           "prod K_i/N * (1 -+ 1e-13) (counted, svh_p_conditioning_*); rows whose total weight allows it (rows*N^2 <= 3e5) "
           "are also compared with the model's exact rational tail",
           "threshold decisions are taken on the Python p-values converted exactly (float.as_integer_ratio) against the exact "
           "line i*alpha/C(n_a,n); a p-value within 1e-12 (relative) of its line - on it or next to it - is decided only when "
           "the exact comparison and the double evaluations i*(alpha/C) and (i*alpha)/C all give the same answer (C a double "
           "that scipy.special.binom reproduces exactly), with the property's STRICT inequality: p on its line is not below "
           "it; otherwise the table is skipped and counted (svh_margin_skips)"]
BUDGET_S = {"quick": 45, "thorough": 780}

ATTRS = ["type", "age", "country", "k"]
# Metadata values: every JSON type. Criteria matching is `value in allowed`, i.e. == on the elements, so the model's
# value tokens are the ==-CLASSES of this pool: a value's token is the index of the first pool entry it equals
# (1 == 1.0 == True, 0 == 0.0 == False, ["x", 1] == ["x", True], 2**70 == float(2**70) share a token; "1" != 1,
# "" != 0 != None != [] != {}, 2**53 + 1 != float(2**53) do not).
VALUES = ["person", "location", "animal", 25, 30, 2.5, "x", 0, "", ["x", 1],
          1, "1", "None", "25", [], {}, {"a": 1}, [["x", 1], None], [None], -1, 2 ** 70, 2 ** 53 + 1, float(2 ** 53),
          1e300, [0], "0", "Person", {"a": [1, 2], "b": None}]
# equal objects of another type (same token as their pool twin)
TWINS = [1.0, True, 0.0, False, 25.0, 30.0, ["x", 1.0], ["x", True], {"a": 1.0}, {"a": True}, [False], [0.0],
         float(2 ** 70), -1.0, [["x", True], None], {"b": None, "a": [1.0, 2]}]
GEN_VALUES = VALUES + TWINS
LAYERS = ["alpha", "beta", "gamma"]
TIMES = [[0, 1, 2], [300, 301, 1000], [2 ** 63 - 1, 2 ** 63, 2 ** 64 + 1]]      # per case one family of time stamps


def lab(x):
    """hashable form of a label as a case stores it (JSON: a tuple label is a list)"""
    return tuple(lab(y) for y in x) if isinstance(x, (list, tuple)) else x


def hashable(v):
    return not isinstance(v, (list, dict))


def same(a, b):
    """equal AND of the same types all the way down (1 is not 1.0 is not True)"""
    if type(a) is not type(b):
        return False
    if isinstance(a, dict):
        return len(a) == len(b) and all(k in b and same(v, b[k]) for k, v in a.items())
    if isinstance(a, (list, tuple)):
        return len(a) == len(b) and all(same(x, y) for x, y in zip(a, b))
    return a == b


def deep(v):
    """an independent copy of a JSON-like value (dicts, lists, tuples, sets of scalars)"""
    if isinstance(v, dict):
        return {k: deep(x) for k, x in v.items()}
    if isinstance(v, list):
        return [deep(x) for x in v]
    if isinstance(v, tuple):
        return tuple(deep(x) for x in v)
    if isinstance(v, set):
        return set(v)
    return v


class Fresh:
    """Labels, attribute names, metadata values, modes ... are OBJECTS: every use in a call gets a newly constructed
    equal object (ints beyond CPython's small-int cache, run-time strings, floats, tuples are then never the same
    object twice), so identity and equality do not coincide the way they do for literals. `twins`: an int label may also
    arrive as the equal float (3 / 3.0), `npints`: as a numpy integer. Deterministic per case (seed stored in the case)."""

    def __init__(self, seed, twins=False, npints=False):
        import random
        self.rnd = random.Random(seed)
        self.twins, self.npints = twins, npints

    def label(self, x):
        if isinstance(x, (list, tuple)):
            return tuple(self.label(y) for y in x)
        if isinstance(x, bool) or x is None:
            return x
        if isinstance(x, int):
            r = self.rnd.random()
            if self.twins and abs(x) < 2 ** 53 and r < 0.3:
                return float(x)
            if self.npints and abs(x) < 2 ** 62 and r < 0.7:
                import numpy as np
                return np.int64(x)
            return int(str(x))
        if isinstance(x, float):
            if self.twins and x.is_integer() and abs(x) < 2 ** 53 and self.rnd.random() < 0.3:
                return int(x)
            return float(repr(x))
        if isinstance(x, str):
            return "".join(list(x))
        return x

    def text(self, x):
        return "".join(list(x))

    def value(self, v):
        if isinstance(v, dict):
            return {self.text(k): self.value(x) for k, x in v.items()}
        if isinstance(v, list):
            return [self.value(x) for x in v]
        if isinstance(v, bool) or v is None:
            return v
        if isinstance(v, int):
            return int(str(v))
        if isinstance(v, float):
            return float(repr(v))
        if isinstance(v, str):
            return "".join(list(v))
        return v

    def md(self, md):
        return {self.text(a): self.value(v) for a, v in md.items()}


class Hang(Exception):
    pass


def _alarm(signum, frame):
    raise Hang()


def guarded(f, seconds=20):
    """run f(); returns (value, None) or (None, 'exc: ...')"""
    old = signal.signal(signal.SIGALRM, _alarm)
    signal.alarm(seconds)
    try:
        return f(), None
    except Hang:
        return None, "timeout"
    except BaseException as e:  # noqa: BLE001 - a mutated tree may raise anything
        if isinstance(e, (KeyboardInterrupt, SystemExit)):
            raise
        return None, "exc: " + repr(e)[:200]
    finally:
        signal.alarm(0)
        signal.signal(signal.SIGALRM, old)


# ---------------------------------------------------------------------------------------------
# tokens

def vtok(v, strict=True):
    """token of a metadata value = its ==-class in the pool; a value outside the pool (allowed values nobody can
    have, e.g. the inner points of a range) has no token: None"""
    if v is None:
        return 0
    for i, pv in enumerate(VALUES):
        if pv == v:
            return i + 1
    if strict:
        raise ValueError(f"value {v!r} outside the pool")
    return None


def md_tokens(md):
    if not isinstance(md, dict):
        raise ValueError(f"metadata is {md!r}, not a dict")
    out = []
    for a in sorted(md, key=lambda a: ATTRS.index(a)):
        out += [ATTRS.index(a), vtok(md[a])]
    return out


def crit_wire(crit):
    if crit is None:
        return "none"
    return hgxv.enc_lists([[ATTRS.index(a)] + [t for t in (vtok(v, False) for v in vs) if t is not None]
                           for a, vs in crit.items()])


# ---------------------------------------------------------------------------------------------
# Part A

def gen_md(rng, p_empty=0.25, pool=None):
    if rng.random() < p_empty:
        return {}
    md = {}
    for a in rng.sample(ATTRS, rng.randint(1, 3)):
        v = rng.choice(pool or (GEN_VALUES + [None])) if rng.random() < 0.9 else None
        md[a] = deep(v)
    return md


def value_subpool(rng):
    """the values one case draws its metadata from: a handful, so that items share values, with the equal values of
    other types (1 / 1.0 / True) of some of them and usually a falsy family member"""
    pool = rng.sample(GEN_VALUES, rng.randint(3, 7)) + [None]
    for v in list(pool):
        if v is not None and rng.random() < 0.4:
            pool += CLASSES[vtok(v)]
    if rng.random() < 0.5:
        pool.append(rng.choice([0, "", [], {}, False, 0.0, "None", "0"]))
    return pool


CLASSES = {}
for _v in GEN_VALUES:
    CLASSES.setdefault(vtok(_v), []).append(_v)


def gen_crit(rng, used_vals, all_vals):
    """(criteria {attr: [allowed values]} | None, {attr: container kind}). The allowed values arrive as a list, tuple,
    set, frozenset, dict (its keys) or range - the hash based ones only where the unchanged code can look every
    metadata value of that attribute up in them (an unhashable value `in` a set is a TypeError of Python itself)"""
    r = rng.random()
    if r < 0.15:
        return None, {}
    if r < 0.2:
        return {}, {}
    crit, kinds = {}, {}
    for a in rng.sample(ATTRS, rng.choice([1, 1, 1, 2])):
        used = used_vals.get(a, [])
        vals = []
        for _ in range(rng.randint(1, 3)):
            v = rng.choice(used) if used and rng.random() < 0.65 else rng.choice(GEN_VALUES + [None])
            if v is not None and rng.random() < 0.35:
                v = rng.choice(CLASSES[vtok(v)])          # an equal value, possibly of another type: 1 / 1.0 / True
            vals.append(deep(v))
        kind = "list"
        r = rng.random()
        if r < 0.05:
            vals = []
        elif r < 0.09:
            lo = rng.choice([24, 25, 0, -1, 29])
            vals, kind = list(range(lo, lo + rng.randint(1, 7))), "range"
        if kind == "list" and rng.random() < 0.5:
            if all(hashable(v) for v in vals) and all(hashable(v) for v in all_vals.get(a, [])):
                kind = rng.choice(["tuple", "set", "frozenset", "dict", "set"])
            else:
                kind = "tuple"
        crit[a], kinds[a] = vals, kind
    return crit, kinds


def realize_crit(F, crit, kinds):
    """the criteria dictionary as the caller's objects: fresh attribute names, fresh values, the container kind"""
    if crit is None:
        return None
    out = {}
    for a, vals in crit.items():
        kind = (kinds or {}).get(a, "list")
        vs = [F.value(v) for v in vals]
        if kind == "tuple":
            c = tuple(vs)
        elif kind == "set":
            c = set(vs)
        elif kind == "frozenset":
            c = frozenset(vs)
        elif kind == "dict":
            c = {v: i for i, v in enumerate(vs)}
        elif kind == "range":
            c = range(vs[0], vs[-1] + 1) if vs else range(0)
        else:
            c = vs
        out[F.text(a)] = c
    return out


LABEL_KINDS = ["small", "small", "str", "str", "big", "big", "huge", "float", "mixed_num", "tuple", "tuple_str", "npint"]


def label_universe(rng, kind):
    """candidate labels of one kind, in the JSON form a case stores (a tuple label is a list). Every kind is totally
    ordered by Python's <, which is what the containers sort hyperedges with"""
    if kind == "small":
        return list(range(0, 30))
    if kind == "str":
        return [chr(97 + i) * rng.randint(1, 2) for i in range(12)] + ["user-%d" % i for i in range(1, 12)] + ["été", "N 1"]
    if kind == "big":
        return list(range(257, 300)) + [1000 + i for i in range(20)] + [10 ** 6 + i for i in range(5)]
    if kind == "npint":         # most uses of a label arrive as numpy.int64 (equal to, hashing like, the Python int)
        return list(range(0, 20)) + list(range(250, 265)) + [2 ** 40 + i for i in range(3)]
    if kind == "huge":
        return ([-2 ** 63 - 1, -2 ** 63, -7, 0, 1, 255, 256, 257] + [2 ** 53 + i for i in range(-1, 3)]
                + [2 ** 63 + i for i in range(-2, 4)] + [2 ** 64 + i for i in range(-1, 3)] + [2 ** 70 + i for i in range(3)])
    if kind == "float":
        return [i + 0.5 for i in range(-2, 10)] + [0.0, 0.1, 1e-3, 3.0, 1e18, float(2 ** 53), float(2 ** 53) + 2, 2.5e-300]
    if kind == "mixed_num":
        return ([i + 0.5 for i in range(0, 8)] + [0, 1, 2, 3, 300, 301, 2 ** 53 + 1, 2 ** 53 + 2, 2 ** 53 + 3, float(2 ** 53),
                                                 2 ** 63, 2 ** 63 + 1, 1e19, -1, -0.5])
    if kind == "tuple":
        return [[300 + i // 3, i % 3] for i in range(15)] + [[1], [1, 2], [1, 2, 3], [2 ** 63 + 1, 0], [2 ** 63 + 1, 1]]
    if kind == "tuple_str":
        return [["user-%d" % (i // 2), 1000 + i % 2] for i in range(12)] + [["a", 1], ["a", 2], ["b", 300]]
    raise ValueError(kind)


def gen_filter_case(rng):
    ty = rng.choice("HHTMD")
    n = rng.randint(3, 7)
    kind = rng.choice(LABEL_KINDS)
    if kind.startswith("tuple") and ty in "TM":
        kind = rng.choice(["str", "big", "huge"])      # tuple labels of Temporal/Multiplex: known findings D49 / D50
    pick = rng.sample(label_universe(rng, kind), n + 1)
    ghost_label = pick.pop()
    labels = sorted(pick)
    weighted = rng.random() < 0.5
    bigw = rng.random() < 0.25
    times = rng.choice(TIMES)
    vpool = value_subpool(rng)
    node_md = [[x, gen_md(rng, 0.15, vpool)] for x in labels if rng.random() < 0.8]
    rng.shuffle(node_md)
    recs = []

    def weight():
        if not weighted:
            return None
        if bigw:        # integers only (exact sums in any order), up to beyond 2**64
            return rng.choice([1, 2, 3, 7, 2 ** 53 + 1, 2 ** 62, 2 ** 63, 2 ** 63 + 5, 2 ** 70])
        return rng.choice([1, 2, 3, 0.25, 0.5, 1.75, 4])

    def extra():
        if ty == "T":
            return rng.choice(times)
        if ty == "M":
            return rng.choice(LAYERS[:2] if rng.random() < 0.8 else LAYERS)
        return None

    for _ in range(rng.randint(1, 6)):
        if ty == "D":
            size = rng.choice([2, 2, 3, 3, 4])
            size = min(size, n)
            nodes = rng.sample(labels, size)
            k = rng.randint(1, size - 1)
            key = [nodes[:k], nodes[k:]]
            recs.append([key, None, weight(), gen_md(rng, 0.25, vpool)])
            r = rng.random()
            if r < 0.5 and size >= 3:
                # the same hyperedge without one node of a side that has two: a shrink target
                side = 0 if len(key[0]) >= 2 else 1
                if len(key[side]) >= 2:
                    drop = rng.choice(key[side])
                    k2 = [[x for x in key[0] if x != drop], [x for x in key[1] if x != drop]]
                    recs.append([k2, None, weight(), gen_md(rng, 0.25, vpool)])
                    if rng.random() < 0.5:
                        # the dropped node on the other side: two incident hyperedges with the same shrunk key
                        k3 = [list(k2[0]), list(k2[1])]
                        k3[1 - side].append(drop)
                        recs.append([k3, None, weight(), gen_md(rng, 0.25, vpool)])
        else:
            size = min(n, rng.choice([1, 2, 2, 3, 3, 4]))
            nodes = rng.sample(labels, size)
            ex = extra()
            recs.append([nodes, ex, weight(), gen_md(rng, 0.25, vpool)])
            r = rng.random()
            if r < 0.45 and size >= 2:
                drop = rng.choice(nodes)
                sub = [x for x in nodes if x != drop]
                recs.append([sub, ex if rng.random() < 0.8 else extra(), weight(), gen_md(rng, 0.25, vpool)])
            elif r < 0.6 and size < n:
                sup = nodes + [rng.choice([x for x in labels if x not in nodes])]
                recs.append([sup, ex, weight(), gen_md(rng, 0.25, vpool)])
    rng.shuffle(recs)
    case = {"part": "filter", "type": ty, "weighted": weighted, "label_kind": kind, "labels": labels, "node_md": node_md,
            "records": recs, "mode": rng.choice(["keep", "remove"]), "keep_edges": rng.random() < 0.5,
            "fresh": rng.randrange(1 << 30), "twins": kind in ("small", "big") and rng.random() < 0.2,
            "share_md": rng.random() < 0.25}
    if rng.random() < 0.3:
        # history with removals before the filter: records through a node outside `labels` are inserted among the
        # real ones and taken out again (hyperedge by hyperedge, or with their node), so that ids have gaps
        ghosts = []
        for _ in range(rng.randint(1, 3)):
            others = rng.sample(labels, rng.randint(1, min(3, n)))
            key = [[ghost_label], others] if ty == "D" else [ghost_label] + others
            ghosts.append([rng.randint(0, len(recs)), key, extra(), weight(), gen_md(rng, 0.25, vpool)])
        case["ghosts"] = {"label": ghost_label, "records": ghosts, "how": rng.choice(["edges", "node", "node_keep"])}
    used_n, used_e = {}, {}
    for _, md in node_md:
        for a, v in md.items():
            used_n.setdefault(a, []).append(v)
    for r in recs + [g[1:] for g in (case.get("ghosts") or {"records": []})["records"]]:
        for a, v in r[3].items():
            used_e.setdefault(a, []).append(v)

    def crits(c):
        c["keep_kind"] = rng.choice(["bool"] * 16 + ["numpy.bool_", "int"])
        c["node_criteria"], c["node_kinds"] = gen_crit(rng, used_n, used_n)
        c["edge_criteria"], c["edge_kinds"] = gen_crit(rng, used_e, used_e)
        if rng.random() < 0.1:
            c["edge_criteria"], c["edge_kinds"] = None, {}
        return c

    crits(case)
    case["present"] = gen_present(case)
    if rng.random() < 0.3:
        # a second call on the same (already filtered) object
        case["then"] = [crits({"mode": rng.choice(["keep", "remove"]), "keep_edges": rng.random() < 0.5})]
    return case


HOWS = ("given", "omit", "none")


def gen_present(case):
    """HOW the items' metadata reach the container and through WHICH entry point. An item whose metadata are {} may
    have got {} explicitly ("given"), None ("none") or never any metadata at all ("omit": the argument is left out);
    hyperedges arrive one by one (add_edge), in one add_edges batch or through the constructor, nodes through add_node,
    add_nodes or the constructor's node_metadata, before or after the hyperedges. Drawn from an own PRNG seeded by
    the case, so that the stream of cases is the one of the earlier rounds."""
    import random
    r = random.Random(case["fresh"] * 7 + 3)

    def how(md):
        if md:
            return "given"
        return r.choice(["given", "given", "omit", "omit", "omit", "none", "none"])

    gh = (case.get("ghosts") or {"records": []})["records"]
    return {"via": r.choice(["add_edge", "add_edge", "add_edges", "add_edges", "ctor", "ctor"]),
            "rec_how": [how(rec[3]) for rec in case["records"]],
            "ghost_how": [how(g[4]) for g in gh],
            "node_how": [how(md) for _, md in case["node_md"]],
            "nodes_via": r.choice(["add_node", "add_node", "add_nodes", "ctor"]),
            "nodes_late": r.random() < 0.3,
            "all_bare": r.choice(["list", "none", "omit"]),
            "positional": r.random() < 0.3,
            "set_empty": r.random() < 0.1}


def canon_key(ty, key):
    """a hyperedge key as the container lists it, up to the order of the nodes"""
    if ty == "H":
        return frozenset(lab(x) for x in key)
    if ty == "T":
        return (key[0], frozenset(lab(x) for x in key[1]))
    if ty == "M":
        return (frozenset(lab(x) for x in key[0]), key[1])
    return (frozenset(lab(x) for x in key[0]), frozenset(lab(x) for x in key[1]))


def case_key(ty, nodes, ex):
    if ty == "D":
        return canon_key(ty, nodes)
    return canon_key(ty, {"H": nodes, "T": (ex, nodes), "M": (nodes, ex)}[ty])


def given_metadata(case):
    """what the CASE says the metadata of its items are ({} for an item that never got any): only consulted where the
    container's own per-item getter raises on an item its full listing shows"""
    ty = case["type"]
    nodes = {lab(x): deep(md) for x, md in case["node_md"]}
    edges = {}
    for rec in case["records"]:
        edges[case_key(ty, rec[0], rec[1])] = deep(rec[3])
    return nodes, edges


def build(case, F):
    from hypergraphx import Hypergraph, DirectedHypergraph, TemporalHypergraph, MultiplexHypergraph
    ty, weighted = case["type"], case["weighted"]
    cls = {"H": Hypergraph, "T": TemporalHypergraph, "M": MultiplexHypergraph, "D": DirectedHypergraph}[ty]
    h = cls(weighted=weighted)
    shared = {}

    def mdobj(md):
        # fresh equal objects for every item, or (share_md) ONE dict object for all items with equal metadata
        if case.get("share_md"):
            k = repr(sorted(md.items(), key=repr))
            if k not in shared:
                shared[k] = F.md(md)
            return shared[k]
        return F.md(md)

    P = case.get("present") or {}
    via, nodes_via = P.get("via", "add_edge"), P.get("nodes_via", "add_node")
    gh = case.get("ghosts") or {"records": []}
    rec_how = P.get("rec_how") or ["given"] * len(case["records"])
    ghost_how = P.get("ghost_how") or ["given"] * len(gh["records"])
    node_how = P.get("node_how") or ["given"] * len(case["node_md"])
    positional = bool(P.get("positional"))

    def add_nodes_now(ctor_took):
        todo = [(x, md, hw) for (x, md), hw in zip(case["node_md"], node_how) if lab(x) not in ctor_took]
        if nodes_via == "add_nodes":
            with_md = [(x, md) for x, md, hw in todo if hw == "given"] if ty != "D" else []
            if with_md:
                h.add_nodes([F.label(x) for x, _ in with_md], {F.label(x): mdobj(md) for x, md in with_md})
            todo = [t for t in todo if t[2] != "given" or ty == "D"]
            bare = [x for x, md, hw in todo if hw != "given"]
            if bare:
                h.add_nodes([F.label(x) for x in bare])
            todo = [t for t in todo if t[2] == "given"]
        for x, md, hw in todo:
            if hw == "omit":
                h.add_node(F.label(x))
            elif positional:
                h.add_node(F.label(x), mdobj(md) if hw == "given" else None)
            else:
                h.add_node(F.label(x), metadata=mdobj(md) if hw == "given" else None)

    def key_obj(nodes):
        return (F.label(nodes[0]), F.label(nodes[1])) if ty == "D" else F.label(nodes)

    def add(nodes, ex, w, md, hw="given"):
        if isinstance(w, int) and not isinstance(w, bool):
            w = int(str(w))
        args = [key_obj(nodes)] + ([] if ty in "HD" else [F.value(ex)])
        kw = {} if hw == "omit" else {"metadata": mdobj(md) if hw == "given" else None}
        if positional and ty in "HD" and hw != "omit":
            h.add_edge(*args, w, kw["metadata"])
        else:
            h.add_edge(*args, weight=w, **kw)

    ops = []
    for i, (nodes, ex, w, md) in enumerate(case["records"]):
        for j, (pos, *g) in enumerate(gh["records"]):
            if pos == i:
                ops.append(tuple(g) + (ghost_how[j],))
        ops.append((nodes, ex, w, md, rec_how[i]))
    for j, (pos, *g) in enumerate(gh["records"]):
        if pos >= len(case["records"]):
            ops.append(tuple(g) + (ghost_how[j],))
    batch, singles, seen = [], [], set()
    if via != "add_edge":
        # one batch: records with pairwise different node sets (a weighted batch must not repeat a hyperedge); the
        # others follow one by one
        for op in ops:
            k = canon_key("D", op[0]) if ty == "D" else frozenset(lab(x) for x in op[0])
            if k in seen:
                singles.append(op)
            else:
                seen.add(k)
                batch.append(op)
    else:
        singles = ops
    ctor_took = set()
    bkw = {}
    if batch:
        ws = []
        for op in batch:
            w = op[2]
            ws.append(int(str(w)) if isinstance(w, int) and not isinstance(w, bool) else w)
        bkw["weights"] = ws if weighted else None
        mds = [mdobj(op[3]) if op[4] == "given" else None for op in batch]
        if any(op[4] == "given" for op in batch) or P.get("all_bare", "list") == "list":
            bkw["edge_metadata" if via == "ctor" else "metadata"] = mds
        elif P.get("all_bare") == "none":
            bkw["edge_metadata" if via == "ctor" else "metadata"] = None
        edge_list = [key_obj(op[0]) for op in batch]
        extras = [F.value(op[1]) for op in batch]
    if via == "ctor":
        if nodes_via == "ctor" and not P.get("nodes_late"):
            nm = {}
            for (x, md), hw in zip(case["node_md"], node_how):
                if hw != "omit":
                    nm[F.label(x)] = mdobj(md) if hw == "given" else None
                    ctor_took.add(lab(x))
            bkw["node_metadata"] = nm
        if batch:
            bkw["edge_list"] = edge_list
            if ty == "T":
                bkw["time_list"] = extras
            elif ty == "M":
                bkw["edge_layer"] = extras
        elif "weights" in bkw:
            del bkw["weights"]
        h = cls(weighted=weighted, **bkw)
        if not P.get("nodes_late"):
            add_nodes_now(ctor_took)
    else:
        if not P.get("nodes_late"):
            add_nodes_now(ctor_took)
        if batch:
            if ty in "HD":
                h.add_edges(edge_list, **bkw)
            else:
                h.add_edges(edge_list, extras, **bkw)
    for op in singles:
        add(*op)
    if P.get("nodes_late"):
        add_nodes_now(ctor_took)
    if P.get("set_empty") and ty != "M":          # (Multiplex has no set_edge_metadata)
        # {} handed over once more, explicitly, for the items that have none
        for (nodes, ex, w, md), hw in zip(case["records"], rec_how):
            if not md and hw != "given":
                k = key_obj(nodes)
                if ty in "HD":
                    h.set_edge_metadata(k, {})
                else:
                    h.set_edge_metadata(k, F.value(ex), {})
                break
    for x in case["labels"]:
        if rng_free_isolated(case, x):
            h.add_node(F.label(x))
    if gh["records"]:
        g = lab(gh["label"])
        if gh["how"] == "edges":
            for key in [k for k in h.get_edges() if g in key_nodes(ty, k)]:
                h.remove_edge(key)
            h.remove_node(F.label(g))
        else:
            # "node_keep": the shrunk records stay behind as ordinary records of the content before the filter
            h.remove_node(F.label(g), keep_edges=(gh["how"] == "node_keep"))
        if g in h.get_nodes() or any(g in key_nodes(ty, k) for k in h.get_edges()):
            raise ValueError("the history did not remove its extra node")
    return h


def rng_free_isolated(case, x):
    """labels that appear in no record and got no metadata are added as bare isolated nodes when their
    position in the label list is even (deterministic, so that replays rebuild the same object)"""
    if any(x == y for y, _ in case["node_md"]):
        return False
    for nodes, *_ in case["records"]:
        flat = nodes[0] + nodes[1] if case["type"] == "D" else nodes
        if x in flat:
            return False
    return case["labels"].index(x) % 2 == 0


def key_nodes(ty, key):
    if ty == "H":
        return tuple(key)
    if ty == "T":
        return tuple(key[1])
    if ty == "M":
        return tuple(key[0])
    return tuple(key[0]) + tuple(key[1])


def content_of(h, ty, given=None, ctx=None):
    """(nodes {label: md}, edges {key: (weight, md)}) through the public API: the FULL listings get_nodes() /
    get_edges() and the per-item getters (not the metadata=True listings the filter itself walks through). Where a
    getter raises on a listed item, the metadata the case gave that item ({} if it never gave any) stand in (counted)."""
    gn, ge = given or ({}, {})
    nodes = {}
    listing = None if hasattr(h, "get_node_metadata") else h.get_nodes(metadata=True)     # (Multiplex has no getter)
    for x in list(h.get_nodes()):
        try:
            md = h.get_node_metadata(x) if listing is None else listing[x]
        except Exception:  # noqa: BLE001
            if given is None or ty is None:
                raise
            md = deep(gn.get(lab(x), {}))
            if ctx:
                ctx.count("filter_getter_raised_on_listed_item")
        if x in nodes:
            raise ValueError(f"get_nodes lists {x!r} twice")
        nodes[x] = md
    edges = {}
    for key in list(h.get_edges()):
        try:
            if ty == "H" or ty == "D":
                md = h.get_edge_metadata(key)
            elif ty == "T":
                md = h.get_edge_metadata(key[1], key[0])
            else:
                md = h.get_edge_metadata(key[0], key[1])
        except Exception:  # noqa: BLE001
            if given is None or canon_key(ty, key) not in ge:
                raise
            md = deep(ge[canon_key(ty, key)])
            if ctx:
                ctx.count("filter_getter_raised_on_listed_item")
        if ty == "H" or ty == "D":
            w = h.get_weight(key)
        elif ty == "T":
            w = h.get_weight(key[1], key[0])
        else:
            w = h.get_weight(key[0], key[1])
        if key in edges:
            raise ValueError(f"get_edges lists {key!r} twice")
        edges[key] = (w, md)
    return nodes, edges


def incidence_of(h, ty, nodes, rank):
    """adjacency side of the digest: for each node the multiset of incident keys (in the model's vocabulary)"""
    out = {}
    for x in nodes:
        if ty == "D":
            out[x] = (sorted(wire_key(ty, k, rank) for k in h.get_source_edges(x)),
                      sorted(wire_key(ty, k, rank) for k in h.get_target_edges(x)))
        else:
            out[x] = sorted(wire_key(ty, k, rank) for k in h.get_incident_edges(x))
    return out


def wire_key(ty, key, rank):
    if ty == "H":
        return ([rank[x] for x in key], [])
    if ty == "T":
        return ([rank[x] for x in key[1]], [key[0]])
    if ty == "M":
        return ([rank[x] for x in key[0]], [LAYERS.index(key[1])])
    return ([rank[x] for x in key[0]], [rank[x] for x in key[1]])


def tokens_of(ty, nodes, edges, rank):
    """content in the model's vocabulary: ({node: md tokens}, {(p1, p2): (Fraction weight, md tokens)})"""
    tn = {rank[x]: tuple(md_tokens(md)) for x, md in nodes.items()}
    te = {}
    for key, (w, md) in edges.items():
        p1, p2 = wire_key(ty, key, rank)
        te[(tuple(p1), tuple(p2))] = (Fraction(w), tuple(md_tokens(md)))
    return tn, te


def matches(md, crit):
    """the property's words: for every criterion the item's value (None when it lacks the attribute) is one of the
    allowed values - equality of values, whatever container the caller put them in"""
    for attr in crit:
        x = md[attr] if attr in md else None
        if not any(x == a for a in crit[attr]):
            return False
    return True


def is_selected(md, crit, mode):
    if crit is None:
        return False
    m = matches(md, crit)
    return (not m) if mode == "keep" else m


def shrunk_key(ty, key, R):
    """key without the removed nodes; None = the record disappears (per container type)"""
    if ty == "H":
        return tuple(x for x in key if x not in R)
    if ty == "T":
        e = tuple(x for x in key[1] if x not in R)
        return (key[0], e) if e else None
    if ty == "M":
        e = tuple(x for x in key[0] if x not in R)
        return (e, key[1]) if e else None
    s = tuple(x for x in key[0] if x not in R)
    t = tuple(x for x in key[1] if x not in R)
    return (s, t) if s and t else None


def oracle_filter(case, ty, weighted, nodes0, edges0, nodes1, edges1):
    """list of failures of the property's statement on (before, after)"""
    bad = []
    ncrit, ecrit, mode, keep = case["node_criteria"], case["edge_criteria"], case["mode"], case["keep_edges"]
    R = {x for x, md in nodes0.items() if is_selected(md, ncrit, mode)}
    want_nodes = {x: md for x, md in nodes0.items() if x not in R}
    if set(nodes1) != set(want_nodes):
        bad.append(f"nodes after = {sorted(nodes1, key=repr)}, criteria say {sorted(want_nodes, key=repr)}")
    own0 = {x: x for x in nodes0}
    for x in nodes1:
        if x in want_nodes and not same(nodes1[x], want_nodes[x]):
            bad.append(f"metadata of surviving node {x!r} changed: {want_nodes[x]!r} -> {nodes1[x]!r}")
        if x in own0 and not same(x, own0[x]):
            bad.append(f"surviving node {own0[x]!r} is now listed as {x!r}")
    if not keep:
        want = {k: v for k, v in edges0.items()
                if not (set(key_nodes(ty, k)) & R) and not is_selected(v[1], ecrit, mode)}
        if set(edges1) != set(want):
            bad.append(f"hyperedges after = {sorted(edges1, key=repr)}, criteria say {sorted(want, key=repr)}")
        own0 = {k: k for k in edges0}
        for k in edges1:
            if k in want and not (same(edges1[k][0], want[k][0]) and same(edges1[k][1], want[k][1])):
                bad.append(f"surviving hyperedge {k!r} changed: {want[k]!r} -> {edges1[k]!r}")
            if k in own0 and not same(k, own0[k]):
                bad.append(f"surviving hyperedge {own0[k]!r} is now listed as {k!r}")
    else:
        groups = {}
        for k, v in edges0.items():
            k2 = shrunk_key(ty, k, R)
            if k2 is not None:
                groups.setdefault(k2, []).append(v)
        for k in edges1:
            if k not in groups:
                bad.append(f"hyperedge {k!r} after the filter is not a shrunk input hyperedge")
        for k2, members in groups.items():
            cands = [m[1] for m in members]
            if k2 in edges1:
                w, md = edges1[k2]
                wsum = sum(m[0] for m in members) if weighted else 1
                if w != wsum:
                    bad.append(f"weight of {k2!r} is {w!r}, the shrunk hyperedges weigh {wsum!r}")
                if len(members) == 1 and k2 in edges0 and not same(w, members[0][0]):
                    bad.append(f"weight of the untouched hyperedge {k2!r} changed: {members[0][0]!r} -> {w!r}")
                if not any(same(md, c) for c in cands):
                    bad.append(f"metadata of {k2!r} is {md!r}, not the metadata of a hyperedge shrunk to it")
                elif is_selected(md, ecrit, mode):
                    bad.append(f"hyperedge {k2!r} with metadata {md!r} should have been removed by the hyperedge criteria")
            else:
                if not any(is_selected(c, ecrit, mode) for c in cands):
                    bad.append(f"shrunk hyperedge {k2!r} is missing although the hyperedge criteria keep it")
    return bad


def snapshot(content):
    nodes, edges = content
    return ({x: deep(md) for x, md in nodes.items()}, {k: (w, deep(md)) for k, (w, md) in edges.items()})


STEP_KEYS = ("node_criteria", "edge_criteria", "node_kinds", "edge_kinds", "mode", "keep_edges", "keep_kind")


def check_filter(ctx, drv, case):
    ty = case["type"]
    ctx.count("filter_type_" + ty)
    ctx.count("filter_labels_" + case.get("label_kind", "literal"))
    F = Fresh(case.get("fresh", 0), twins=bool(case.get("twins")), npints=case.get("label_kind") == "npint")
    h, err = guarded(lambda: build(case, F))
    if err:
        # construction through add_node/add_edge/remove_* is C01-C04's business; not a C19 observation
        ctx.count("filter_build_failed")
        return
    given = given_metadata(case)
    pre, err = guarded(lambda: content_of(h, ty, given, ctx))
    if err:
        ctx.count("filter_build_failed")
        return
    P = case.get("present") or {}
    ctx.count("filter_edges_via_" + P.get("via", "add_edge"))
    ctx.count("filter_nodes_via_" + P.get("nodes_via", "add_node"))
    for name in ("rec_how", "ghost_how", "node_how"):
        for hw in P.get(name) or []:
            if hw != "given":
                ctx.count(f"filter_{name[:-4]}_metadata_{hw}")
    nodes0, edges0 = snapshot(pre)
    weighted = bool(h.is_weighted())
    rank = {x: i for i, x in enumerate(sorted(lab(x) for x in case["labels"]))}
    steps = [{k: case.get(k) for k in STEP_KEYS}] + list(case.get("then") or [])
    if case.get("ghosts"):
        ctx.count("filter_history_with_removals")
    for idx, step in enumerate(steps):
        if idx:
            ctx.count("filter_second_call_on_same_object")
        res = filter_step(ctx, drv, case, h, ty, weighted, rank, step, steps[idx + 1:], nodes0, edges0, idx, F, given)
        if res is None:
            return
        nodes0, edges0 = res


def spoil(crit):
    """the caller goes on using its criteria objects after the call: empty / overwrite them in place"""
    if crit is None:
        return
    for c in crit.values():
        if isinstance(c, list):
            c.clear()
            c.append(None)
        elif isinstance(c, (set, dict)):
            c.clear()
    crit.clear()
    crit["type"] = ["nobody"]


def filter_step(ctx, drv, case, h, ty, weighted, rank, step, later, nodes0, edges0, idx, F, given=None):
    """one `filter_hypergraph` call on `h` whose content before the call is (nodes0, edges0);
    returns the content after it (None when something was reported)"""
    from hypergraphx.filters import filter_hypergraph
    tag = "" if idx == 0 else f"[call {idx + 1} on the same object] "
    hmeta0, err = guarded(lambda: dict(h.get_hypergraph_metadata()))
    ncrit, ecrit, mode, keep = step["node_criteria"], step["edge_criteria"], step["mode"], step["keep_edges"]
    ocase = {**step, "then": later}      # what the oracle reads
    n_sel = sum(is_selected(md, ncrit, mode) for md in nodes0.values() if isinstance(md, dict))
    e_sel = sum(is_selected(v[1], ecrit, mode) for v in edges0.values() if isinstance(v[1], dict))
    nontrivial = (0 < n_sel < len(nodes0)) or (0 < e_sel < len(edges0))
    key = repr((ty, weighted, sorted(nodes0.items(), key=repr), sorted(edges0.items(), key=repr), ncrit, ecrit,
                step.get("node_kinds"), step.get("edge_kinds"), mode, keep))
    ctx.case(key, nontrivial, sample=case if idx == 0 else None)
    ctx.count("filter_mode_%s_keep%d" % (mode, keep))
    if ncrit is None or ecrit is None:
        ctx.count("filter_criteria_none")
    for kinds in (step.get("node_kinds"), step.get("edge_kinds")):
        for k in (kinds or {}).values():
            ctx.count("filter_allowed_values_as_" + k)

    # the caller's objects: criteria with fresh attribute names / values in the chosen containers, a run-time mode string
    ncrit_obj = realize_crit(F, ncrit, step.get("node_kinds"))
    ecrit_obj = realize_crit(F, ecrit, step.get("edge_kinds"))
    if ncrit is not None and ecrit is not None and ncrit == ecrit and step.get("node_kinds") == step.get("edge_kinds") \
            and F.rnd.random() < 0.5:
        ecrit_obj = ncrit_obj                      # ONE dictionary object for both roles
    before = (deep(ncrit_obj), deep(ecrit_obj))
    mode_obj = F.text(mode)
    keep_obj = keep
    if step.get("keep_kind") == "numpy.bool_":
        import numpy as np
        keep_obj = np.bool_(keep)
    elif step.get("keep_kind") == "int":
        keep_obj = int(keep)
    ret, err = guarded(lambda: filter_hypergraph(h, node_criteria=ncrit_obj, edge_criteria=ecrit_obj, mode=mode_obj,
                                                 keep_edges=keep_obj))
    if err:
        ctx.violation(case, f"{tag}filter_hypergraph on {type(h).__name__} (mode={mode}, keep_edges={keep}) does not return: {err}")
        return None
    changed = [n for n, a, b in (("node_criteria", ncrit_obj, before[0]), ("edge_criteria", ecrit_obj, before[1]))
               if not same(a, b)]
    if changed:
        ctx.violation(case, f"{tag}filter_hypergraph changed the caller's {' and '.join(changed)}: {before!r} -> "
                            f"{(ncrit_obj, ecrit_obj)!r}; the same criteria no longer say the same on their next use")
        return None
    if ret is not None and ret is not h:
        # documented: works in place and returns None; whatever else it hands back must not be a different answer
        other, err = guarded(lambda: content_of(ret, ty))
        mine, _ = guarded(lambda: content_of(h, ty))
        if err or mine is None or other[0] != mine[0] or other[1] != mine[1]:
            ctx.violation(case, f"{tag}filter_hypergraph returned {type(ret).__name__} whose content is not the content of "
                                f"the (in place) filtered argument")
            return None
    spoil(ncrit_obj)
    spoil(ecrit_obj)
    post, err = guarded(lambda: content_of(h, ty, given, ctx))
    if err:
        ctx.violation(case, f"{tag}the container cannot be listed after filter_hypergraph: {err}")
        return None
    nodes1, edges1 = post
    try:
        t0 = tokens_of(ty, nodes0, edges0, rank)
    except ValueError:
        ctx.count("filter_build_failed")
        return None
    try:
        t1 = tokens_of(ty, nodes1, edges1, rank)
    except (ValueError, KeyError, TypeError) as e:
        ctx.violation(case, f"{tag}content after the filter is malformed: {e!r}")
        return None
    bad = oracle_filter(ocase, ty, weighted, nodes0, edges0, nodes1, edges1)
    # nothing else changes: weighted flag, hypergraph metadata, adjacency consistent with the records
    inc, err = guarded(lambda: incidence_of(h, ty, nodes1, rank))
    if err:
        bad.append(f"incidence queries fail after the filter: {err}")
    else:
        for x in nodes1:
            if ty == "D":
                want = (sorted(wire_key(ty, k, rank) for k in edges1 if x in k[0]),
                        sorted(wire_key(ty, k, rank) for k in edges1 if x in k[1]))
            else:
                want = sorted(wire_key(ty, k, rank) for k in edges1 if x in key_nodes(ty, k))
            if inc[x] != want:
                bad.append(f"incident hyperedges of {x!r} are {inc[x]}, the records say {want} (labels as ranks)")
    if bool(h.is_weighted()) != weighted:
        bad.append("is_weighted() changed")
    hmeta1, err = guarded(lambda: dict(h.get_hypergraph_metadata()))
    if hmeta0 is not None and hmeta1 != hmeta0:
        bad.append(f"hypergraph metadata changed: {hmeta0!r} -> {hmeta1!r}")
    for b in bad[:3]:
        ctx.violation(case, tag + b)
    if keep:
        R = set(nodes0) - set(nodes1)
        imgs = [shrunk_key(ty, k, R) for k in edges0]
        if any(i is None for i in imgs):
            ctx.count("filter_dropped_records")
        if len(set(i for i in imgs if i is not None)) < len([i for i in imgs if i is not None]):
            ctx.count("filter_shrink_merges")
    after = None if bad else snapshot((nodes1, edges1))
    if drv is None:
        return after
    tn0, te0 = t0
    order = list(te0)
    line = " ".join([
        "filter", ty, "1" if weighted else "0",
        hgxv.enc_lists([[n] + list(md) for n, md in tn0.items()]),
        ("|".join(";".join(hgxv.enc_list(part, "_") for part in (k[0], k[1], te0[k][1])) for k in order) if order else "-"),
        hgxv.enc_list([te0[k][0] for k in order]),
        crit_wire(ncrit), crit_wire(ecrit), mode, "1" if keep else "0"])
    ans = drv.ask(line)
    if ans == "rej":
        ctx.disagree({**case, "line": line}, f"{tag}the model's filter raises (absent node or key) while the implementation returned")
        return None
    try:
        a_nodes, a_edges, a_ws = ans.split(" ")
        mn = {l[0]: tuple(l[1:]) for l in hgxv.dec_lists(a_nodes)}
        me = {}
        recs = [] if a_edges == "-" else a_edges.split("|")
        ws = hgxv.dec_list(a_ws)
        for rec, w in zip(recs, ws):
            p1, p2, md = [tuple(hgxv.dec_list(t, "_")) for t in rec.split(";")]
            me[(p1, p2)] = (Fraction(w), md)
        if len(recs) != len(ws) or len(me) != len(recs):
            raise ValueError("duplicate or unbalanced records")
    except Exception as e:  # noqa: BLE001
        ctx.disagree({**case, "line": line}, f"{tag}model answer unreadable: {ans!r} ({e!r})")
        return None
    if mn != t1[0]:
        ctx.disagree({**case, "line": line}, f"{tag}nodes: model {sorted(mn.items())}, implementation {sorted(t1[0].items())}")
        return None
    elif me != t1[1]:
        ctx.disagree({**case, "line": line}, f"{tag}records: model {sorted(me.items())}, implementation {sorted(t1[1].items())}")
        return None
    return after


# ---------------------------------------------------------------------------------------------
# Part B

TWO63 = 2 ** 63
REL = Fraction(1, 10 ** 9)            # relative tolerance of a reported p-value
FLOOR = Fraction(1, 10 ** 300)        # below this a p-value may have underflowed
RMARGIN = Fraction(1, 10 ** 12)       # relative margin of a float threshold decision
TINY = Fraction(1, 10 ** 12)         # p-values below this are counted (svh_rows_p_below_1e-12)
MODEL_COST = 300000                   # rows * N^2 above which a case is not sent to the model (its `choose` is factorial based)
FIXED_ALPHAS = [0.01] * 4 + [0.05, 0.2, 0.5, 1.0]


DCTX = decimal.Context(prec=150, Emax=decimal.MAX_EMAX, Emin=decimal.MIN_EMIN)


def upper_sum(w, N, a, c, b):
    """sum_{j=w}^{N} C(N,j) (a/b)^j (c/b)^(N-j) to 150 significant digits. Horner: G_N = 1,
    G_j = C(N,j) q^(N-j) + p G_{j+1}, result p^w G_w; every term is positive, so the relative error is < 10 N 1e-150"""
    with decimal.localcontext(DCTX):
        p, q = decimal.Decimal(a) / decimal.Decimal(b), decimal.Decimal(c) / decimal.Decimal(b)
        G = t = decimal.Decimal(1)
        for j in range(N - 1, w - 1, -1):
            t = t * (j + 1) / (N - j) * q          # C(N,j) q^(N-j)
            G = G * p + t
        return p ** w * G


@functools.lru_cache(maxsize=20000)
def tail_exact(w, N, a, b):
    """P(X >= w) for X ~ Binomial(N, a/b) from the definition, to > 100 significant digits, as a Fraction (0 when it is
    below 1e-330, i.e. far below the float range). Above the mean the upper sum is taken, otherwise 1 - lower sum
    (>= ~1/2): no cancellation on either side"""
    if w <= 0:
        return Fraction(1)
    if w > N or a <= 0:
        return Fraction(0)
    if a >= b:
        return Fraction(1)
    g = math.gcd(a, b)
    a, b = a // g, b // g
    c = b - a
    with decimal.localcontext(DCTX):
        if w * b > N * a:
            val = upper_sum(w, N, a, c, b)
        else:
            val = 1 - upper_sum(N - w + 1, N, c, a, b)
        if val < decimal.Decimal("1e-330"):
            return Fraction(0)
        return Fraction(+val)


def naive_tail(w, N, p):
    q = 1 - p
    return sum(math.comb(N, j) * p ** j * q ** (N - j) for j in range(w, N + 1))


def self_test():
    """the fast exact tail against the definition on small parameters"""
    for N in (1, 2, 5, 9, 40):
        for a, b in ((1, 3), (2, 3), (1, 1), (5, 7), (1, 100), (99, 100), (10 ** 6 - 1, 10 ** 6), (1, 10 ** 9)):
            for w in range(0, N + 2):
                want = naive_tail(w, N, Fraction(a, b))
                got = tail_exact(w, N, a, b)
                if (got != 0 if want < Fraction(1, 10 ** 330) else abs(got - want) > want / 10 ** 120):
                    raise RuntimeError(f"harness self-test: tail_exact({w},{N},{a},{b}) = {got}, definition {want}")


def exact_tables(E, bound):
    """the property's words on the weighted hyperedge list E = [(sorted node tuple, weight)]:
    {n: (N, na, C, [(e, w, ks)])} for the sizes n in [2, bound] that occur"""
    out = {}
    for n in sorted({len(e) for e, _ in E if 2 <= len(e) <= bound}):
        En = [(e, w) for e, w in E if len(e) == n]
        N = sum(w for _, w in En)
        K = {}
        for e, w in En:
            for i in e:
                K[i] = K.get(i, 0) + w
        out[n] = (N, len(K), math.comb(len(K), n), [(e, w, tuple(K[i] for i in e)) for e, w in En])
    return out


def exact_p(n, N, w, ks):
    return tail_exact(w, N, math.prod(ks), N ** n)


def p_ok(p, n, N, w, ks):
    """(ok?, exact value): p is the binomial tail up to REL (relative), or lies between the exact tails of
    prod K_i/N * (1 -+ 1e-13) (a float product cannot be better conditioned than that)"""
    want = exact_p(n, N, w, ks)
    pf = Fraction(p)
    if abs(pf - want) <= REL * want + FLOOR:
        return True, want, False
    a, b, s = math.prod(ks), N ** n, 10 ** 13
    lo = tail_exact(w, N, a * (s - 1), b * s)
    hi = tail_exact(w, N, min(a * (s + 1), b * s), b * s)
    return (lo * (1 - REL) - FLOOR <= pf <= hi * (1 + REL) + FLOOR), want, True


@functools.lru_cache(maxsize=None)
def binom_is_double(na, n):
    """C(na, n) is a double and scipy.special.binom - what get_svh divides alpha by - returns exactly it"""
    from scipy.special import binom
    C = math.comb(na, n)
    return C < 2 ** 53 and float(binom(na, n)) == C


def line_readings(i, alpha, C, dbl=True):
    """every evaluation of the line i * alpha / C(n_a, n) of position i: the exact rational first, then - when C is a
    double - the double evaluations i * (alpha / C) (the order get_svh uses) and (i * alpha) / C"""
    a = Fraction(alpha)
    out = [a * i / C]
    if dbl and C < 2 ** 53:
        x, c = float(alpha), float(C)
        for v in (i * (x / c), (i * x) / c):
            out.append(Fraction(v))
    return out


def below(p, readings):
    """is p strictly below the line? True / False; None = not decidable. Farther than RMARGIN (relative) from the exact
    line the exact comparison decides. Closer - the p-value sits on or next to its line - a decision is taken only when
    EVERY reading of the rule, the exact one and each double evaluation, gives the same answer (so p exactly ON a line
    that every evaluation reproduces exactly is NOT below it: the property's inequality is strict)"""
    ex = readings[0]
    if ex <= 0:
        return False
    if abs(p - ex) > RMARGIN * ex:
        return p < ex
    if len(readings) == 1:
        return None
    answers = {p < r for r in readings}
    return answers.pop() if len(answers) == 1 else None


def step_up(ps, alpha, C, dbl=True):
    """threshold from the property's words with bonf = alpha / C: the line i*bonf of the LAST i whose i-th smallest
    p-value is strictly below it (0 when there is none), as the list of its readings;
    tight = some position is not decidable; prefix = the positions below the line are exactly the first ones;
    near = number of positions within RMARGIN of their line that were decided all the same"""
    s = sorted(ps)
    thr, tight, mask, near = [Fraction(0)], False, [], 0
    for i, p in enumerate(s, start=1):
        r = line_readings(i, alpha, C, dbl)
        b = below(p, r)
        if b is None:
            tight, b = True, p < r[0]
        elif abs(p - r[0]) <= RMARGIN * r[0]:
            near += 1
        mask.append(b)
        if b:
            thr = r
    prefix = all(mask[:sum(mask)])
    return thr, tight, prefix, near


def ulps(x, k):
    for _ in range(abs(k)):
        x = math.nextafter(x, math.inf if k > 0 else -math.inf)
    return x


def on_the_line(p, i, C):
    """a double alpha in (0, 1] for which the i-th line is the double p in EVERY reading that is not above p: exactly
    i*alpha/C <= p, and each double evaluation of the line gives p itself; None when the neighbourhood of p*C/i has no
    such double. (Then `p < line` is false however the line is evaluated.)"""
    if not (0 < p) or C >= 2 ** 53:
        return None
    want = Fraction(p) * C / i
    if want > 1 or want < Fraction(1, 10 ** 300):
        return None
    a = float(want)
    if Fraction(a) > want:
        a = math.nextafter(a, 0.0)
    for _ in range(4):
        if 0 < a <= 1 and all(r == Fraction(p) for r in line_readings(i, a, C)[1:]):
            return a
        a = math.nextafter(a, 0.0)
    return None


def flags_by_rule(s, alpha, C, strict=True):
    """validated flags of the sorted doubles s under the step-up rule in exact arithmetic, a position ON its line in
    the double evaluation i*(alpha/C) counted as below iff not `strict`"""
    thr = None
    for i, p in enumerate(s, start=1):
        line = i * (float(alpha) / float(C))
        hit = (p < line) if (strict or p != line) else True
        if hit:
            thr = line
    return [thr is not None and p < thr for p in s]


def line_alphas(tables):
    """tables = [(n, C, sorted double p-values)]: every (n, i, alpha, telling, clean) with the i-th smallest p-value of
    size n exactly on its line for that alpha; telling = counting that position as below its line would change the
    validated set; clean = also the exact rational line equals the p-value"""
    out = []
    for n, C, s in tables:
        for i in range(1, len(s) + 1):
            p = s[i - 1]
            a = on_the_line(p, i, C)
            if a is None:
                continue
            telling = flags_by_rule(s, a, C, True) != flags_by_rule(s, a, C, False)
            out.append((n, i, a, telling, Fraction(a) * i / C == Fraction(p)))
    return out


def alpha_breakpoints(E, bound):
    """per size the values r_i = C * p_(i) / i: position i is below the line iff alpha > r_i"""
    out = []
    for n, (N, na, C, rows) in exact_tables(E, bound).items():
        ps = sorted(exact_p(n, N, w, ks) for _, w, ks in rows)
        out.append((n, [p * C / i for i, p in enumerate(ps, start=1)]))
    return out


def pick_alpha(rng, E, bound):
    """an alpha in [1e-12, 1] strictly between two neighbouring breakpoints, preferably one for which the positions
    below the line are not a prefix (some i < j with r_j < alpha <= r_i); None when there is no room"""
    lo_all, hi_all = Fraction(1, 10 ** 12), Fraction(1)
    bps = alpha_breakpoints(E, bound)
    grid = sorted({r for _, rs in bps for r in rs if lo_all < r < hi_all} | {lo_all, hi_all})
    gaps = [(u, v) for u, v in zip(grid, grid[1:]) if v > u * (1 + Fraction(1, 10 ** 6))]
    if not gaps:
        return None, False
    nonmono = []
    for u, v in gaps:
        mid = (u + v) / 2
        for _, rs in bps:
            m = [r < mid for r in rs]
            if not all(m[:sum(m)]):
                nonmono.append((u, v))
                break
    want_nonmono = bool(nonmono) and rng.random() < 0.75
    u, v = rng.choice(nonmono if want_nonmono else gaps)
    t = Fraction(rng.choice([1, 2, 2, 3]), 4)
    x = float(u + (v - u) * t)
    if not (u * (1 + Fraction(1, 10 ** 8)) < Fraction(x) < v * (1 - Fraction(1, 10 ** 8))):
        return None, False
    return x, want_nonmono


def svh_edges_random(rng, labels, weighted):
    n = len(labels)
    edges, seen = [], set()
    style = rng.random()
    for _ in range(rng.randint(1, 12)):
        size = min(n, rng.choice([1, 2, 2, 2, 3, 3, 4, 5]))
        e = tuple(sorted(rng.sample(labels, size)))
        if e in seen:
            continue
        seen.add(e)
        if not weighted:
            w = 1
        elif style < 0.4:
            w = rng.choice([1, 1, 1, 2, 2, 3])
        else:
            w = rng.choice([1, 1, 1, 1, 2, 3, 6, 9, 14])
        edges.append([list(e), w])
    if weighted and rng.random() < 0.45:
        # a few heavy, (nearly) disjoint hyperedges among light ones: small p-values, some rows validated
        pool = labels[:]
        rng.shuffle(pool)
        edges = [[e, w] for e, w in edges if w <= 2][:rng.randint(0, 4)]
        seen = {tuple(e) for e, _ in edges}
        while len(pool) >= 2 and rng.random() < 0.9:
            size = min(len(pool), rng.choice([2, 2, 2, 3, 3, 4]))
            e = tuple(sorted(pool[:size]))
            pool = pool[size - (1 if rng.random() < 0.2 else 0):]
            if e not in seen:
                seen.add(e)
                edges.append([list(e), rng.choice([5, 8, 12, 16, 20])])
        rng.shuffle(edges)
    return edges


def svh_edges_twins(rng, labels, close=False):
    """per size 2-5 (nearly) disjoint hyperedges of (nearly) equal weight, so that the sorted p-values are tied or close
    and p_(i)/i is not increasing; plus a few light hyperedges.
    close: the twins of a size have ONE weight and differ by a light hyperedge of the same size hanging on one of their
    nodes (degrees K_i differ by 1 or 2): p-values that are distinct but within a small factor of each other, so that
    the smallest p_(i)/i is not at i = 1"""
    pool = labels[:]
    rng.shuffle(pool)
    edges, seen = [], set()
    for size in rng.sample([2, 2, 3, 4], rng.choice([1, 1, 2])):
        w0 = rng.choice([2, 3, 4, 5, 6, 8, 9, 12])
        k = rng.randint(2, 5)
        own = pool[:]
        rng.shuffle(own)
        for _ in range(k):
            if len(own) < size:
                break
            e = tuple(sorted(own[:size]))
            own = own[size - (1 if rng.random() < 0.15 else 0):]
            if e in seen:
                continue
            seen.add(e)
            edges.append([list(e), w0 if close else max(1, w0 + rng.choice([0, 0, 0, 0, 1, -1, -1, 2, -3]))])
            others = [x for x in labels if x not in e]
            if close and rng.random() < 0.6 and len(others) >= size - 1:
                f = tuple(sorted([rng.choice(e)] + rng.sample(others, size - 1)))
                if f not in seen:
                    seen.add(f)
                    edges.append([list(f), rng.choice([1, 1, 2])])
    for _ in range(rng.randint(0, 3)):
        size = min(len(labels), rng.choice([1, 2, 2, 3]))
        e = tuple(sorted(rng.sample(labels, size)))
        if e not in seen:
            seen.add(e)
            edges.append([list(e), rng.choice([1, 1, 2])])
    rng.shuffle(edges)
    return edges


def svh_edges_close(rng, labels):
    """per size k disjoint hyperedges of ONE weight w0; all but one or two of them carry a weight-1 hyperedge of the same
    size on one of their nodes (that node's degree is w0+1, the other nodes of the light hyperedges are shared and lie
    outside): a few smallest p-values p0 and several TIED p-values p ~ 2.5 p0 right above them, so that the smallest
    p_(i)/i is at the last of the tied ones - the rank that decides alone when alpha puts it on its line"""
    pool = labels[:]
    rng.shuffle(pool)
    edges, seen = [], set()
    for size in rng.sample([2, 2, 3, 4], rng.choice([1, 1, 2])):
        k = min(rng.randint(3, 6), (len(pool) - size + 1) // size)
        if k < 2:
            continue
        w0 = rng.choice([2, 3, 4, 5, 6, 8])
        twins = [tuple(sorted(pool[j * size:(j + 1) * size])) for j in range(k)]
        outside = pool[k * size:k * size + size - 1]
        plain = rng.choice([1, 1, 1, 2])
        for j, e in enumerate(twins):
            if e in seen:
                continue
            seen.add(e)
            edges.append([list(e), w0])
            if j >= plain:
                f = tuple(sorted([rng.choice(e)] + outside))
                if f not in seen:
                    seen.add(f)
                    edges.append([list(f), rng.choice([1, 1, 1, 2])])
        rng.shuffle(pool)
    for _ in range(rng.randint(0, 2)):
        size = min(len(labels), rng.choice([1, 2, 3]))
        e = tuple(sorted(rng.sample(labels, size)))
        if e not in seen:
            seen.add(e)
            edges.append([list(e), rng.choice([1, 1, 2])])
    rng.shuffle(edges)
    return edges


def svh_edges_dense(rng, labels):
    """most of the C(n_a, n) hyperedges of one or two small sizes on 3-6 nodes: about as many tests as possible
    hyperedges, so i*alpha/C(n_a,n) reaches the p-values near 1 with alpha <= 1 at the last ranks"""
    import itertools
    edges = []
    for size in rng.sample([2, 3, 3, 4], rng.choice([1, 1, 2])):
        if size > len(labels):
            continue
        keep = rng.choice([0.5, 0.8, 1.0, 1.0])
        for e in itertools.combinations(labels, size):
            if rng.random() < keep and list(e) not in [x for x, _ in edges]:
                edges.append([list(e), rng.choice([1, 1, 1, 2, 2, 3, 4, 6, 12])])
    if not edges:
        edges.append([list(labels[:2]), 2])
    rng.shuffle(edges)
    return edges


def svh_edges_magnitude(rng, labels, big_weights, heavy):
    """magnitude stream: a core of nodes shared by all hyperedges of a size plus a few own nodes, so that
    prod_i K_i/N stays moderate while prod_i K_i itself is astronomically large:
    big sizes (6-12) x weights 20-400, or (big_weights) sizes 2-6 x weights 200-3000 (thorough: up to 70000)"""
    edges, seen = [], set()
    sizes = rng.sample([2, 3, 4, 5, 6] if big_weights else [6, 7, 8, 9, 10, 11, 12], rng.choice([1, 1, 2]))
    if heavy >= 1:
        sizes = sizes[:1]
    for size in sizes:
        size = min(size, len(labels))
        k = 2 if heavy >= 1 else rng.choice([1, 1, 2, 2, 3, 4])
        n_own = 0 if k == 1 else rng.randint(1, min(3, size - 1))
        pool = labels[:]
        rng.shuffle(pool)
        core, rest = pool[:size - n_own], pool[size - n_own:]
        made = 0
        for _ in range(k + 3):
            if len(rest) < n_own or made == k:
                break
            e = tuple(sorted(core + rng.sample(rest, n_own)))
            if e in seen or len(e) < 2:
                continue
            seen.add(e)
            made += 1
            if big_weights:
                # get_svh needs ~40 us per unit of weight: the really large ones only in the thorough tier
                if rng.random() < heavy and not any(w > 3000 for _, w in edges):
                    w = rng.choice([rng.randint(32768, 34000), rng.randint(65536, 70000)])     # beyond 16-bit integers
                else:
                    hi = rng.choice([600, 1500, 3000])
                    w = rng.randint(hi // 3, hi)
            else:
                w = rng.choice([rng.randint(20, 90), rng.randint(80, 200), rng.randint(150, 400)])
            edges.append([list(e), w])
    for _ in range(rng.randint(0, 3)):
        size = min(len(labels), rng.choice([2, 2, 3]))
        e = tuple(sorted(rng.sample(labels, size)))
        if e not in seen:
            seen.add(e)
            edges.append([list(e), rng.choice([1, 2, 7, 40, 300])])
    rng.shuffle(edges)
    return edges


def gen_svh_case(rng, heavy=False, huge=False, sparse=None):
    """heavy: weights up to 70000 may occur (thorough tier); huge: they do (one case per quick run);
    sparse: the size class (0, 1, 2) of a large sparse hypergraph that is generated whatever the dice say"""
    r = rng.random()
    style = "random" if r < 0.47 else "twins" if r < 0.76 else "big_size" if r < 0.89 else "big_weight" if r < 0.965 else "sparse"
    if huge:
        style = "big_weight"
    if sparse is not None:
        style = "sparse"
    if style == "sparse":
        return gen_sparse_case(rng, heavy, sparse)
    flavour = None
    if style == "random" and rng.random() < 0.15:
        flavour = "dense"
    if style == "twins" and rng.random() < 0.5:
        flavour = "close"
    n = rng.randint(3, 9) if style == "random" else rng.randint(5, 12) if style == "twins" else rng.randint(8, 16)
    if flavour == "dense":
        n = rng.randint(3, 6)
    if flavour == "close":
        n = rng.randint(8, 16)
    if rng.random() < 0.2:
        labels = sorted(rng.sample([chr(97 + i) for i in range(20)], n))
    else:
        labels = sorted(rng.sample(range(0, 40), n))
    weighted = style != "random" or rng.random() < 0.8
    if flavour == "dense":
        edges = svh_edges_dense(rng, labels)
    elif style == "random":
        edges = svh_edges_random(rng, labels, weighted)
    elif flavour == "close":
        edges = svh_edges_close(rng, labels)
    elif style == "twins":
        edges = svh_edges_twins(rng, labels, rng.random() < 0.5)
    else:
        edges = svh_edges_magnitude(rng, labels, style == "big_weight", 1.0 if huge else 0.03 if heavy else 0.0)
    top = max([len(e) for e, _ in edges] + [2])
    if huge:
        bound = rng.choice([top, 12])
    elif style in ("big_size", "big_weight"):
        bound = rng.choice([top, top, 12, 20, top - 1, 10])
    else:
        bound = rng.choice([0, 1, 2, 3, 3, 4, 4, 5, 6, 10])
    if flavour and rng.random() < 0.7:
        bound = rng.choice([top, 10])
    if flavour:
        style = style + "/" + flavour
    case = {"part": "svh", "style": style, "labels": labels, "weighted": weighted, "edges": edges,
            "max_order": bound, "alpha": rng.choice(FIXED_ALPHAS), "mp": False}
    # history: hyperedges that are inserted and removed again, weights that arrive in two instalments, isolated nodes
    hist = {}
    if rng.random() < 0.3:
        present = {tuple(e) for e, _ in edges}
        ghosts = []
        for _ in range(rng.randint(1, 3)):
            e = tuple(sorted(rng.sample(labels, min(n, rng.choice([2, 2, 3, 4])))))
            if e not in present:
                present.add(e)
                ghosts.append([rng.randint(0, len(edges)), list(e), rng.choice([1, 2, 5, 30])])
        hist["ghost_edges"] = ghosts
    if weighted and rng.random() < 0.3:
        hist["split"] = [i for i, (e, w) in enumerate(edges) if w >= 2 and rng.random() < 0.5]
    if rng.random() < 0.3:
        used = {x for e, _ in edges for x in e}
        hist["isolated"] = [x for x in labels if x not in used][:3]
    if hist:
        case["history"] = hist
    if len(edges) >= 2 and rng.random() < 0.15:
        present = {tuple(e) for e, _ in edges} | {tuple(g[1]) for g in hist.get("ghost_edges") or []}
        e_old, w_old = rng.choice(edges)
        used = sorted({x for e, _ in edges for x in e})
        e_new = tuple(sorted(rng.sample(used if len(used) >= len(e_old) else labels, len(e_old))))
        if e_new not in present:
            case["again"] = {"remove": [list(e_old), w_old], "add": list(e_new)}
    if rng.random() < (0.7 if style.startswith("twins") else 0.4):
        E = [(tuple(e), (w if weighted else 1)) for e, w in edges]
        a, nonmono = pick_alpha(rng, E, bound)
        if a is not None:
            case["alpha"] = a
            case["alpha_how"] = "between breakpoints" + (", not a prefix" if nonmono else "")
    if "again" not in case and rng.random() < (1.0 if flavour else 0.15 if style == "big_weight" else 0.4 if style == "big_size" else 0.6):
        case["line_seed"] = rng.randrange(1 << 30)      # a further call with alpha on the line of a reported p-value
    return svh_relabel(rng, case)


SPARSE_CLASSES = [
    # (hyperedges, sizes): prod K_i/N from 1e-8 down to 1e-45
    ((20, 45), (8, 9, 10, 11, 12)),        # small enough for the model; p-values around 1e-12 .. 1e-20
    ((150, 400), (4, 5, 6, 7)),            # p-values around 1e-7 .. 1e-15
    ((500, 1200), (8, 10, 12, 14)),        # p-values around 1e-19 .. 1e-40
]


def gen_sparse_case(rng, heavy, cls=None):
    """many hyperedges of one large size that are seen once and hardly share nodes: N large, every K_i 1 (2, 3 for a
    few shared nodes), so prod_i K_i/N is 1e-8 .. 1e-45 and every p-value is tiny (but never 0). Stored as a recipe."""
    if cls is None:
        cls = rng.choice([0, 0, 1, 1, 2])
    (lo, hi), sizes = SPARSE_CLASSES[cls]
    m = rng.randint(lo, hi) * (rng.choice([1, 1, 3]) if heavy and cls == 2 else 1)
    size = rng.choice(sizes)
    weighted = rng.random() < 0.6
    rc = {"seed": rng.randrange(1 << 30), "m": m, "size": size, "share": rng.choice([0, 0, 0.01, 0.05, 0.15]),
          "heavy": rng.choice([0, 0, 1, 2, 4]) if weighted else 0, "extra": rng.choice([0, 0, 2, 5]),
          "ghosts": rng.choice([0, 0, 0, 2]), "shift": rng.randint(0, 6)}
    case = {"part": "svh", "style": "sparse", "weighted": weighted, "recipe": rc,
            "max_order": rng.choice([size, size, size, size + 1, 20, 10 if size <= 10 else size]),
            "alpha": rng.choice(FIXED_ALPHAS), "mp": False,
            "fresh": rng.randrange(1 << 30), "weight_kind": rng.choice(["int", "int", "int64", "int16", "uint8"]),
            "label_kind": rng.choice(SVH_LABEL_KINDS), "np_args": rng.random() < 0.12}
    if m <= 400 and rng.random() < 0.5:
        case["line_seed"] = rng.randrange(1 << 30)
    return case


def expand_sparse(case):
    """the case with labels / edges / history made from its recipe (own PRNG; the recipe is what is stored and replayed)"""
    import random
    rc = case["recipe"]
    rnd = random.Random(rc["seed"])
    m, size, share = rc["m"], rc["size"], rc["share"]
    edges, seen, used, nxt = [], set(), [], 0
    while len(edges) < m:
        e = set()
        while len(e) < size:
            if used and rnd.random() < share:
                e.add(rnd.choice(used[-40 * size:]))
            else:
                e.add(nxt)
                nxt += 1
        e = tuple(sorted(e))
        if e in seen:
            continue
        seen.add(e)
        used.extend(e)
        edges.append([list(e), 1])
    if case["weighted"]:
        for j in rnd.sample(range(m), min(m, rc["heavy"])):
            edges[j][1] = rnd.choice([2, 2, 3, 4])
    for _ in range(rc["extra"]):
        e = tuple(sorted(rnd.sample(range(nxt), rnd.choice([2, 2, 3, size - 1]))))
        if e not in seen:
            seen.add(e)
            edges.append([list(e), rnd.choice([1, 1, 2, 3]) if case["weighted"] else 1])
    ghosts = []
    for _ in range(rc["ghosts"]):
        e = tuple(sorted(rnd.sample(range(nxt), size)))
        if e not in seen:
            seen.add(e)
            ghosts.append([rnd.randint(0, len(edges)), list(e), rnd.choice([1, 2, 5]) if case["weighted"] else 1])
    # node ids in no particular relation to the order of insertion
    perm = list(range(nxt))
    rnd.shuffle(perm)
    rnd.shuffle(edges)
    f = svh_label_map(case["label_kind"], rc["shift"], wide=True)
    conv = lambda e: sorted((f(perm[x]) for x in e), key=lab)
    full = dict(case)
    full["labels"] = [f(i) for i in range(nxt)]
    full["edges"] = [[conv(e), w] for e, w in edges]
    if ghosts:
        full["history"] = {"ghost_edges": [[pos, conv(e), w] for pos, e, w in ghosts]}
    return full


SVH_LABEL_KINDS = ["small", "small", "str", "big", "huge", "huge", "float", "mixed_num", "mixed_num", "tuple", "npint", "npint"]


def svh_label_map(kind, shift, wide=False):
    """strictly increasing map from the generator's labels (ints 0..39 or letters; wide: any index) to label objects of
    a kind, in the JSON form of a case (a tuple label is a list)"""
    def f(i):
        if kind == "str":
            return ("n%06d-%s" if wide else "n%02d-%s") % (i, "xyz"[i % 3])
        if kind == "big":
            return 257 + 7 * i if i < 20 else 10 ** 6 + i
        if kind == "huge":
            # bands: small, around 2**53, below 2**63, above 2**63, beyond 2**64, 2**70: neighbours of one band
            # collapse when something turns them into float64, bands below and above 2**63 do not fit one integer dtype
            band = min((i + shift) // 7, 6)
            return [i, 2 ** 53 + i, 2 ** 63 - 60 + i, 2 ** 63 + i, 2 ** 64 + i, 2 ** 70 + i, 2 ** 70 + 2 ** 64 + i][band]
        if kind == "float":
            return i * 0.25 + (1e15 if i >= 30 else 0.0)
        if kind == "mixed_num":
            # floats next to integers, the integers from 20 on beyond 2**53 (neighbours collapse as float64)
            if i < 20:
                return i + 0.5 if (i + shift) % 2 else i
            return 2 ** 53 + 1 + i if i < 32 else float(2 ** 60) * (i - 30)
        if kind == "tuple":
            return [300 + (i + shift) // 4, (i + shift) % 4]
        return i
    return f


def svh_relabel(rng, case):
    kind = rng.choice(SVH_LABEL_KINDS)
    case["fresh"] = rng.randrange(1 << 30)
    top = max([w for _, w in case["edges"]] + [g[2] for g in (case.get("history") or {}).get("ghost_edges") or []] + [1])
    case["weight_kind"] = rng.choice(["int", "int", "int64", "int32", "int16" if top < 2 ** 14 else "int64",
                                      "uint8" if top < 128 else "uint32"])
    case["label_kind"] = kind
    case["np_args"] = rng.random() < 0.12          # max_order / alpha arrive as numpy scalars
    if kind in ("small", "npint") and isinstance(case["labels"][0], int):
        return case
    if isinstance(case["labels"][0], str):
        idx = {x: i for i, x in enumerate("abcdefghijklmnopqrstuvwxyz")}
        if kind in ("small", "npint"):
            case["label_kind"] = kind = "str"
    else:
        idx = {x: x for x in range(0, 40)}
    f = svh_label_map(kind, rng.randint(0, 6))
    conv = lambda x: f(idx[x])
    case["labels"] = [conv(x) for x in case["labels"]]
    case["edges"] = [[[conv(x) for x in e], w] for e, w in case["edges"]]
    hist = case.get("history") or {}
    if "ghost_edges" in hist:
        hist["ghost_edges"] = [[pos, [conv(x) for x in e], w] for pos, e, w in hist["ghost_edges"]]
    if "isolated" in hist:
        hist["isolated"] = [conv(x) for x in hist["isolated"]]
    if "again" in case:
        ag = case["again"]
        case["again"] = {"remove": [[conv(x) for x in ag["remove"][0]], ag["remove"][1]], "add": [conv(x) for x in ag["add"]]}
    return case


def np_weight(kind, w):
    """the weight as the caller's object: a fresh Python int or a numpy integer"""
    if w is None:
        return None
    if kind in (None, "int"):
        return int(str(w))
    import numpy as np
    return getattr(np, kind)(w)


def build_svh(case, F):
    from hypergraphx import Hypergraph
    weighted = case["weighted"]
    hist = case.get("history") or {}
    h = Hypergraph(weighted=weighted)
    ghosts = hist.get("ghost_edges") or []
    split = set(hist.get("split") or [])
    edges = [(lab(e), int(w)) for e, w in case["edges"]]
    wk = case.get("weight_kind")

    def add(e, w, i):
        # the tuple is handed over in a rotated order: Hypergraph.add_edge canonicalises it; every label and the weight
        # are newly made objects (a hyperedge that gets its weight in two instalments is named by two equal tuples)
        e_in = e[i % len(e):] + e[:i % len(e)]
        h.add_edge(F.label(e_in), weight=np_weight(wk, w) if weighted else None)

    for i, (e, w) in enumerate(edges):
        for pos, ge, gw in ghosts:
            if pos == i:
                add(lab(ge), gw, i)
        if i in split and weighted and w >= 2:
            add(e, w // 2, i)            # the rest of the weight follows after the loop
        else:
            add(e, w, i)
    for pos, ge, gw in ghosts:
        if pos >= len(edges):
            add(lab(ge), gw, pos)
    for x in hist.get("isolated") or []:
        h.add_node(F.label(x))
    for i, (e, w) in enumerate(edges):
        if i in split and weighted and w >= 2:
            add(e, w - w // 2, i + 1)
    for pos, ge, gw in ghosts:
        h.remove_edge(F.label(sorted(lab(ge))))
    return h


def check_svh(ctx, drv, case):
    full = expand_sparse(case) if "recipe" in case else case
    F = Fresh(case.get("fresh", 0), npints=case.get("label_kind") == "npint")
    h, err = guarded(lambda: build_svh(full, F))
    if err:
        ctx.count("svh_build_failed")        # construction is C01's business
        return
    ctx.count("svh_labels_" + case.get("label_kind", "literal"))
    ctx.count("svh_weights_as_" + (case.get("weight_kind") or "int"))
    if full.get("history"):
        ctx.count("svh_history")
    out = {}
    if not svh_round(ctx, drv, case, h, "", full, out):
        return
    again = case.get("again")
    if again:
        # the SAME object, changed in place so that the numbers of nodes and hyperedges stay what they were
        def change():
            e_old, w_old = again["remove"]
            h.remove_edge(F.label(e_old))
            h.add_edge(F.label(again["add"]), weight=np_weight(case.get("weight_kind"), w_old) if case["weighted"] else None)
        _, err = guarded(change)
        if err:
            ctx.count("svh_build_failed")
            return
        ctx.count("svh_second_call_on_same_object")
        out = {}
        if not svh_round(ctx, drv, case, h, "[second call, after one hyperedge of the same object was replaced] ", full, out):
            return
    if "line_seed" in case and not again and out.get("tables"):
        # alpha is the caller's: put a sorted p-value EXACTLY on its line i*alpha/C(n_a,n) (or next to it), computed from
        # the p-values the implementation has just reported; the derived case carries that alpha and is complete
        derived = case_on_the_line(ctx, case, out["tables"])
        if derived is not None:
            h2, err = guarded(lambda: build_svh(full, Fresh(case.get("fresh", 0), npints=case.get("label_kind") == "npint")))
            if err:
                ctx.count("svh_build_failed")
                return
            svh_round(ctx, drv, derived, h2, "", {**full, "alpha": derived["alpha"]})


LINE_HOW = ["on"] * 14 + ["below 1e-6", "below 1e-9", "below 1e-11", "above 1e-6", "above 1e-9", "above 1e-11",
                          "ulps -1", "ulps -2", "ulps 1", "ulps 2"]


def case_on_the_line(ctx, case, tables):
    """the case with alpha moved onto (or next to) the line of one sorted p-value of one reported table; None when no
    position of any table can be hit with an alpha in (0, 1]. Positions where counting `p == line` as below would change
    the validated set are preferred"""
    import random
    rnd = random.Random(case["line_seed"])
    cands = line_alphas([t for t in tables if len(t[2]) <= 400])
    if not cands:
        ctx.count("svh_line_no_alpha")
        return None
    telling = [c for c in cands if c[3]]
    n, i, a, tell, clean = rnd.choice(telling if telling and rnd.random() < 0.85 else cands)
    how = rnd.choice(LINE_HOW)
    if how.startswith("below") or how.startswith("above"):
        d = float(how.split()[1])
        a2 = a * (1 - d) if how.startswith("below") else a * (1 + d)
    elif how.startswith("ulps"):
        a2 = ulps(a, int(how.split()[1]))
    else:
        a2 = a
    if not (0 < a2 <= 1):
        a2, how = a, "on"
    ctx.count("svh_line_alpha_" + how.split()[0])
    if how == "on":
        ctx.count("svh_line_alpha_on_telling" if tell else "svh_line_alpha_on_same_outcome_either_way")
        if clean:
            ctx.count("svh_line_alpha_on_exact_rational_too")
    derived = {k: v for k, v in case.items() if k not in ("line_seed", "again")}
    derived["alpha"] = a2
    derived["alpha_how"] = (f"p_({i}) of size {n} " + ("exactly on its line" if how == "on" else f"next to its line ({how})"))
    return derived


def svh_round(ctx, drv, case, h, tag, full=None, out=None):
    """one get_svh call on h, judged on the content h has now; False when something was reported.
    full: the case with its recipe expanded (labels); out: dict that receives the tables that were reported and judged"""
    full = full or case
    from hypergraphx.filters.statistical_filters import get_svh
    bound, alpha, mp = case["max_order"], case["alpha"], case.get("mp", False)
    style = case.get("style", "random")
    import numbers
    E, err = guarded(lambda: [(tuple(e), h.get_weight(e)) for e in h.get_edges()])
    if err or any(not isinstance(w, numbers.Integral) or isinstance(w, bool) or w < 1 or tuple(sorted(e)) != e for e, w in E):
        ctx.count("svh_build_failed")
        return False
    E = [(e, int(w)) for e, w in E]
    ctx.count("svh_style_" + style)
    labels = sorted({lab(x) for x in full["labels"]} | {x for e, _ in E for x in e})
    rank = {x: i for i, x in enumerate(labels)}
    a_bound, a_alpha = bound, alpha
    if case.get("np_args"):
        import numpy as np
        a_bound, a_alpha = np.int64(bound), np.float64(alpha)
        ctx.count("svh_numpy_scalar_arguments")
    res, err = guarded(lambda: get_svh(h, max_order=a_bound, alpha=a_alpha, mp=mp), 60 if mp else 30)
    ctx.count("svh_mp" if mp else "svh_serial")
    if err:
        ctx.case(repr((E, bound, alpha)), False, sample=case)
        ctx.violation(case, f"{tag}get_svh(max_order={bound}, alpha={alpha}, mp={mp}) does not return: {err}")
        return False
    bad = []
    try:
        got = {}
        for size, df in res.items():
            rows = [(tuple(e), float(p), bool(f)) for e, p, f in zip(df["edge"], df["pvalue"], df["fdr"])]
            if int(size) in got:
                bad.append(f"size {size} reported twice")
            got[int(size)] = rows
    except Exception as e:  # noqa: BLE001
        ctx.case(repr((E, bound, alpha)), False, sample=case)
        ctx.violation(case, f"{tag}result of get_svh is not a dict of DataFrames with edge/pvalue/fdr: {e!r}")
        return False
    for size, rows in got.items():
        for e, p, f in rows:
            if not math.isfinite(p) or not (0.0 <= p <= 1.0 + 1e-9):
                bad.append(f"p-value of {e!r} under size {size} is {p!r}, not a probability")
    if bad:
        ctx.case(repr((E, bound, alpha, mp)), False, sample=case)
        for b in bad[:3]:
            ctx.violation(case, tag + b)
        return False
    # ---- oracle: the property's words
    tables = exact_tables(E, bound)
    sizes = sorted(tables)
    if sorted(got) != sizes:
        bad.append(f"sizes reported {sorted(got)}, hyperedge sizes within [2,{bound}] are {sizes}")
    a_exact = Fraction(alpha)
    skips = 0
    n_valid = n_rows = n_nonprefix = n_overflow = n_tiny = n_near = 0
    for n in sizes:
        if n not in got:
            continue
        rows = got[n]
        N, na, C, exact_rows = tables[n]
        par = {e: (w, ks) for e, w, ks in exact_rows}
        listed = [tuple(sorted(r[0])) for r in rows]
        times = collections.Counter(listed)
        for e in par:
            if times[e] != 1:
                bad.append(f"hyperedge {e!r} is reported {times[e]} times under size {n}")
        for e in times:
            if e not in par:
                bad.append(f"row {e!r} under size {n} is not a size-{n} hyperedge of the input")
        ps = []
        for e, p, f in rows:
            e = tuple(sorted(e))
            if e not in par:
                continue
            w, ks = par[e]
            if math.prod(ks) >= TWO63:
                n_overflow += 1
            ok, want, cond = p_ok(p, n, N, w, ks)
            if cond:
                ctx.count("svh_p_conditioning_" + ("accepted" if ok else "rejected"))
            if want < TINY:
                n_tiny += 1
            if not ok:
                bad.append(f"p-value of {e!r} is {p!r}, P(Bin({N}, prod K_i/N) >= {w}) with K = {list(ks)} is {float(want)!r}"
                           f" (relative error {float(abs(Fraction(p) - want) / want) if want else 0.0:.3g})")
            ps.append(Fraction(p))
        bonf = a_exact / C
        thr, tight, prefix, near = step_up(ps, alpha, C, binom_is_double(na, n))
        n_near += near
        if not prefix:
            n_nonprefix += 1
        if tight:
            skips += 1
        else:
            for e, p, f in rows:
                b = below(Fraction(p), thr)
                if b is None:
                    skips += 1
                    continue
                if f != b:
                    bad.append(f"hyperedge {e!r} (size {n}) has p={p!r} and validated={f}, the step-up threshold is {float(thr[0])!r}"
                               f" (sorted p-values {sorted(float(x) for x in ps)[:8]}, alpha/C({na},{n}) = {float(bonf)!r})")
        top_valid = max([(p, e) for e, p, f in rows if f], default=None)
        low_not = min([(p, e) for e, p, f in rows if not f], default=None)
        if top_valid is not None and low_not is not None and low_not[0] <= top_valid[0]:
            bad.append(f"{top_valid[1]!r} (p={top_valid[0]!r}) is validated while {low_not[1]!r} (p={low_not[0]!r}) is not")
        n_rows += len(rows)
        n_valid += sum(1 for r in rows if r[2])
    ctx.count("svh_margin_skips", skips)
    ctx.count("svh_rows", n_rows)
    ctx.count("svh_rows_validated", n_valid)
    ctx.count("svh_tables_not_a_prefix", n_nonprefix)
    ctx.count("svh_rows_prod_K_over_2^63", n_overflow)
    ctx.count("svh_rows_p_below_1e-12", n_tiny)
    ctx.count("svh_positions_on_or_next_to_their_line_decided", n_near)
    if "alpha_how" in case:
        ctx.count("svh_alpha_between_breakpoints")
    nontrivial = ((len(sizes) >= 2 and 0 < n_valid < n_rows) or any(w >= 2 and 2 <= len(e) <= bound for e, w in E)
                  or n_nonprefix > 0)
    ctx.case(repr((E, bound, alpha, mp)), nontrivial, sample=case)
    for b in bad[:3]:
        ctx.violation(case, tag + b)
    if bad:
        return False
    if out is not None:
        out["tables"] = [(n, tables[n][2], sorted(r[1] for r in got[n])) for n in sizes
                         if n in got and binom_is_double(tables[n][1], n)]
    if drv is None:
        return True
    # ---- model
    if sum(len(t[3]) * t[0] ** 2 for t in tables.values()) > MODEL_COST:
        ctx.count("svh_model_skipped_large")
        return True
    line = " ".join(["svh", str(bound), hgxv.enc_num(a_exact), hgxv.enc_lists([[rank[x] for x in e] for e, _ in E]),
                     hgxv.enc_list([w for _, w in E])])
    ans = drv.ask(line)
    try:
        model = {}
        for tok in ([] if ans == "-" else ans.split(" ")):
            head, *rws = tok.split("@")
            n, N, na, bonf, thr = head.split(":")
            rr = []
            for r in rws:
                e, ks, w, p, f = r.split("=")
                rr.append((tuple(hgxv.dec_list(e, "_")), hgxv.dec_list(ks, "_"), int(w), Fraction(p), f == "1"))
            model[int(n)] = (int(N), int(na), Fraction(bonf), Fraction(thr), rr)
    except Exception as e:  # noqa: BLE001
        ctx.disagree({**case, "line": line}, f"model answer unreadable: {ans[:200]!r} ({e!r})")
        return False
    if sorted(model) != sorted(got):
        ctx.disagree({**case, "line": line}, f"sizes: model {sorted(model)}, implementation {sorted(got)}")
        return False
    lines2, meta2 = [], []
    for n in sorted(got):
        N, na, bonf, thr, rr = model[n]
        rows = got[n]
        ge = [tuple(rank[x] for x in sorted(r[0])) for r in rows]
        if [r[0] for r in rr] != ge:
            ctx.disagree({**case, "line": line}, f"size {n}: model rows {[r[0] for r in rr]}, implementation rows {ge}")
            continue
        for (e, ks, w, p, f), (_, gp, gf) in zip(rr, rows):
            if abs(Fraction(gp) - p) > REL * p + FLOOR and not p_ok(gp, n, N, w, tuple(ks))[0]:
                ctx.disagree({**case, "line": line}, f"size {n} row {e}: model p = {float(p)!r} (w={w}, N={N}, K={ks}), implementation {gp!r}")
        lines2.append("thr " + hgxv.enc_num(bonf) + " " + hgxv.enc_list([Fraction(r[1]) for r in rows]))
        meta2.append((n, bonf, rows))
    for ln, a, (n, bonf, rows) in zip(lines2, drv.batch(lines2), meta2):
        t, flags = a.split(" ")
        t = Fraction(t)
        flags = [x == 1 for x in hgxv.dec_list(flags)]
        ps = [Fraction(r[1]) for r in rows]
        thr, tight, _, _ = step_up(ps, alpha, tables[n][2], binom_is_double(tables[n][1], n))
        if tight:
            continue
        if t != thr[0]:
            ctx.disagree({**case, "line": ln}, f"size {n}: model threshold {float(t)!r}, the step-up rule on the implementation's p-values gives {float(thr[0])!r}")
        for (e, gp, gf), mf in zip(rows, flags):
            if below(Fraction(gp), thr) is None:
                continue
            if gf != mf:
                ctx.disagree({**case, "line": ln}, f"size {n} row {e!r}: model validated={mf} (threshold {float(t)!r}), implementation {gf}")
    return True


# ---------------------------------------------------------------------------------------------
# part C: get_svc (statistically validated cores) vs `C19.svc` (extension round)

SVC_KINDS = ("small", "big", "str", "huge")


def svc_label(kind, i):
    """order-preserving label of index i, a newly made object on every call"""
    if kind == "big":
        return int(str(1000 + 7 * i))
    if kind == "str":
        return "".join(["n", "%02d" % i])
    if kind == "huge":
        return int(str(2 ** 62 + i))
    return i


def gen_svc_case(rng):
    n_nodes = rng.randint(3, 10)
    weighted = rng.random() < 0.8
    edges = {}
    k = rng.randint(2, min(5, n_nodes - 1)) if (rng.random() < 0.85 and n_nodes >= 4) else 0
    apart = rng.random() < 0.6          # the other hyperedges avoid the nodes of the heavy group
    pool = range(n_nodes - k) if (apart and n_nodes - k >= 2) else range(n_nodes)
    for _ in range(rng.choice([0, 1, 2, 3, 3, 4, 5, 6, 7])):
        j = min(len(pool), rng.choice([1, 2, 2, 3, 3, 3, 4, 4, 5]))
        e = tuple(sorted(rng.sample(pool, j)))
        edges[e] = rng.choice([1, 1, 1, 2, 3, 5]) if weighted else 1
    if k:
        # a heavy group on the last nodes (+ sometimes a superset / a subset record of it): validated cores whose
        # sub-groups must not be tested again at the lower orders
        core = tuple(range(n_nodes - k, n_nodes))
        edges[core] = rng.randint(2, 8) if weighted else 1
        if rng.random() < 0.4:
            edges[tuple(sorted((rng.randrange(0, n_nodes - k),) + core))] = rng.choice([1, 2]) if weighted else 1
        if rng.random() < 0.4 and k >= 3:
            edges[core[1:]] = rng.choice([1, 2, 4]) if weighted else 1
    items = list(edges.items())
    rng.shuffle(items)
    return {"part": "svc", "kind": rng.choice(SVC_KINDS), "weighted": weighted,
            "edges": [[list(e), w] for e, w in items],
            "min_order": rng.choice([2, 2, 2, 2, 2, 2, 1, 1, 0, 3, 3, 4, 7]),
            "max_order": rng.choice([None, None, None, None, None, 0, 1, 2, 3, 3, 4, 5, 12]),
            "alpha": rng.choice([0.01, 0.05, 0.3, 0.6, 1.0, 1.0]),
            "isolated": [n_nodes + j for j in range(rng.choice([0, 0, 0, 1, 2]))],     # nodes in no hyperedge
            "kw": rng.random() < 0.5, "pool": "full" if rng.random() < 0.05 else "small"}


def svc_expected(E, lo, hi, alpha, pvals):
    """the docstring's / the code's words, independently of the model, on E = [(rank tuple, weight)] (listing order):
    per order (descending) the groups in first-seen order with (w, N, ks) and - from the p-values `pvals[(order, g)]`
    that the implementation reported - the validated flags by the step-up rule; None = the call has to raise.
    Returns (tables, undecidable?)"""
    if not E:
        return None, False
    longest = max(len(e) for e, _ in E)
    top = min(hi, longest) if hi else longest
    orders = list(range(lo, top + 1))[::-1]
    if not orders:
        return None, False
    N = sum(w for _, w in E)
    K = collections.Counter()
    for e, w in E:
        for i in e:
            K[i] += w
    na = len(K)
    valid, tables = [], []
    import itertools
    for o in orders:
        cnt = {}
        for e, w in E:
            if len(e) >= o:
                for g in itertools.combinations(e, o):
                    if not any(set(g) <= set(v) for v in valid):
                        cnt[g] = cnt.get(g, 0) + w
        C = math.comb(na, o)
        rows = [(g, w, tuple(K[i] for i in g)) for g, w in cnt.items()]
        ps = [pvals.get((o, g)) for g, _, _ in rows]
        if any(p is None for p in ps):
            tables.append((o, N, na, C, rows, None, None))
            return tables, True                      # the row lists already differ: reported by the caller
        thr, tight, _, _ = step_up(ps, alpha, C, binom_is_double(na, o))
        flags = [below(p, thr) for p in ps]
        tables.append((o, N, na, C, rows, thr, flags))
        if tight or any(f is None for f in flags):
            return tables, True
        valid.extend(g for (g, _, _), f in zip(rows, flags) if f)
    return tables, False


def check_svc(ctx, drv, case):
    from hypergraphx import Hypergraph
    from hypergraphx.filters.statistical_filters import get_svc
    kind, lo, hi, alpha = case["kind"], case["min_order"], case["max_order"], case["alpha"]

    def build():
        h = Hypergraph(weighted=case["weighted"])
        for e, w in case["edges"]:
            h.add_edge(tuple(svc_label(kind, i) for i in e), weight=int(w) if case["weighted"] else None)
        for i in case.get("isolated") or []:
            h.add_node(svc_label(kind, i))
        return h

    h, err = guarded(build)
    if err:
        ctx.count("svc_build_failed")
        return
    E, err = guarded(lambda: [(tuple(e), int(h.get_weight(e))) for e in h.get_edges()])
    if err:
        ctx.count("svc_build_failed")
        return
    labels = sorted({svc_label(kind, i) for e, _ in case["edges"] for i in e})
    rank = {x: i for i, x in enumerate(labels)}
    E = [(tuple(rank[x] for x in e), w) for e, w in E]
    key = repr((E, lo, hi, alpha))
    call = f"get_svc(min_order={lo}, max_order={hi}, alpha={alpha})"
    # get_svc starts a process pool of cpu_count() workers for every order; most calls run with two workers (the
    # number of workers has no bearing on the result), 1 in 20 un-instrumented with the machine's number
    import hypergraphx.filters.statistical_filters as sfm
    real_cpu_count = getattr(sfm, "cpu_count", None)
    if case.get("pool") != "full" and real_cpu_count is not None:
        sfm.cpu_count = lambda: 2
    try:
        if case.get("kw"):
            res, err = guarded(lambda: get_svc(h, min_order=lo, max_order=hi, alpha=alpha), 60)
        else:
            res, err = guarded(lambda: get_svc(h, lo, hi, alpha), 60)
    finally:
        if real_cpu_count is not None:
            sfm.cpu_count = real_cpu_count
    ctx.count("svc_calls")
    ctx.count("svc_pool_" + ("full" if case.get("pool") == "full" else "two_workers"))
    raised = err is not None and err.startswith("exc: ValueError")
    if err and not raised:
        ctx.case(key, False, sample=case)
        ctx.violation(case, f"{call} does not return: {err}")
        return
    got = None
    if not raised:
        try:
            if list(res.columns) != ["group", "pvalue", "w", "fdr"]:
                raise ValueError(f"columns {list(res.columns)}")
            got = []                                    # [(order, [(group, p, w, flag)])] in frame order
            for g, p, w, f in zip(res["group"], res["pvalue"], res["w"], res["fdr"]):
                g = tuple(rank[x] for x in g)
                if not got or got[-1][0] != len(g):
                    got.append((len(g), []))
                got[-1][1].append((g, float(p), int(w), bool(f)))
            for o, rows in got:
                for g, p, w, f in rows:
                    if not math.isfinite(p) or not (0.0 <= p <= 1.0 + 1e-9):
                        raise ValueError(f"p-value of {g} is {p!r}")
        except Exception as e:  # noqa: BLE001
            ctx.case(key, False, sample=case)
            ctx.violation(case, f"result of {call} is not a frame with group/pvalue/w/fdr: {e!r}"[:300])
            return
    # ---- oracle (independent Python)
    pv = {(o, g): Fraction(p) for o, rows in (got or []) for g, p, w, f in rows}
    want, undecided = svc_expected(E, lo, hi, Fraction(alpha), pv)
    bad = []
    if want is None or raised:
        if (want is None) != raised:
            bad.append(f"{call} " + ("raises ValueError" if raised else "returns a frame") + ", expected " +
                       ("an exception (nothing to test)" if want is None else "a frame"))
    else:
        # frames of an order whose every group is dropped have no row: skip them on the expected side too
        exp = [t for t in want if t[4]]
        if [o for o, _ in got][:len(exp)] != [t[0] for t in exp][:len(got)] or (not undecided and len(got) != len(exp)):
            bad.append(f"orders in the frame {[o for o, _ in got]}, expected {[t[0] for t in exp]}")
        for (o, rows), (o2, N, na, C, erows, thr, flags) in zip(got, exp):
            if bad:
                break
            if [r[0] for r in rows] != [r[0] for r in erows]:
                bad.append(f"order {o}: groups {[r[0] for r in rows]}, expected {[r[0] for r in erows]} "
                           f"(sub-groups of the hyperedges that are in no validated core of a higher order, first seen first)")
                break
            for (g, p, w, f), (_, ew, ks) in zip(rows, erows):
                if w != ew:
                    bad.append(f"order {o} group {g}: w = {w}, it is contained in {ew} hyperedge occurrences")
                ex = tail_exact(ew, N, math.prod(ks), N ** o)
                if abs(Fraction(p) - ex) > REL * ex + FLOOR:
                    bad.append(f"order {o} group {g}: p-value {p!r}, P(Bin({N}, prod {ks}/{N}) >= {ew}) = {float(ex)!r}")
            if flags is None:
                break
            for (g, p, w, f), ef in zip(rows, flags):
                if ef is not None and f != ef:
                    bad.append(f"order {o} group {g}: validated={f}, p = {p!r}, step-up threshold {float(thr[0])!r}")
    n_rows = sum(len(r) for _, r in (got or []))
    n_valid = sum(1 for _, r in (got or []) for x in r if x[3])
    ctx.count("svc_raises" if raised else "svc_frames")
    ctx.count("svc_rows", n_rows)
    ctx.count("svc_rows_validated", n_valid)
    if undecided:
        ctx.count("svc_margin_skips")
    dropped = bool(got) and any(set(g) <= set(v[0]) for o, r in got for v in r if v[3]
                                for e, _ in E if len(e) >= 1 for g in [e] if len(g) < len(v[0]))
    if dropped:
        ctx.count("svc_cases_with_a_hyperedge_inside_a_validated_core")
    ctx.case(key, bool(got) and len(got) >= 2 and n_valid >= 1, sample=case)
    for b in bad[:3]:
        ctx.violation(case, b)
    if bad or drv is None:
        return
    # ---- model
    line = " ".join(["svc", str(lo), "none" if hi is None else str(hi), hgxv.enc_num(Fraction(alpha)),
                     hgxv.enc_lists([list(e) for e, _ in E]), hgxv.enc_list([w for _, w in E])])
    ans = drv.ask(line)
    if ans == "rej" or raised:
        if (ans == "rej") != raised:
            ctx.disagree({**case, "line": line}, f"model answers {ans[:80]!r}, implementation " +
                         ("raises ValueError" if raised else "returns a frame"))
        return
    try:
        model = []
        for tok in ([] if ans == "-" else ans.split(" ")):
            head, *rws = tok.split("@")
            o, N, na, bonf, thr = head.split(":")
            rr = []
            for r in rws:
                g, ks, w, p, f = r.split("=")
                rr.append((tuple(hgxv.dec_list(g, "_")), hgxv.dec_list(ks, "_"), int(w), Fraction(p), f == "1"))
            model.append((int(o), int(N), int(na), Fraction(bonf), Fraction(thr), rr))
    except Exception as e:  # noqa: BLE001
        ctx.disagree({**case, "line": line}, f"model answer unreadable: {ans[:200]!r} ({e!r})")
        return
    full_orders = [t[0] for t in want]
    mt = [t for t in model if t[5]]
    for i, (o, rows) in enumerate(got):
        if i >= len(mt) or mt[i][0] != o:
            ctx.disagree({**case, "line": line}, f"orders with rows: model {[t[0] for t in mt]}, implementation {[x[0] for x in got]}")
            return
        _, N, na, bonf, thr, rr = mt[i]
        if [r[0] for r in rr] != [r[0] for r in rows]:
            ctx.disagree({**case, "line": line}, f"order {o}: model groups {[r[0] for r in rr]}, implementation {[r[0] for r in rows]}")
            return
        for (g, ks, w, p, mf), (_, gp, gw, gf) in zip(rr, rows):
            if w != gw:
                ctx.disagree({**case, "line": line}, f"order {o} group {g}: model w = {w}, implementation {gw}")
            if abs(Fraction(gp) - p) > REL * p + FLOOR:
                ctx.disagree({**case, "line": line}, f"order {o} group {g}: model p = {float(p)!r} (w={w}, N={N}, K={ks}), implementation {gp!r}")
        # the threshold of the model on the p-values the implementation reported
        ln = "thr " + hgxv.enc_num(bonf) + " " + hgxv.enc_list([Fraction(r[1]) for r in rows])
        t, flags = drv.ask(ln).split(" ")
        flags = [x == 1 for x in hgxv.dec_list(flags)]
        ethr = want[full_orders.index(o)][5] if o in full_orders else None
        if ethr is None:
            return
        decidable = all(below(Fraction(r[1]), ethr) is not None for r in rows) and not (
            undecided and o == want[-1][0])
        if not decidable:
            return
        if Fraction(t) != ethr[0]:
            ctx.disagree({**case, "line": ln}, f"order {o}: model threshold {float(Fraction(t))!r}, step-up rule on the implementation's p-values {float(ethr[0])!r}")
        for (g, gp, gw, gf), mf in zip(rows, flags):
            if gf != mf:
                ctx.disagree({**case, "line": ln}, f"order {o} group {g}: model validated={mf}, implementation {gf}")
        if [r[4] for r in rr] != [r[3] for r in rows]:
            ctx.count("svc_model_flags_in_the_rounding_window")      # exact p vs double p within 1e-9 of a line
            return
    if len(mt) != len(got) and not undecided:
        ctx.disagree({**case, "line": line}, f"orders with rows: model {[t[0] for t in mt]}, implementation {[x[0] for x in got]}")
    if [t[0] for t in model] != full_orders and not undecided:
        ctx.disagree({**case, "line": line}, f"orders: model {[t[0] for t in model]}, range {full_orders}")


# ---------------------------------------------------------------------------------------------

def safely(ctx, f, drv, case):
    """an unexpected exception while evaluating a case comes from an output of the (possibly mutated)
    implementation that the evaluation code did not foresee: report it on the case instead of crashing"""
    try:
        f(ctx, drv, case)
    except RuntimeError:
        raise           # the Lean driver died: tool failure
    except Exception as e:  # noqa: BLE001
        ctx.violation(case, f"the result of the implementation could not be evaluated: {e!r}"[:300])


def run(ctx):
    self_test()
    drv = ctx.driver() if ctx.model_available else None
    rng = ctx.rng
    nA = ctx.scale(2000, 100000)
    nB = ctx.scale(450, 12000)
    budget = ctx.time_left()
    for i in range(nA):
        safely(ctx, check_filter, drv, gen_filter_case(rng))
        if ctx.too_many() or (ctx.time_left() is not None and ctx.time_left() < (budget or 0) * 0.55 + 5):
            break
    for i in range(nB):
        # fixed positions: one huge-weight case, six large sparse hypergraphs (two of each size class); more by the dice
        case = gen_svh_case(rng, heavy=ctx.tier == "thorough", huge=(i == 20),
                            sparse={25: 0, 26: 1, 27: 2, 125: 0, 126: 1, 127: 2}.get(i))
        if (i % 250 == 7 if ctx.tier == "thorough" else i % 90 == 7) or i == 126:
            case["mp"] = True           # (126: one of the large sparse hypergraphs goes through the process pool)
        safely(ctx, check_svh, drv, case)
        if ctx.too_many() or (ctx.time_left() is not None and ctx.time_left() < 5):
            break
    # part C (extension round): its own PRNG, seeded from the run's one after parts A and B took their draws
    import random
    rng_c = random.Random(rng.getrandbits(64))
    for i in range(ctx.scale(20, 400)):
        safely(ctx, check_svc, drv, gen_svc_case(rng_c))
        if ctx.too_many() or (ctx.time_left() is not None and ctx.time_left() < 3):
            break


def replay(ctx, case):
    drv = ctx.driver() if ctx.model_available else None
    case = dict(case)
    case.pop("line", None)
    if case.get("part") == "svh":
        safely(ctx, check_svh, drv, case)
    elif case.get("part") == "svc":
        safely(ctx, check_svc, drv, case)
    else:
        safely(ctx, check_filter, drv, case)
