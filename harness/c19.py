"""C19 - metadata filters and the statistically validated hypergraph.

Part A: `filter_hypergraph` on Hypergraph / TemporalHypergraph / MultiplexHypergraph / DirectedHypergraph
        vs `C19.filterHg` (lean/Hgxv/Model/C19.lean) + an oracle written from the property's words.
Part B: `get_svh` vs `C19.svh` (exact rational binomial tail) + an oracle with `fractions.Fraction`."""
import math
import signal
from fractions import Fraction

import hgxv

RULE = ("A: random containers of the four types (3-7 nodes, int or string labels, 1-9 records of size 1-4 with sub-/"
        "super-set records injected so that shrinking collides, times 0-3 / 3 layers / disjoint non-empty sides, weighted "
        "or not, weights k/4 or ints, metadata over 4 attributes and 7 values incl. None and missing attributes), node and "
        "edge criteria None / {} / 1-2 attributes with 1-3 allowed values (incl. None and values nobody has), both modes, "
        "both keep_edges; distinct by (type, content, criteria, mode, keep_edges); non-trivial when the criteria keep >=1 "
        "and remove >=1 item. B: weighted/unweighted Hypergraphs (3-9 nodes, 1-12 hyperedges of size 1-5, integer weights "
        "with a heavy tail), every max_order in 1..6 and 10, alpha in {0.01 (mostly), 0.05, 0.2, 0.5}; distinct by "
        "(edges, weights, max_order, alpha); non-trivial when >=2 sizes are reported and some but not all rows are validated "
        "or >=1 row has weight >= 2")
ASSUMPTIONS = ["hyperedges are duplicate-free node tuples; directed ones have disjoint non-empty sides (quantifier)",
               "class invariants of the containers (C01-C04): distinct keys, every node of a key is a node, an unweighted "
               "container has all weights 1",
               "labels/layers are mapped to their rank, metadata attributes and values to tokens (== on the value pool "
               "coincides with token equality) before they reach the model",
               "get_svh: positive integer weights (quantifier)"]
TRUSTED = ["scipy.stats.binom.sf is a parameter of the model; compared on every generated row with the exact rational tail "
           "(tolerance 1e-9 absolute)",
           "threshold decisions are taken on the Python p-values converted exactly (float.as_integer_ratio); decisions whose "
           "margin is below 1e-12 are skipped and counted (svh_margin_skips)"]
BUDGET_S = {"quick": 45, "thorough": 780}

ATTRS = ["type", "age", "country", "k"]
VALUES = ["person", "location", "animal", 25, 30, 2.5, "x"]   # + None; pairwise != and no 1/True/1.0 collisions
LAYERS = ["alpha", "beta", "gamma"]
TOL = 1e-9
MARGIN = Fraction(1, 10 ** 12)


class Hang(Exception):
    pass


def _alarm(signum, frame):
    raise Hang()


def guarded(f, seconds=20):
    """run f(); returns (value, None) or (None, 'exc: ...')"""
    old = signal.signal(signal.SIGALRM, _alarm)
    signal.alarm(seconds)
    try:
        return f(), None
    except Hang:
        return None, "timeout"
    except BaseException as e:  # noqa: BLE001 - a mutated tree may raise anything
        if isinstance(e, (KeyboardInterrupt, SystemExit)):
            raise
        return None, "exc: " + repr(e)[:200]
    finally:
        signal.alarm(0)
        signal.signal(signal.SIGALRM, old)


# ---------------------------------------------------------------------------------------------
# tokens

def vtok(v):
    if v is None:
        return 0
    for i, pv in enumerate(VALUES):
        if type(pv) is type(v) and pv == v:
            return i + 1
    raise ValueError(f"value {v!r} outside the pool")


def md_tokens(md):
    if not isinstance(md, dict):
        raise ValueError(f"metadata is {md!r}, not a dict")
    out = []
    for a in sorted(md, key=lambda a: ATTRS.index(a)):
        out += [ATTRS.index(a), vtok(md[a])]
    return out


def crit_wire(crit):
    if crit is None:
        return "none"
    return hgxv.enc_lists([[ATTRS.index(a)] + [vtok(v) for v in vs] for a, vs in crit.items()])


# ---------------------------------------------------------------------------------------------
# Part A

def gen_md(rng, p_empty=0.25):
    if rng.random() < p_empty:
        return {}
    md = {}
    for a in rng.sample(ATTRS, rng.randint(1, 3)):
        md[a] = rng.choice(VALUES + [None]) if rng.random() < 0.9 else None
    return md


def gen_crit(rng, used_vals):
    r = rng.random()
    if r < 0.15:
        return None
    if r < 0.2:
        return {}
    crit = {}
    for a in rng.sample(ATTRS, rng.choice([1, 1, 1, 2])):
        pool = [v for v in used_vals.get(a, [])] * 3 + VALUES + [None]
        crit[a] = [rng.choice(pool) for _ in range(rng.randint(1, 3))]
        if rng.random() < 0.05:
            crit[a] = []
    return crit


def gen_filter_case(rng):
    ty = rng.choice("HHTMD")
    n = rng.randint(3, 7)
    if rng.random() < 0.3:
        labels = sorted(rng.sample([chr(97 + i) * rng.randint(1, 2) for i in range(12)], n))
    else:
        labels = sorted(rng.sample(range(0, 30), n))
    weighted = rng.random() < 0.5
    node_md = [[x, gen_md(rng, 0.15)] for x in labels if rng.random() < 0.8]
    rng.shuffle(node_md)
    recs = []

    def weight():
        if not weighted:
            return None
        return rng.choice([1, 2, 3, 0.25, 0.5, 1.75, 4])

    def extra():
        if ty == "T":
            return rng.randint(0, 2)
        if ty == "M":
            return rng.choice(LAYERS[:2] if rng.random() < 0.8 else LAYERS)
        return None

    for _ in range(rng.randint(1, 6)):
        if ty == "D":
            size = rng.choice([2, 2, 3, 3, 4])
            size = min(size, n)
            nodes = rng.sample(labels, size)
            k = rng.randint(1, size - 1)
            key = [nodes[:k], nodes[k:]]
            recs.append([key, None, weight(), gen_md(rng)])
            r = rng.random()
            if r < 0.5 and size >= 3:
                # the same hyperedge without one node of a side that has two: a shrink target
                side = 0 if len(key[0]) >= 2 else 1
                if len(key[side]) >= 2:
                    drop = rng.choice(key[side])
                    k2 = [[x for x in key[0] if x != drop], [x for x in key[1] if x != drop]]
                    recs.append([k2, None, weight(), gen_md(rng)])
                    if rng.random() < 0.5:
                        # the dropped node on the other side: two incident hyperedges with the same shrunk key
                        k3 = [list(k2[0]), list(k2[1])]
                        k3[1 - side].append(drop)
                        recs.append([k3, None, weight(), gen_md(rng)])
        else:
            size = min(n, rng.choice([1, 2, 2, 3, 3, 4]))
            nodes = rng.sample(labels, size)
            ex = extra()
            recs.append([nodes, ex, weight(), gen_md(rng)])
            r = rng.random()
            if r < 0.45 and size >= 2:
                drop = rng.choice(nodes)
                sub = [x for x in nodes if x != drop]
                recs.append([sub, ex if rng.random() < 0.8 else extra(), weight(), gen_md(rng)])
            elif r < 0.6 and size < n:
                sup = nodes + [rng.choice([x for x in labels if x not in nodes])]
                recs.append([sup, ex, weight(), gen_md(rng)])
    rng.shuffle(recs)
    used_n, used_e = {}, {}
    for _, md in node_md:
        for a, v in md.items():
            used_n.setdefault(a, []).append(v)
    for r in recs:
        for a, v in r[3].items():
            used_e.setdefault(a, []).append(v)
    case = {"part": "filter", "type": ty, "weighted": weighted, "labels": labels, "node_md": node_md, "records": recs,
            "node_criteria": gen_crit(rng, used_n), "edge_criteria": gen_crit(rng, used_e),
            "mode": rng.choice(["keep", "remove"]), "keep_edges": rng.random() < 0.5}
    if rng.random() < 0.1:
        case["edge_criteria"] = None
    return case


def build(case):
    from hypergraphx import Hypergraph, DirectedHypergraph, TemporalHypergraph, MultiplexHypergraph
    ty, weighted = case["type"], case["weighted"]
    cls = {"H": Hypergraph, "T": TemporalHypergraph, "M": MultiplexHypergraph, "D": DirectedHypergraph}[ty]
    h = cls(weighted=weighted)
    for x, md in case["node_md"]:
        h.add_node(x, metadata=dict(md))
    for nodes, ex, w, md in case["records"]:
        if ty == "D":
            edge = (tuple(nodes[0]), tuple(nodes[1]))
            h.add_edge(edge, weight=w, metadata=dict(md))
        elif ty == "H":
            h.add_edge(tuple(nodes), weight=w, metadata=dict(md))
        else:
            h.add_edge(tuple(nodes), ex, weight=w, metadata=dict(md))
    for x in case["labels"]:
        if rng_free_isolated(case, x):
            h.add_node(x)
    return h


def rng_free_isolated(case, x):
    """labels that appear in no record and got no metadata are added as bare isolated nodes when their
    position in the label list is even (deterministic, so that replays rebuild the same object)"""
    if any(x == y for y, _ in case["node_md"]):
        return False
    for nodes, *_ in case["records"]:
        flat = nodes[0] + nodes[1] if case["type"] == "D" else nodes
        if x in flat:
            return False
    return case["labels"].index(x) % 2 == 0


def key_nodes(ty, key):
    if ty == "H":
        return tuple(key)
    if ty == "T":
        return tuple(key[1])
    if ty == "M":
        return tuple(key[0])
    return tuple(key[0]) + tuple(key[1])


def content_of(h, ty):
    """(nodes {label: md}, edges {key: (weight, md)}) through the public API"""
    nodes = dict(h.get_nodes(metadata=True))
    edges = {}
    for key in list(h.get_edges()):
        if ty == "H" or ty == "D":
            w, md = h.get_weight(key), h.get_edge_metadata(key)
        elif ty == "T":
            w, md = h.get_weight(key[1], key[0]), h.get_edge_metadata(key[1], key[0])
        else:
            w, md = h.get_weight(key[0], key[1]), h.get_edge_metadata(key[0], key[1])
        if key in edges:
            raise ValueError(f"get_edges lists {key!r} twice")
        edges[key] = (w, md)
    return nodes, edges


def incidence_of(h, ty, nodes):
    """adjacency side of the digest: for each node the multiset of incident keys"""
    out = {}
    for x in nodes:
        if ty == "D":
            out[x] = (sorted(map(repr, h.get_source_edges(x))), sorted(map(repr, h.get_target_edges(x))))
        else:
            out[x] = sorted(map(repr, h.get_incident_edges(x)))
    return out


def wire_key(ty, key, rank):
    if ty == "H":
        return ([rank[x] for x in key], [])
    if ty == "T":
        return ([rank[x] for x in key[1]], [key[0]])
    if ty == "M":
        return ([rank[x] for x in key[0]], [LAYERS.index(key[1])])
    return ([rank[x] for x in key[0]], [rank[x] for x in key[1]])


def tokens_of(ty, nodes, edges, rank):
    """content in the model's vocabulary: ({node: md tokens}, {(p1, p2): (Fraction weight, md tokens)})"""
    tn = {rank[x]: tuple(md_tokens(md)) for x, md in nodes.items()}
    te = {}
    for key, (w, md) in edges.items():
        p1, p2 = wire_key(ty, key, rank)
        te[(tuple(p1), tuple(p2))] = (Fraction(w), tuple(md_tokens(md)))
    return tn, te


def matches(md, crit):
    """the property's words: the item's metadata match every criterion"""
    for attr in crit:
        if (md[attr] if attr in md else None) not in crit[attr]:
            return False
    return True


def is_selected(md, crit, mode):
    if crit is None:
        return False
    m = matches(md, crit)
    return (not m) if mode == "keep" else m


def shrunk_key(ty, key, R):
    """key without the removed nodes; None = the record disappears (per container type)"""
    if ty == "H":
        return tuple(x for x in key if x not in R)
    if ty == "T":
        e = tuple(x for x in key[1] if x not in R)
        return (key[0], e) if e else None
    if ty == "M":
        e = tuple(x for x in key[0] if x not in R)
        return (e, key[1]) if e else None
    s = tuple(x for x in key[0] if x not in R)
    t = tuple(x for x in key[1] if x not in R)
    return (s, t) if s and t else None


def oracle_filter(case, ty, weighted, nodes0, edges0, nodes1, edges1):
    """list of failures of the property's statement on (before, after)"""
    bad = []
    ncrit, ecrit, mode, keep = case["node_criteria"], case["edge_criteria"], case["mode"], case["keep_edges"]
    R = {x for x, md in nodes0.items() if is_selected(md, ncrit, mode)}
    want_nodes = {x: md for x, md in nodes0.items() if x not in R}
    if set(nodes1) != set(want_nodes):
        bad.append(f"nodes after = {sorted(nodes1, key=repr)}, criteria say {sorted(want_nodes, key=repr)}")
    for x in want_nodes:
        if x in nodes1 and nodes1[x] != want_nodes[x]:
            bad.append(f"metadata of surviving node {x!r} changed: {want_nodes[x]!r} -> {nodes1[x]!r}")
    if not keep:
        want = {k: v for k, v in edges0.items()
                if not (set(key_nodes(ty, k)) & R) and not is_selected(v[1], ecrit, mode)}
        if set(edges1) != set(want):
            bad.append(f"hyperedges after = {sorted(edges1, key=repr)}, criteria say {sorted(want, key=repr)}")
        for k in want:
            if k in edges1 and (edges1[k][0] != want[k][0] or edges1[k][1] != want[k][1]):
                bad.append(f"surviving hyperedge {k!r} changed: {want[k]!r} -> {edges1[k]!r}")
    else:
        groups = {}
        for k, v in edges0.items():
            k2 = shrunk_key(ty, k, R)
            if k2 is not None:
                groups.setdefault(k2, []).append(v)
        for k in edges1:
            if k not in groups:
                bad.append(f"hyperedge {k!r} after the filter is not a shrunk input hyperedge")
        for k2, members in groups.items():
            cands = [m[1] for m in members]
            if k2 in edges1:
                w, md = edges1[k2]
                wsum = sum(m[0] for m in members) if weighted else 1
                if w != wsum:
                    bad.append(f"weight of {k2!r} is {w!r}, the shrunk hyperedges weigh {wsum!r}")
                if not any(md == c for c in cands):
                    bad.append(f"metadata of {k2!r} is {md!r}, not the metadata of a hyperedge shrunk to it")
                elif is_selected(md, ecrit, mode):
                    bad.append(f"hyperedge {k2!r} with metadata {md!r} should have been removed by the hyperedge criteria")
            else:
                if not any(is_selected(c, ecrit, mode) for c in cands):
                    bad.append(f"shrunk hyperedge {k2!r} is missing although the hyperedge criteria keep it")
    return bad


def check_filter(ctx, drv, case):
    from hypergraphx.filters import filter_hypergraph
    ty = case["type"]
    ctx.count("filter_type_" + ty)
    h, err = guarded(lambda: build(case))
    if err:
        # construction through add_node/add_edge is C01-C04's business; not a C19 observation
        ctx.count("filter_build_failed")
        return
    pre, err = guarded(lambda: content_of(h, ty))
    if err:
        ctx.count("filter_build_failed")
        return
    nodes0, edges0 = pre
    nodes0 = {x: dict(md) if isinstance(md, dict) else md for x, md in nodes0.items()}
    edges0 = {k: (w, dict(md) if isinstance(md, dict) else md) for k, (w, md) in edges0.items()}
    weighted = bool(h.is_weighted())
    rank = {x: i for i, x in enumerate(sorted(case["labels"]))}
    hmeta0, err = guarded(lambda: dict(h.get_hypergraph_metadata()))
    ncrit, ecrit, mode, keep = case["node_criteria"], case["edge_criteria"], case["mode"], case["keep_edges"]
    n_sel = sum(is_selected(md, ncrit, mode) for md in nodes0.values() if isinstance(md, dict))
    e_sel = sum(is_selected(v[1], ecrit, mode) for v in edges0.values() if isinstance(v[1], dict))
    nontrivial = (0 < n_sel < len(nodes0)) or (0 < e_sel < len(edges0))
    key = repr((ty, weighted, sorted(nodes0.items(), key=repr), sorted(edges0.items(), key=repr), ncrit, ecrit, mode, keep))
    ctx.case(key, nontrivial, sample=case)
    ctx.count("filter_mode_%s_keep%d" % (mode, keep))
    if ncrit is None or ecrit is None:
        ctx.count("filter_criteria_none")

    _, err = guarded(lambda: filter_hypergraph(h, node_criteria=ncrit, edge_criteria=ecrit, mode=mode, keep_edges=keep))
    if err:
        ctx.violation(case, f"filter_hypergraph on {type(h).__name__} (mode={mode}, keep_edges={keep}) does not return: {err}")
        return
    post, err = guarded(lambda: content_of(h, ty))
    if err:
        ctx.violation(case, f"the container cannot be listed after filter_hypergraph: {err}")
        return
    nodes1, edges1 = post
    try:
        t0 = tokens_of(ty, nodes0, edges0, rank)
    except ValueError:
        ctx.count("filter_build_failed")
        return
    try:
        t1 = tokens_of(ty, nodes1, edges1, rank)
    except (ValueError, KeyError, TypeError) as e:
        ctx.violation(case, f"content after the filter is malformed: {e!r}")
        return
    bad = oracle_filter(case, ty, weighted, nodes0, edges0, nodes1, edges1)
    # nothing else changes: weighted flag, hypergraph metadata, adjacency consistent with the records
    inc, err = guarded(lambda: incidence_of(h, ty, nodes1))
    if err:
        bad.append(f"incidence queries fail after the filter: {err}")
    else:
        for x in nodes1:
            if ty == "D":
                want = (sorted(repr(k) for k in edges1 if x in k[0]), sorted(repr(k) for k in edges1 if x in k[1]))
            else:
                want = sorted(repr(k) for k in edges1 if x in key_nodes(ty, k))
            if inc[x] != want:
                bad.append(f"incident hyperedges of {x!r} are {inc[x]}, the records say {want}")
    if bool(h.is_weighted()) != weighted:
        bad.append("is_weighted() changed")
    hmeta1, err = guarded(lambda: dict(h.get_hypergraph_metadata()))
    if hmeta0 is not None and hmeta1 != hmeta0:
        bad.append(f"hypergraph metadata changed: {hmeta0!r} -> {hmeta1!r}")
    for b in bad[:3]:
        ctx.violation(case, b)
    if keep:
        R = set(nodes0) - set(nodes1)
        imgs = [shrunk_key(ty, k, R) for k in edges0]
        if any(i is None for i in imgs):
            ctx.count("filter_dropped_records")
        if len(set(i for i in imgs if i is not None)) < len([i for i in imgs if i is not None]):
            ctx.count("filter_shrink_merges")
    if drv is None:
        return
    tn0, te0 = t0
    order = list(te0)
    line = " ".join([
        "filter", ty, "1" if weighted else "0",
        hgxv.enc_lists([[n] + list(md) for n, md in tn0.items()]),
        ("|".join(";".join(hgxv.enc_list(part, "_") for part in (k[0], k[1], te0[k][1])) for k in order) if order else "-"),
        hgxv.enc_list([te0[k][0] for k in order]),
        crit_wire(ncrit), crit_wire(ecrit), mode, "1" if keep else "0"])
    ans = drv.ask(line)
    if ans == "rej":
        ctx.disagree({**case, "line": line}, "the model's filter raises (absent node or key) while the implementation returned")
        return
    try:
        a_nodes, a_edges, a_ws = ans.split(" ")
        mn = {l[0]: tuple(l[1:]) for l in hgxv.dec_lists(a_nodes)}
        me = {}
        recs = [] if a_edges == "-" else a_edges.split("|")
        ws = hgxv.dec_list(a_ws)
        for rec, w in zip(recs, ws):
            p1, p2, md = [tuple(hgxv.dec_list(t, "_")) for t in rec.split(";")]
            me[(p1, p2)] = (Fraction(w), md)
        if len(recs) != len(ws) or len(me) != len(recs):
            raise ValueError("duplicate or unbalanced records")
    except Exception as e:  # noqa: BLE001
        ctx.disagree({**case, "line": line}, f"model answer unreadable: {ans!r} ({e!r})")
        return
    if mn != t1[0]:
        ctx.disagree({**case, "line": line}, f"nodes: model {sorted(mn.items())}, implementation {sorted(t1[0].items())}")
    elif me != t1[1]:
        ctx.disagree({**case, "line": line}, f"records: model {sorted(me.items())}, implementation {sorted(t1[1].items())}")


# ---------------------------------------------------------------------------------------------
# Part B

def gen_svh_case(rng):
    n = rng.randint(3, 9)
    if rng.random() < 0.2:
        labels = sorted(rng.sample([chr(97 + i) for i in range(15)], n))
    else:
        labels = sorted(rng.sample(range(0, 25), n))
    weighted = rng.random() < 0.8
    edges, seen = [], set()
    style = rng.random()
    for _ in range(rng.randint(1, 12)):
        size = min(n, rng.choice([1, 2, 2, 2, 3, 3, 4, 5]))
        e = tuple(sorted(rng.sample(labels, size)))
        if e in seen:
            continue
        seen.add(e)
        if not weighted:
            w = 1
        elif style < 0.4:
            w = rng.choice([1, 1, 1, 2, 2, 3])
        else:
            w = rng.choice([1, 1, 1, 1, 2, 3, 6, 9, 14])
        edges.append([list(e), w])
    if weighted and rng.random() < 0.45:
        # a few heavy, (nearly) disjoint hyperedges among light ones: small p-values, some rows validated
        pool = labels[:]
        rng.shuffle(pool)
        edges = [[e, w] for e, w in edges if w <= 2][:rng.randint(0, 4)]
        seen = {tuple(e) for e, _ in edges}
        while len(pool) >= 2 and rng.random() < 0.9:
            size = min(len(pool), rng.choice([2, 2, 2, 3, 3, 4]))
            e = tuple(sorted(pool[:size]))
            pool = pool[size - (1 if rng.random() < 0.2 else 0):]
            if e not in seen:
                seen.add(e)
                edges.append([list(e), rng.choice([5, 8, 12, 16, 20])])
        rng.shuffle(edges)
    return {"part": "svh", "labels": labels, "weighted": weighted, "edges": edges,
            "max_order": rng.choice([1, 2, 3, 3, 4, 4, 5, 6, 10]),
            "alpha": rng.choice([0.01] * 5 + [0.05, 0.2, 0.5]), "mp": False}


def exact_tail(w, N, p):
    q = 1 - p
    return sum(math.comb(N, j) * p ** j * q ** (N - j) for j in range(w, N + 1))


def step_up(ps, bonf):
    """threshold from the property's words: the largest i*bonf such that the i-th smallest p-value is below it"""
    s = sorted(ps)
    thr, tight = Fraction(0), False
    for i, p in enumerate(s, start=1):
        if abs(p - i * bonf) < MARGIN:
            tight = True
        if p < i * bonf:
            thr = i * bonf
    return thr, tight


def check_svh(ctx, drv, case):
    from hypergraphx import Hypergraph
    from hypergraphx.filters.statistical_filters import get_svh
    edges = [(tuple(e), int(w)) for e, w in case["edges"]]
    bound, alpha, mp = case["max_order"], case["alpha"], case.get("mp", False)
    h = Hypergraph(weighted=case["weighted"])
    for i, (e, w) in enumerate(edges):
        # the tuple is handed over in a rotated order: Hypergraph.add_edge canonicalises it
        e_in = e[i % len(e):] + e[:i % len(e)]
        h.add_edge(e_in, weight=w if case["weighted"] else None)
    E = [(tuple(e), h.get_weight(e)) for e in h.get_edges()]
    rank = {x: i for i, x in enumerate(sorted(case["labels"]))}
    res, err = guarded(lambda: get_svh(h, max_order=bound, alpha=alpha, mp=mp), 60 if mp else 20)
    ctx.count("svh_mp" if mp else "svh_serial")
    if err:
        ctx.case(repr((E, bound, alpha)), False, sample=case)
        ctx.violation(case, f"get_svh(max_order={bound}, alpha={alpha}, mp={mp}) does not return: {err}")
        return
    bad = []
    try:
        got = {}
        for size, df in res.items():
            rows = [(tuple(e), float(p), bool(f)) for e, p, f in zip(df["edge"], df["pvalue"], df["fdr"])]
            if int(size) in got:
                bad.append(f"size {size} reported twice")
            got[int(size)] = rows
    except Exception as e:  # noqa: BLE001
        ctx.case(repr((E, bound, alpha)), False, sample=case)
        ctx.violation(case, f"result of get_svh is not a dict of DataFrames with edge/pvalue/fdr: {e!r}")
        return
    for size, rows in got.items():
        for e, p, f in rows:
            if not math.isfinite(p) or not (0.0 <= p <= 1.0 + 1e-9):
                bad.append(f"p-value of {e!r} under size {size} is {p!r}, not a probability")
    if bad:
        ctx.case(repr((E, bound, alpha, mp)), False, sample=case)
        for b in bad[:3]:
            ctx.violation(case, b)
        return
    # ---- oracle: the property's words
    sizes = sorted({len(e) for e, _ in E if 2 <= len(e) <= bound})
    if sorted(got) != sizes:
        bad.append(f"sizes reported {sorted(got)}, hyperedge sizes within [2,{bound}] are {sizes}")
    a_exact = Fraction(alpha)
    skips = 0
    n_valid = n_rows = 0
    for n in sizes:
        if n not in got:
            continue
        rows = got[n]
        En = [(e, w) for e, w in E if len(e) == n]
        listed = [tuple(sorted(r[0])) for r in rows]
        for e, _ in En:
            c = listed.count(tuple(sorted(e)))
            if c != 1:
                bad.append(f"hyperedge {e!r} is reported {c} times under size {n}")
        for e in listed:
            if e not in [tuple(sorted(x)) for x, _ in En]:
                bad.append(f"row {e!r} under size {n} is not a size-{n} hyperedge of the input")
        N = sum(w for _, w in En)
        wdict = {tuple(sorted(e)): w for e, w in En}
        ps = []
        for e, p, f in rows:
            e = tuple(sorted(e))
            if e not in wdict:
                continue
            pr = Fraction(1)
            for i in e:
                pr *= Fraction(sum(w for x, w in En if i in x), N)
            want = exact_tail(wdict[e], N, pr)
            if not (abs(Fraction(p) - want) <= Fraction(TOL)) or p != p:
                bad.append(f"p-value of {e!r} is {p!r}, P(Bin({N}, {pr}) >= {wdict[e]}) = {float(want)!r}")
            ps.append(Fraction(p))
        na = len({i for e, _ in En for i in e})
        bonf = a_exact / math.comb(na, n)
        thr, tight = step_up(ps, bonf)
        if tight:
            skips += 1
        else:
            for e, p, f in rows:
                if abs(Fraction(p) - thr) < MARGIN:
                    skips += 1
                    continue
                if f != (Fraction(p) < thr):
                    bad.append(f"hyperedge {e!r} (size {n}) has p={p!r} and validated={f}, the step-up threshold is {float(thr)!r}")
        for e, p, f in rows:
            for e2, p2, f2 in rows:
                if p <= p2 and f2 and not f:
                    bad.append(f"{e2!r} (p={p2!r}) is validated while {e!r} (p={p!r}) is not")
        n_rows += len(rows)
        n_valid += sum(1 for r in rows if r[2])
    ctx.count("svh_margin_skips", skips)
    ctx.count("svh_rows", n_rows)
    ctx.count("svh_rows_validated", n_valid)
    nontrivial = (len(sizes) >= 2 and 0 < n_valid < n_rows) or any(w >= 2 and 2 <= len(e) <= bound for e, w in E)
    ctx.case(repr((E, bound, alpha, mp)), nontrivial, sample=case)
    for b in bad[:3]:
        ctx.violation(case, b)
    if drv is None or bad:
        return
    # ---- model
    line = " ".join(["svh", str(bound), hgxv.enc_num(a_exact), hgxv.enc_lists([[rank[x] for x in e] for e, _ in E]),
                     hgxv.enc_list([w for _, w in E])])
    ans = drv.ask(line)
    try:
        model = {}
        for tok in ([] if ans == "-" else ans.split(" ")):
            head, *rws = tok.split("@")
            n, N, na, bonf, thr = head.split(":")
            rr = []
            for r in rws:
                e, ks, w, p, f = r.split("=")
                rr.append((tuple(hgxv.dec_list(e, "_")), hgxv.dec_list(ks, "_"), int(w), Fraction(p), f == "1"))
            model[int(n)] = (int(N), int(na), Fraction(bonf), Fraction(thr), rr)
    except Exception as e:  # noqa: BLE001
        ctx.disagree({**case, "line": line}, f"model answer unreadable: {ans[:200]!r} ({e!r})")
        return
    if sorted(model) != sorted(got):
        ctx.disagree({**case, "line": line}, f"sizes: model {sorted(model)}, implementation {sorted(got)}")
        return
    lines2, meta2 = [], []
    for n in sorted(got):
        N, na, bonf, thr, rr = model[n]
        rows = got[n]
        ge = [tuple(rank[x] for x in sorted(r[0])) for r in rows]
        if [r[0] for r in rr] != ge:
            ctx.disagree({**case, "line": line}, f"size {n}: model rows {[r[0] for r in rr]}, implementation rows {ge}")
            continue
        for (e, ks, w, p, f), (_, gp, gf) in zip(rr, rows):
            if abs(Fraction(gp) - p) > Fraction(TOL):
                ctx.disagree({**case, "line": line}, f"size {n} row {e}: model p = {float(p)!r} (w={w}, N={N}, K={ks}), implementation {gp!r}")
        lines2.append("thr " + hgxv.enc_num(bonf) + " " + hgxv.enc_list([Fraction(r[1]) for r in rows]))
        meta2.append((n, bonf, rows))
    for ln, a, (n, bonf, rows) in zip(lines2, drv.batch(lines2), meta2):
        t, flags = a.split(" ")
        t = Fraction(t)
        flags = [x == 1 for x in hgxv.dec_list(flags)]
        ps = [Fraction(r[1]) for r in rows]
        if any(abs(p - (i + 1) * bonf) < MARGIN for i, p in enumerate(sorted(ps))):
            continue
        for (e, gp, gf), mf in zip(rows, flags):
            if abs(Fraction(gp) - t) < MARGIN:
                continue
            if gf != mf:
                ctx.disagree({**case, "line": ln}, f"size {n} row {e!r}: model validated={mf} (threshold {float(t)!r}), implementation {gf}")


# ---------------------------------------------------------------------------------------------

def safely(ctx, f, drv, case):
    """an unexpected exception while evaluating a case comes from an output of the (possibly mutated)
    implementation that the evaluation code did not foresee: report it on the case instead of crashing"""
    try:
        f(ctx, drv, case)
    except RuntimeError:
        raise           # the Lean driver died: tool failure
    except Exception as e:  # noqa: BLE001
        ctx.violation(case, f"the result of the implementation could not be evaluated: {e!r}"[:300])


def run(ctx):
    drv = ctx.driver() if ctx.model_available else None
    rng = ctx.rng
    nA = ctx.scale(2000, 100000)
    nB = ctx.scale(350, 12000)
    budget = ctx.time_left()
    for i in range(nA):
        safely(ctx, check_filter, drv, gen_filter_case(rng))
        if ctx.too_many() or (ctx.time_left() is not None and ctx.time_left() < (budget or 0) * 0.45 + 5):
            break
    for i in range(nB):
        case = gen_svh_case(rng)
        if ctx.tier == "thorough" and i % 250 == 7:
            case["mp"] = True
        safely(ctx, check_svh, drv, case)
        if ctx.too_many() or (ctx.time_left() is not None and ctx.time_left() < 5):
            break


def replay(ctx, case):
    drv = ctx.driver() if ctx.model_available else None
    case = dict(case)
    case.pop("line", None)
    if case.get("part") == "svh":
        safely(ctx, check_svh, drv, case)
    else:
        safely(ctx, check_filter, drv, case)
